(* Proofs/SetItem.v — the model of in-place assignment (Model/SetItem.v) meets C08:
   list-assignment contents, dtype = fold of promotion, rejection of incompatible values at any
   position, atomicity at every failure point, per-column delegation for tables, rename_columns. *)
From Coq Require Import List Bool Arith ZArith Lia.
From Serif Require Import Base.PyVal Base.StErr Spec.PySlice Spec.DtypeLattice Model.Dtype Model.Index
  Model.SetItem Proofs.Dtype Proofs.PySlice.
Import ListNotations.

(* ---- list assignment ------------------------------------------------------------------ *)

Lemma set_nth_length {A} (l : list A) p x : length (set_nth l p x) = length l.
Proof. revert p. induction l as [|h t IH]; intros [|p]; cbn [set_nth length]; auto. Qed.

Lemma py_assign_length {A} ups : forall l : list A, length (py_assign l ups) = length l.
Proof.
  unfold py_assign. induction ups as [|u t IH]; intros l; cbn [fold_left]; [reflexivity|].
  rewrite IH. apply set_nth_length.
Qed.

Lemma nth_error_set_nth_eq {A} (l : list A) p x : p < length l -> nth_error (set_nth l p x) p = Some x.
Proof. revert p. induction l as [|h t IH]; intros [|p] H; cbn in *; try lia; [reflexivity|apply IH; lia]. Qed.

Lemma nth_error_set_nth_neq {A} (l : list A) p q x : p <> q -> nth_error (set_nth l p x) q = nth_error l q.
Proof.
  revert p q. induction l as [|h t IH]; intros [|p] [|q] H; cbn [set_nth nth_error]; try reflexivity; try congruence.
  apply IH. congruence.
Qed.

Lemma set_nth_same {A} (l : list A) p x : nth_error l p = Some x -> set_nth l p x = l.
Proof.
  revert p. induction l as [|h t IH]; intros [|p] H; cbn in *; try discriminate; [congruence|].
  f_equal. apply IH. exact H.
Qed.

(* a position nobody writes keeps its element; the last write to a position wins *)
Lemma py_assign_untouched {A} ups : forall (l : list A) q,
  ~ In q (map fst ups) -> nth_error (py_assign l ups) q = nth_error l q.
Proof.
  unfold py_assign. induction ups as [|[p x] t IH]; intros l q H; cbn [fold_left fst snd]; [reflexivity|].
  cbn [map fst In] in H. rewrite IH by tauto. apply nth_error_set_nth_neq. tauto.
Qed.

Lemma py_assign_last {A} ups1 p x ups2 : forall l : list A,
  p < length l -> ~ In p (map fst ups2) ->
  nth_error (py_assign l (ups1 ++ (p, x) :: ups2)) p = Some x.
Proof.
  intros l Hp Hn. unfold py_assign. rewrite fold_left_app. cbn [fold_left fst snd].
  fold (py_assign (set_nth (fold_left (fun acc u => set_nth acc (fst u) (snd u)) ups1 l) p x) ups2).
  rewrite py_assign_untouched by exact Hn. apply nth_error_set_nth_eq.
  fold (py_assign l ups1). rewrite py_assign_length. exact Hp.
Qed.

(* ---- the dtype fold ---------------------------------------------------------------------- *)

Definition infos (vs : list elt) : list pyv := map el_info vs.

Lemma fold_required_ok d vs : forall req, fold_required d vs = Ok req ->
  req = fold_left promote_with (infos vs) d.
Proof.
  revert d. induction vs as [|v t IH]; intros d req H; cbn [fold_required infos map fold_left] in *.
  - inversion H. reflexivity.
  - destruct (kind_eqb (dkind (promote_with d (el_info v))) KObject); [discriminate|]. apply IH. exact H.
Qed.

Lemma fold_required_err d vs e : fold_required d vs = Err e -> e = EType.
Proof.
  revert d. induction vs as [|v t IH]; intros d H; cbn [fold_required] in H; [discriminate|].
  destruct (kind_eqb (dkind (promote_with d (el_info v))) KObject); [inversion H; reflexivity|eauto].
Qed.

Definition is_none_info (v : pyv) : bool := match v with None => true | Some _ => false end.

Lemma fold_promote_nullable l : forall d,
  nullable (fold_left promote_with l d) = nullable d || existsb is_none_info l.
Proof.
  induction l as [|v t IH]; intros d; cbn [fold_left existsb]; [rewrite orb_false_r; reflexivity|].
  rewrite IH. destruct v as [vi|]; cbn [is_none_info].
  - rewrite promote_nullable_some. reflexivity.
  - rewrite promote_none. cbn [nullable]. rewrite orb_true_r. reflexivity.
Qed.

Lemma fold_promote_object l : forall d, dkind d = KObject ->
  dkind (fold_left promote_with l d) = KObject.
Proof.
  induction l as [|v t IH]; intros d H; cbn [fold_left]; [exact H|]. apply IH.
  destruct v as [vi|]; [rewrite promote_kind, H; apply join_object_l|rewrite promote_none; exact H].
Qed.

Lemma existsb_none_infos vs : existsb is_none_info (infos vs) = existsb el_none vs.
Proof. induction vs as [|[x|] t IH]; cbn; [reflexivity|exact IH|reflexivity]. Qed.

(* a value whose class is off the column's ladder is rejected WHEREVER it stands in the value *)
Lemma incompatible_rejected vs : forall d x vi,
  dkind d <> KObject -> In x vs -> el_info x = Some vi -> join (dkind d) (base vi) = KObject ->
  fold_required d vs = Err EType.
Proof.
  induction vs as [|v t IH]; intros d x vi Hd Hin Hx Hj; [contradiction|]. cbn [fold_required].
  destruct (kind_eqb (dkind (promote_with d (el_info v))) KObject) eqn:E; [reflexivity|].
  destruct Hin as [->|Hin].
  - rewrite Hx, promote_kind, Hj, kind_eqb_refl in E. discriminate.
  - apply (IH _ x vi); auto.
    + intros H. rewrite H, kind_eqb_refl in E. discriminate.
    + destruct (el_info v) as [vj|].
      * rewrite promote_kind. rewrite (join_comm (dkind d) (base vj)), join_assoc, Hj. apply join_object_r.
      * rewrite promote_none. exact Hj.
Qed.

(* ---- conversions, _promote ------------------------------------------------------------------ *)

Section WithConv.
Variable conv : kind -> elt -> option elt.

Lemma convert_all_length k l : forall r, convert_all conv k l = Some r -> length r = length l.
Proof.
  induction l as [|x t IH]; intros r H; cbn [convert_all] in H; [inversion H; reflexivity|].
  destruct (match x with None => Some None | Some _ => conv k x end); [|discriminate].
  destruct (convert_all conv k t); [|discriminate]. inversion H. cbn. f_equal. apply IH. reflexivity.
Qed.

(* existing elements are converted one by one; None stays None *)
Lemma convert_all_nth k l r : convert_all conv k l = Some r ->
  forall i x, nth_error l i = Some x ->
  exists y, nth_error r i = Some y /\ match x with None => y = None | Some _ => conv k x = Some y end.
Proof.
  revert r. induction l as [|h t IH]; intros r H i x Hx; [destruct i; discriminate|].
  cbn [convert_all] in H.
  destruct (match h with None => Some None | Some _ => conv k h end) as [y|] eqn:E; [|discriminate].
  destruct (convert_all conv k t) as [r'|] eqn:E2; [|discriminate]. inversion H; subst r.
  destruct i as [|i]; cbn [nth_error] in *.
  - inversion Hx; subst. exists y. split; [reflexivity|]. destruct x; [exact E|congruence].
  - eapply IH; eauto.
Qed.

Lemma promote_err t s s' e : promote conv t s = (s', Err e) -> s' = s.
Proof.
  unfold promote, bind, get, fail, ret, put. destruct (s_dt s) as [d|]; [|intros H; inversion H; reflexivity].
  destruct (kind_eqb (dkind d) t); [discriminate|].
  destruct (promotable (dkind d) t); [|intros H; inversion H; reflexivity].
  destruct (convert_all conv t (s_vals s)); [discriminate|intros H; inversion H; reflexivity].
Qed.

Lemma promote_ok t s s' u : promote conv t s = (s', Ok u) ->
  exists d, s_dt s = Some d /\
  ((dkind d = t /\ s' = s) \/
   (dkind d <> t /\ promotable (dkind d) t = true /\ exists l, convert_all conv t (s_vals s) = Some l /\
    s' = mkS l (Some (mkD t (nullable d))) (s_name s) (s_memo s) false)).
Proof.
  unfold promote, bind, get, fail, ret, put. destruct (s_dt s) as [d|]; [|discriminate].
  intros H. exists d. split; [reflexivity|].
  destruct (kind_eqb (dkind d) t) eqn:E.
  - left. apply kind_eqb_eq in E. inversion H. auto.
  - right. split; [intros E2; subst t; rewrite kind_eqb_refl in E; discriminate|].
    destruct (promotable (dkind d) t); [|discriminate]. split; [reflexivity|].
    destruct (convert_all conv t (s_vals s)) as [l|]; [|discriminate]. exists l. inversion H. auto.
Qed.

(* ---- Vector.__setitem__ ---------------------------------------------------------------------- *)

Lemma type_phase_err s ups s' e : type_phase conv s ups s = (s', Err e) -> s' = s.
Proof.
  unfold type_phase. destruct ups as [|u t]; [discriminate|]. destruct (s_dt s) as [d|]; [|discriminate].
  destruct (kind_eqb (dkind d) KObject); [discriminate|]. unfold bind, lift.
  destruct (fold_required d (map snd (u :: t))) as [req|e']; [|intros H; inversion H; reflexivity].
  destruct (kind_eqb (dkind req) (dkind d)); [discriminate|]. apply promote_err.
Qed.

(* ATOMICITY: whatever fails — alias check, key validation, index out of range at any position,
   length mismatch, the value iterable raising after any number of items, len() raising, an
   incompatible value at any position, a conversion failing while promoting — the state returned
   at the failure point is the initial state. *)
Theorem setitem_atomic k v s s' e : setitem conv k v s = (s', Err e) -> s' = s.
Proof.
  unfold setitem. unfold bind at 1. unfold get at 1.
  destruct (s_shared s && negb (is_nil (s_vals s))); [intros H; inversion H; reflexivity|].
  unfold bind at 1. unfold lift.
  destruct (build_updates (length (s_vals s)) k v) as [ups|e']; [|intros H; inversion H; reflexivity].
  unfold bind at 1. destruct (type_phase conv s ups s) as [s1 [u|e1]] eqn:E.
  - unfold commit, bind, get, put. discriminate.
  - intros H. inversion H; subst. eapply type_phase_err; eauto.
Qed.

(* what a successful assignment did *)
Theorem setitem_ok k v s s' u : setitem conv k v s = (s', Ok u) ->
  exists ups base,
    build_updates (length (s_vals s)) k v = Ok ups /\
    (* existing elements: untouched, or converted to the promoted kind *)
    (base = s_vals s \/ exists t, convert_all conv t (s_vals s) = Some base) /\
    (* the contents Python list assignment produces *)
    s_vals s' = py_assign base ups /\
    length (s_vals s') = length (s_vals s) /\ s_name s' = s_name s /\
    s_memo s' = None /\ s_shared s' = false.
Proof.
  unfold setitem. unfold bind at 1. unfold get at 1.
  destruct (s_shared s && negb (is_nil (s_vals s))); [discriminate|].
  unfold bind at 1. unfold lift.
  destruct (build_updates (length (s_vals s)) k v) as [ups|e']; [|discriminate].
  unfold bind at 1. destruct (type_phase conv s ups s) as [s1 [u1|e1]] eqn:E; [|discriminate].
  unfold commit, bind, get, put. intros H. inversion H; subst s'. clear H. cbn [s_vals s_name s_memo s_shared].
  assert (Hs1 : (s_vals s1 = s_vals s \/ exists t, convert_all conv t (s_vals s) = Some (s_vals s1)) /\
                s_name s1 = s_name s /\ length (s_vals s1) = length (s_vals s)).
  { unfold type_phase in E. destruct ups as [|u0 t].
    - inversion E; subst. auto.
    - destruct (s_dt s) as [d|]; [|inversion E; subst; auto].
      destruct (kind_eqb (dkind d) KObject); [inversion E; subst; auto|].
      unfold bind, lift in E. destruct (fold_required d (map snd (u0 :: t))) as [req|]; [|discriminate].
      destruct (kind_eqb (dkind req) (dkind d)); [inversion E; subst; auto|].
      apply promote_ok in E. destruct E as [d' [_ [[_ ->]|[_ [_ [l [Hl ->]]]]]]]; [auto|].
      cbn [s_vals s_name]. split; [right; eauto|]. split; [reflexivity|]. eapply convert_all_length; eauto. }
  destruct Hs1 as [Hb [Hn Hl]]. exists ups, (s_vals s1).
  repeat split; auto. rewrite py_assign_length. exact Hl.
Qed.

(* the dtype afterwards is the fold of promote_with over the written values (C04's lattice):
   a wider compatible kind promotes, None makes the column nullable, nothing ever narrows *)
Theorem setitem_dtype k v s s' u d ups : setitem conv k v s = (s', Ok u) ->
  s_dt s = Some d -> build_updates (length (s_vals s)) k v = Ok ups ->
  s_dt s' = Some (fold_left promote_with (infos (map snd ups)) d).
Proof.
  unfold setitem. unfold bind at 1. unfold get at 1.
  destruct (s_shared s && negb (is_nil (s_vals s))); [discriminate|].
  unfold bind at 1. unfold lift. intros H Hd Hu. rewrite Hu in H.
  unfold bind at 1 in H. destruct (type_phase conv s ups s) as [s1 [u1|e1]] eqn:E; [|discriminate].
  unfold commit, bind, get, put in H. inversion H; subst s'. clear H. cbn [s_dt].
  unfold make_nullable. rewrite Hd.
  set (F := fold_left promote_with (infos (map snd ups)) d).
  assert (HFn : nullable F = nullable d || existsb el_none (map snd ups)).
  { unfold F. rewrite fold_promote_nullable, existsb_none_infos. reflexivity. }
  (* the dtype after the type phase has the fold's kind and the old nullability *)
  assert (Hs1 : s_dt s1 = Some (mkD (dkind F) (nullable d))).
  { unfold type_phase in E. rewrite Hd in E. destruct ups as [|u0 t].
    - inversion E; subst. rewrite Hd. unfold F. cbn. destruct d; reflexivity.
    - destruct (kind_eqb (dkind d) KObject) eqn:Eo.
      + inversion E; subst. rewrite Hd. apply kind_eqb_eq in Eo. unfold F.
        rewrite fold_promote_object by exact Eo. rewrite <- Eo. destruct d; reflexivity.
      + unfold bind, lift in E. destruct (fold_required d (map snd (u0 :: t))) as [req|] eqn:Er; [|discriminate].
        apply fold_required_ok in Er. fold F in Er. subst req.
        destruct (kind_eqb (dkind F) (dkind d)) eqn:Ek.
        * inversion E; subst. rewrite Hd. apply kind_eqb_eq in Ek. rewrite Ek. destruct d; reflexivity.
        * apply promote_ok in E. destruct E as [d' [Hd' [[Hk ->]|[_ [_ [l [_ ->]]]]]]].
          -- rewrite Hd in Hd'. inversion Hd'; subst d'. rewrite Hk, kind_eqb_refl in Ek. discriminate.
          -- rewrite Hd in Hd'. inversion Hd'; subst d'. reflexivity. }
  rewrite Hs1. f_equal. destruct F as [fk fn] eqn:EF. cbn [dkind nullable] in *. subst fn.
  destruct (nullable d); cbn [negb andb orb option_map dkind]; [reflexivity|].
  destruct (existsb el_none (map snd ups)); reflexivity.
Qed.

(* an incompatible value — at any position of the value — is rejected with SerifTypeError
   (when nothing before the type check already failed) *)
Theorem setitem_reject k v s d ups x vi :
  s_shared s && negb (is_nil (s_vals s)) = false ->
  build_updates (length (s_vals s)) k v = Ok ups ->
  s_dt s = Some d -> dkind d <> KObject ->
  In x (map snd ups) -> el_info x = Some vi -> join (dkind d) (base vi) = KObject ->
  setitem conv k v s = (s, Err EType).
Proof.
  intros Hsh Hu Hd Hk Hin Hx Hj. unfold setitem. unfold bind at 1. unfold get at 1. rewrite Hsh.
  unfold bind at 1. unfold lift. rewrite Hu. unfold bind at 1.
  unfold type_phase. rewrite Hd. destruct ups as [|u0 t]; [contradiction|].
  destruct (kind_eqb (dkind d) KObject) eqn:E; [apply kind_eqb_eq in E; contradiction|].
  unfold bind, lift. rewrite (incompatible_rejected _ d x vi Hk Hin Hx Hj). reflexivity.
Qed.

(* ---- the update list addresses valid positions only ------------------------------------------ *)

Lemma zip_vals_fst ps items raises : forall r, zip_vals ps items raises = Ok r ->
  forall p, In p (map fst r) -> In p ps.
Proof.
  revert items. induction ps as [|p0 ps IH]; intros items r H p Hp; cbn [zip_vals] in H.
  - inversion H; subst. contradiction.
  - destruct items as [|x items'].
    + destruct raises; [discriminate|]. inversion H; subst. contradiction.
    + destruct (zip_vals ps items' raises) eqn:E; [|discriminate]. inversion H; subst.
      destruct Hp as [<-|Hp]; [left; reflexivity|right; eapply IH; eauto].
Qed.

Lemma zip_idx_valid n idx : forall items raises r, zip_idx n idx items raises = Ok r ->
  forall p, In p (map fst r) -> p < n.
Proof.
  induction idx as [|i idx IH]; intros items raises r H p Hp; cbn [zip_idx] in H.
  - inversion H; subst. contradiction.
  - destruct items as [|x items'].
    + destruct raises; [discriminate|]. inversion H; subst. contradiction.
    + destruct (norm_index n i) as [q|] eqn:En; [|discriminate].
      destruct (zip_idx n idx items' raises) eqn:E; [|discriminate]. inversion H; subst.
      destruct Hp as [<-|Hp]; [eapply norm_index_valid; eauto|eapply IH; eauto].
Qed.

Lemma true_positions_lt m p : In p (true_positions m) -> p < length m.
Proof. unfold true_positions. intros H. apply filter_In in H. destruct H as [H _]. apply in_seq in H. lia. Qed.

Lemma with_mask_valid n m v r : with_mask n m v = Ok r -> forall p, In p (map fst r) -> p < n.
Proof.
  unfold with_mask. destruct (Nat.eqb (length m) n) eqn:E; cbn [negb]; [|discriminate].
  apply Nat.eqb_eq in E. subst n. destruct v as [x|self len items raises].
  - intros H p Hp. inversion H; subst. rewrite map_map in Hp. cbn [fst] in Hp. rewrite map_id in Hp.
    apply true_positions_lt. exact Hp.
  - destruct len as [L|]; cbn [val_len rbind]; [|discriminate].
    destruct (negb (Nat.eqb (length (true_positions m)) L)); [discriminate|].
    intros H p Hp. apply true_positions_lt. eapply zip_vals_fst; eauto.
Qed.

Lemma with_idx_valid n idx v r : with_idx n idx v = Ok r -> forall p, In p (map fst r) -> p < n.
Proof.
  unfold with_idx. destruct v as [x|self len items raises].
  - destruct (norm_all n idx) as [ps|] eqn:E; [|discriminate]. intros H p Hp. inversion H; subst.
    rewrite map_map in Hp. cbn [fst] in Hp. rewrite map_id in Hp. apply norm_all_valid in E. apply E. exact Hp.
  - destruct len as [L|]; cbn [val_len rbind]; [|discriminate].
    destruct (negb (Nat.eqb (length idx) L)); [discriminate|]. apply zip_idx_valid.
Qed.

Lemma combine_repeat_fst {A} (x : A) (p : nat) c l : In p (map fst (combine l (repeat x c))) -> In p l.
Proof.
  revert c. induction l as [|q l IH]; intros [|c]; cbn; try tauto.
  intros [H|H]; [left; exact H|right; eapply IH; eauto].
Qed.

Theorem build_updates_valid n k v ups : build_updates n k v = Ok ups ->
  forall p, In p (map fst ups) -> p < n.
Proof.
  destruct k as [m|is_tuple l|a b s|i|l| |]; cbn [build_updates].
  - apply with_mask_valid.
  - destruct (negb is_tuple && forallb is_LB l); [apply with_mask_valid|].
    destruct (forallb is_intlike l); [apply with_idx_valid|discriminate].
  - destruct (Z.eqb (step_of s) 0) eqn:E; [discriminate|]. apply Z.eqb_neq in E.
    destruct v as [x|self len items raises].
    + intros H p Hp. inversion H; subst. eapply slice_positions_valid; [exact E|].
      eapply combine_repeat_fst; eauto.
    + destruct len as [L|]; cbn [val_len rbind]; [|discriminate].
      destruct (negb (Z.eqb (slice_length a b s (Z.of_nat n)) (Z.of_nat L))); [discriminate|].
      intros H p Hp. eapply slice_positions_valid; [exact E|]. eapply zip_vals_fst; eauto.
  - destruct (norm_index n i) as [q|] eqn:E; [|discriminate]. intros H p Hp. inversion H; subst.
    cbn in Hp. destruct Hp as [<-|[]]. eapply norm_index_valid; eauto.
  - apply with_idx_valid.
  - discriminate.
  - discriminate.
Qed.

(* v[i] = x  writes exactly position i (negative i from the end) and nothing else *)
Theorem setitem_int_spec i x s s' u : setitem conv (SKInt i) (VScalar x) s = (s', Ok u) ->
  exists p, norm_index (length (s_vals s)) i = Some p /\
            nth_error (s_vals s') p = Some x /\ length (s_vals s') = length (s_vals s).
Proof.
  intros H. destruct (setitem_ok _ _ _ _ _ H) as [ups [base [Hu [Hb [Hv [Hl _]]]]]].
  cbn [build_updates] in Hu. destruct (norm_index (length (s_vals s)) i) as [p|] eqn:E; [|discriminate].
  inversion Hu; subst ups. exists p. split; [reflexivity|]. split; [|exact Hl].
  rewrite Hv. unfold py_assign. cbn [fold_left fst snd]. apply nth_error_set_nth_eq.
  apply norm_index_valid in E.
  destruct Hb as [->|[t Ht]]; [exact E|]. apply convert_all_length in Ht. lia.
Qed.

(* ---- Table.__setitem__ delegates per column --------------------------------------------------- *)

Lemma set_col_spec j k v cols cols' r : set_col conv j k v cols = (cols', r) ->
  length cols' = length cols /\
  (forall i, i <> j -> nth_error cols' i = nth_error cols i) /\
  match nth_error cols j with
  | None => cols' = cols /\ r = Err EOther
  | Some c => exists c', setitem conv k v c = (c', r) /\ nth_error cols' j = Some c' /\
                         (forall e, r = Err e -> cols' = cols)
  end.
Proof.
  unfold set_col. destruct (nth_error cols j) as [c|] eqn:E.
  - destruct (setitem conv k v c) as [c' r'] eqn:Es. intros H. inversion H; subst. clear H.
    split; [apply set_nth_length|]. split; [intros i Hi; apply nth_error_set_nth_neq; congruence|].
    exists c'. split; [reflexivity|]. split.
    + apply nth_error_set_nth_eq. apply nth_error_Some. congruence.
    + intros e ->. apply setitem_atomic in Es. subst c'. apply set_nth_same. exact E.
  - intros H. inversion H; subst. auto.
Qed.

(* Every column afterwards is either exactly as it was, or the result of ONE successful vector
   assignment with this row key and the value meant for that column — whether the table assignment
   as a whole succeeded or failed part-way (targets distinct).  Columns not addressed are untouched. *)
Theorem set_cols_spec k work : NoDup (map fst work) -> forall cols cols' r,
  set_cols conv k work cols = (cols', r) ->
  length cols' = length cols /\
  (forall i, ~ In i (map fst work) -> nth_error cols' i = nth_error cols i) /\
  (forall i c c', nth_error cols i = Some c -> nth_error cols' i = Some c' ->
     c' = c \/ exists v u, In (i, v) work /\ setitem conv k v c = (c', Ok u)) /\
  (* on success every addressed column was assigned *)
  (forall u, r = Ok u -> forall i v, In (i, v) work ->
     exists c c' u', nth_error cols i = Some c /\ setitem conv k v c = (c', Ok u') /\ nth_error cols' i = Some c').
Proof.
  induction work as [|[j v] rest IH]; intros Hnd cols cols' r H; cbn [set_cols] in H.
  - inversion H; subst. split; [reflexivity|]. split; [reflexivity|]. split.
    + intros i c c' Hc Hc'. left. congruence.
    + intros u Hu i v [].
  - cbn [map fst] in Hnd. inversion Hnd as [|? ? Hj Hnd']; subst.
    unfold bind in H. destruct (set_col conv j k v cols) as [cols1 [u1|e1]] eqn:E1.
    + destruct (set_col_spec _ _ _ _ _ _ E1) as [HL1 [HO1 HJ1]].
      destruct (IH Hnd' _ _ _ H) as [HL [HU [HC HS]]].
      split; [congruence|]. split; [|split].
      * intros i Hi. cbn [map fst In] in Hi. rewrite HU by tauto. apply HO1. intros ->. tauto.
      * intros i c c' Hc Hc'. destruct (Nat.eq_dec i j) as [->|Hne].
        -- rewrite Hc in HJ1. destruct HJ1 as [c1 [Hs1 [Hn1 _]]].
           rewrite (HU j Hj) in Hc'. rewrite Hn1 in Hc'. inversion Hc'; subst c1.
           right. exists v, u1. split; [left; reflexivity|exact Hs1].
        -- rewrite <- (HO1 i Hne) in Hc. destruct (HC i c c' Hc Hc') as [->|[v' [u' [Hin Hs]]]]; [left; reflexivity|].
           right. exists v', u'. split; [right; exact Hin|exact Hs].
      * intros u Hr i v' [Heq|Hin].
        -- inversion Heq; subst i v'. destruct (nth_error cols j) as [c|] eqn:Ec.
           ++ destruct HJ1 as [c1 [Hs1 [Hn1 _]]]. exists c, c1, u1. split; [reflexivity|]. split; [exact Hs1|].
              rewrite (HU j Hj). exact Hn1.
           ++ destruct HJ1 as [_ HJ1]. discriminate.
        -- destruct (HS u Hr i v' Hin) as [c [c' [u' [Hc [Hs Hc']]]]].
           assert (i <> j) by (intros ->; apply Hj; apply in_map_iff; exists (j, v'); auto).
           exists c, c', u'. rewrite <- (HO1 i H0). auto.
    + inversion H; subst cols' r. clear H.
      destruct (set_col_spec _ _ _ _ _ _ E1) as [HL1 [HO1 HJ1]].
      assert (cols1 = cols).
      { destruct (nth_error cols j); [destruct HJ1 as [c1 [_ [_ HJ1]]]; eapply HJ1; eauto|apply HJ1]. }
      subst cols1. repeat split; auto.
      * intros i c c' Hc Hc'. left. congruence.
      * intros u Hr. discriminate.
Qed.

End WithConv.

(* ---- rename_columns --------------------------------------------------------------------------- *)

Lemma rename_first_apply names old new r : rename_first names old new = Some r ->
  apply_one names old new = r.
Proof.
  revert r. induction names as [|x t IH]; intros r H; cbn [rename_first apply_one] in *; [discriminate|].
  destruct (name_eqb x old); [inversion H; reflexivity|].
  destruct (rename_first t old new) eqn:E; [|discriminate]. inversion H. f_equal. apply IH. reflexivity.
Qed.

(* the simulation and the real pass agree: a successful simulation cannot be followed by a
   different (e.g. partial) application *)
Theorem rename_sim_eq_apply pairs : forall names r,
  simulate names pairs = Ok r -> apply_all names pairs = r.
Proof.
  unfold apply_all. induction pairs as [|[old new] rest IH]; intros names r H; cbn [simulate fold_left fst snd] in *.
  - inversion H. reflexivity.
  - destruct (rename_first names old new) as [names'|] eqn:E; [|discriminate].
    rewrite (rename_first_apply _ _ _ _ E). apply IH. exact H.
Qed.

Lemma rename_first_length names old new r : rename_first names old new = Some r -> length r = length names.
Proof.
  revert r. induction names as [|x t IH]; intros r H; cbn [rename_first] in *; [discriminate|].
  destruct (name_eqb x old); [inversion H; reflexivity|].
  destruct (rename_first t old new) eqn:E; [|discriminate]. inversion H. cbn. f_equal. apply IH. reflexivity.
Qed.

(* a failed rename_columns (a name that matches no column at ANY position of the list, or lists of
   unequal length) leaves every column name as it was *)
Theorem rename_atomic olds news names names' e :
  rename_columns olds news names = (names', Err e) -> names' = names.
Proof.
  unfold rename_columns. destruct (negb (Nat.eqb (length olds) (length news))).
  - intros H. inversion H. reflexivity.
  - unfold bind, get, lift, put. destruct (simulate names (combine olds news)); [discriminate|].
    intros H. inversion H. reflexivity.
Qed.

Theorem rename_ok olds news names names' u :
  rename_columns olds news names = (names', Ok u) ->
  length olds = length news /\ simulate names (combine olds news) = Ok names'.
Proof.
  unfold rename_columns. destruct (Nat.eqb (length olds) (length news)) eqn:E; cbn [negb]; [|discriminate].
  apply Nat.eqb_eq in E. unfold bind, get, lift, put.
  destruct (simulate names (combine olds news)) as [r|] eqn:Es; [|discriminate].
  intros H. inversion H. split; [exact E|]. f_equal. symmetry. apply rename_sim_eq_apply. exact Es.
Qed.

Theorem rename_missing_fails names pairs1 old new pairs2 r :
  simulate names pairs1 = Ok r -> rename_first r old new = None ->
  simulate names (pairs1 ++ (old, new) :: pairs2) = Err EKey.
Proof.
  revert names. induction pairs1 as [|[o n] rest IH]; intros names H Hm; cbn [simulate app] in *.
  - inversion H; subst. rewrite Hm. reflexivity.
  - destruct (rename_first names o n); [|discriminate]. apply IH; assumption.
Qed.

(* ---- Table.__setitem__ = resolve the target columns, then per-column vector assignments -------- *)

Lemma map_fst_combine {X Y} (a : list X) : forall b : list Y, length b = length a -> map fst (combine a b) = a.
Proof.
  induction a as [|x a IH]; intros [|y b] H; cbn in *; try discriminate; [reflexivity|].
  f_equal. apply IH. lia.
Qed.

Section Table.
Variable conv : kind -> elt -> option elt.
Variable cmap : list (option nat) -> nat -> option nat.

(* cell, row, column and region assignment: either nothing is written at all (no target column,
   a name that does not resolve, a value of the wrong shape), or the assignment IS the sequence of
   per-column vector assignments [set_cols] on the resolved target columns, with the same row key *)
Theorem tsetitem_delegates row_int k c v cols cols' r :
  tsetitem conv cmap row_int k c v cols = (cols', r) ->
  cols' = cols \/
  exists targets work,
    resolve_cols cmap (map s_name cols) c = Ok targets /\ map fst work = targets /\
    set_cols conv k work cols = (cols', r).
Proof.
  unfold tsetitem. unfold bind at 1. unfold get at 1. unfold bind at 1. unfold lift.
  destruct (resolve_cols cmap (map s_name cols) c) as [targets|e] eqn:Er; [|intros H; inversion H; auto].
  destruct (is_nil targets); [intros H; inversion H; auto|].
  destruct v as [x|flen self xs|is_table cs].
  - intros H. right. exists targets, (map (fun j => (j, VScalar x)) targets).
    split; [reflexivity|]. split; [rewrite map_map; cbn [fst]; apply map_id|exact H].
  - destruct row_int.
    + destruct (Nat.eqb (length xs) (length targets)) eqn:E; cbn [negb]; [|intros H; inversion H; auto].
      apply Nat.eqb_eq in E. intros H. right. exists targets, (combine targets (map VScalar xs)).
      split; [reflexivity|]. split; [apply map_fst_combine; rewrite map_length; exact E|exact H].
    + destruct (Nat.eqb (length targets) 1).
      * intros H. right. exists targets, (map (fun j => (j, VSeq self flen xs false)) targets).
        split; [reflexivity|]. split; [rewrite map_map; cbn [fst]; apply map_id|exact H].
      * destruct (Nat.eqb (length xs) (length targets)) eqn:E; cbn [negb]; [|intros H; inversion H; auto].
        apply Nat.eqb_eq in E. intros H. right. exists targets, (combine targets (map VScalar xs)).
        split; [reflexivity|]. split; [apply map_fst_combine; rewrite map_length; exact E|exact H].
  - destruct row_int; [intros H; inversion H; auto|].
    destruct (Nat.eqb (length cs) (length targets)) eqn:E; cbn [negb]; [|intros H; inversion H; auto].
    apply Nat.eqb_eq in E. intros H. right. exists targets, (combine targets cs).
    split; [reflexivity|]. split; [apply map_fst_combine; exact E|exact H].
Qed.

End Table.
