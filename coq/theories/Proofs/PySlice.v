(* Proofs/PySlice.v — facts about the specification of Python slicing itself:
   which integers range() yields, how many, and that an adjusted slice only ever
   addresses valid positions. *)
From Coq Require Import List Bool Arith ZArith Lia.
From Serif Require Import Base.StErr Spec.PySlice.
Import ListNotations.
Local Open Scope Z_scope.

(* ---- range with a positive step ------------------------------------------------ *)

Lemma range_from_bounds_pos step : 0 < step -> forall f x0 stop x,
  In x (range_from f x0 stop step) -> x0 <= x < stop.
Proof.
  intros Hs. induction f as [|f IH]; intros x0 stop x Hin; cbn [range_from] in Hin; [contradiction|].
  destruct (0 <? step) eqn:E; [|apply Z.ltb_ge in E; lia].
  destruct (x0 <? stop) eqn:E2; [|contradiction].
  apply Z.ltb_lt in E2. destruct Hin as [<-|Hin]; [lia|].
  apply IH in Hin. lia.
Qed.

Lemma range_from_length_pos step : 0 < step -> forall f x0 stop,
  stop - x0 <= Z.of_nat f ->
  Z.of_nat (length (range_from f x0 stop step)) = Z.max 0 ((stop - x0 + (step - 1)) / step).
Proof.
  intros Hs.
  assert (Hle : forall x0 stop, stop <= x0 -> Z.max 0 ((stop - x0 + (step - 1)) / step) = 0).
  { intros x0 stop H. apply Z.max_l.
    assert ((stop - x0 + (step - 1)) / step < 1) by (apply Z.div_lt_upper_bound; lia). lia. }
  induction f as [|f IH]; intros x0 stop Hf; cbn [range_from length].
  - rewrite Hle by lia. reflexivity.
  - destruct (0 <? step) eqn:E; [|apply Z.ltb_ge in E; lia].
    destruct (x0 <? stop) eqn:E2.
    + apply Z.ltb_lt in E2. cbn [length]. rewrite Nat2Z.inj_succ, IH by lia.
      replace (stop - (x0 + step) + (step - 1)) with (stop - x0 - 1) by ring.
      replace (stop - x0 + (step - 1)) with ((stop - x0 - 1) + 1 * step) by ring.
      rewrite Z.div_add by lia.
      assert (0 <= (stop - x0 - 1) / step) by (apply Z.div_pos; lia). lia.
    + apply Z.ltb_ge in E2. cbn [length]. rewrite Hle by lia. reflexivity.
Qed.

(* ---- a negative step is the mirror image ---------------------------------------- *)

Lemma range_from_mirror step : step < 0 -> forall f x0 stop,
  range_from f x0 stop step = map Z.opp (range_from f (- x0) (- stop) (- step)).
Proof.
  intros Hs. induction f as [|f IH]; intros x0 stop; cbn [range_from map]; [reflexivity|].
  destruct (0 <? step) eqn:E; [apply Z.ltb_lt in E; lia|].
  destruct (0 <? - step) eqn:E1; [|apply Z.ltb_ge in E1; lia].
  destruct (stop <? x0) eqn:E2.
  - apply Z.ltb_lt in E2. destruct (- x0 <? - stop) eqn:E3; [|apply Z.ltb_ge in E3; lia].
    cbn [map]. rewrite Z.opp_involutive. f_equal.
    rewrite IH. replace (- (x0 + step)) with (- x0 + - step) by ring. reflexivity.
  - apply Z.ltb_ge in E2. destruct (- x0 <? - stop) eqn:E3; [apply Z.ltb_lt in E3; lia|]. reflexivity.
Qed.

Lemma range_from_bounds_neg step : step < 0 -> forall f x0 stop x,
  In x (range_from f x0 stop step) -> stop < x <= x0.
Proof.
  intros Hs f x0 stop x Hin. rewrite range_from_mirror in Hin by exact Hs.
  apply in_map_iff in Hin. destruct Hin as [y [<- Hy]].
  apply range_from_bounds_pos in Hy; lia.
Qed.

Lemma range_from_length_neg step : step < 0 -> forall f x0 stop,
  x0 - stop <= Z.of_nat f ->
  Z.of_nat (length (range_from f x0 stop step)) = Z.max 0 ((stop - x0 + (step + 1)) / step).
Proof.
  intros Hs f x0 stop Hf. rewrite range_from_mirror by exact Hs. rewrite map_length.
  rewrite range_from_length_pos by lia.
  replace (- stop - - x0 + (- step - 1)) with (- (stop - x0 + (step + 1))) by ring.
  rewrite Z.div_opp_opp by lia. reflexivity.
Qed.

(* ---- slice.indices stays inside the sequence -------------------------------------- *)

Lemma adjust_bounds a b s n : 0 <= n ->
  forall start stop step, adjust a b s n = (start, stop, step) ->
  step = step_of s /\
  (0 < step -> 0 <= start <= n /\ 0 <= stop <= n) /\
  (step < 0 -> -1 <= start <= n - 1 /\ -1 <= stop <= n - 1).
Proof.
  intros Hn start stop step H. unfold adjust, clamp in H.
  inversion H as [[H1 H2 H3]]. clear H. subst start stop step. split; [reflexivity|].
  destruct (Z.ltb_spec (step_of s) 0);
  destruct a as [a|], b as [b|];
    repeat match goal with |- context [?x <? ?y] => destruct (Z.ltb_spec x y) end; lia.
Qed.

Lemma py_range_bounds a b s n x : 0 <= n -> step_of s <> 0 ->
  In x (py_range (adjust a b s n)) -> 0 <= x < n.
Proof.
  intros Hn Hs Hin. destruct (adjust a b s n) as [[start stop] step] eqn:E.
  destruct (adjust_bounds _ _ _ _ Hn _ _ _ E) as [-> [Hp Hm]].
  unfold py_range in Hin.
  destruct (Z.lt_trichotomy (step_of s) 0) as [Hlt|[Heq|Hgt]]; [|contradiction|].
  - apply range_from_bounds_neg in Hin; [|exact Hlt]. specialize (Hm Hlt). lia.
  - apply range_from_bounds_pos in Hin; [|lia]. specialize (Hp Hgt). lia.
Qed.

Lemma slice_positions_valid a b s n p : step_of s <> 0 ->
  In p (slice_positions a b s n) -> (p < n)%nat.
Proof.
  intros Hs Hin. unfold slice_positions in Hin. apply in_map_iff in Hin.
  destruct Hin as [x [<- Hx]]. apply py_range_bounds in Hx; [|lia|exact Hs]. lia.
Qed.

(* number of elements of l[a:b:s], in closed form *)
Lemma py_range_length a b s n : 0 <= n -> step_of s <> 0 ->
  forall start stop step, adjust a b s n = (start, stop, step) ->
  Z.of_nat (length (py_range (start, stop, step))) =
  Z.max 0 ((stop - start + (step - (if 0 <? step then 1 else -1))) / step).
Proof.
  intros Hn Hs start stop step E.
  destruct (adjust_bounds _ _ _ _ Hn _ _ _ E) as [-> _].
  unfold py_range.
  destruct (0 <? step_of s) eqn:E0.
  - apply Z.ltb_lt in E0. apply range_from_length_pos; lia.
  - apply Z.ltb_ge in E0. rewrite range_from_length_neg by lia.
    replace (step_of s - -1) with (step_of s + 1) by ring. reflexivity.
Qed.

(* ---- gather --------------------------------------------------------------------------- *)

Lemma gather_length {A} (l : list A) idx : forall r, gather l idx = Some r -> length r = length idx.
Proof.
  induction idx as [|i t IH]; intros r H; cbn [gather] in H.
  - inversion H. reflexivity.
  - destruct (nth_error l i); [|discriminate]. destruct (gather l t) eqn:E; [|discriminate].
    inversion H. cbn [length]. f_equal. apply IH. reflexivity.
Qed.

Lemma gather_total {A} (l : list A) idx :
  (forall p, In p idx -> (p < length l)%nat) -> exists r, gather l idx = Some r.
Proof.
  induction idx as [|i t IH]; intros H; cbn [gather]; [eexists; reflexivity|].
  destruct (nth_error l i) eqn:E.
  - destruct IH as [r Hr]; [intros p Hp; apply H; right; exact Hp|]. rewrite Hr. eexists; reflexivity.
  - apply nth_error_None in E. specialize (H i (or_introl eq_refl)). lia.
Qed.

Lemma gather_nth {A} (l : list A) idx r : gather l idx = Some r ->
  forall j p, nth_error idx j = Some p -> nth_error r j = nth_error l p /\ (p < length l)%nat.
Proof.
  revert r. induction idx as [|i t IH]; intros r H j p Hj; cbn [gather] in H.
  - destruct j; discriminate.
  - destruct (nth_error l i) eqn:E; [|discriminate]. destruct (gather l t) eqn:E2; [|discriminate].
    inversion H; subst r. destruct j as [|j]; cbn [nth_error] in *.
    + inversion Hj; subst. split; [symmetry; exact E|]. apply nth_error_Some. congruence.
    + eapply IH; [reflexivity|exact Hj].
Qed.

Lemma py_slice_total {A} (l : list A) a b s : step_of s <> 0 ->
  exists r, py_slice l a b s = Some r.
Proof.
  intros Hs. apply gather_total. intros p Hp. eapply slice_positions_valid; eauto.
Qed.

(* ---- int indices ---------------------------------------------------------------------- *)

Lemma norm_index_valid n i p : norm_index n i = Some p -> (p < n)%nat.
Proof.
  unfold norm_index. intros H.
  destruct (i <? 0) eqn:E;
    match type of H with (if ?c then _ else _) = _ => destruct c eqn:E2 end; try discriminate;
    apply orb_false_iff in E2; destruct E2 as [E3 E4];
    apply Z.ltb_ge in E3; apply Z.leb_gt in E4; inversion H; lia.
Qed.

Lemma norm_all_valid n idx : forall ps, norm_all n idx = Some ps ->
  length ps = length idx /\ forall p, In p ps -> (p < n)%nat.
Proof.
  induction idx as [|i t IH]; intros ps H; cbn [norm_all] in H.
  - inversion H. split; [reflexivity|intros p []].
  - destruct (norm_index n i) eqn:E; [|discriminate]. destruct (norm_all n t) eqn:E2; [|discriminate].
    inversion H; subst ps. destruct (IH _ eq_refl) as [HL HP]. split; [cbn; f_equal; exact HL|].
    intros p [<-|Hp]; [eapply norm_index_valid; eauto|apply HP; exact Hp].
Qed.
