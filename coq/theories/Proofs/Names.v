(* Proofs/Names.v — lemmas about Model/Names.v (property C18). *)
From Coq Require Import List Bool Arith Ascii String Lia FinFun.
From Serif Require Import Model.Naming Model.Names Spec.Names Proofs.Naming.
Import ListNotations.

Lemma ostr_eqb_eq a b : ostr_eqb a b = true <-> a = b.
Proof.
  destruct a as [x|], b as [y|]; simpl; split; intros H; try discriminate; try reflexivity.
  - apply str_eqb_eq in H. congruence.
  - inversion H. apply str_eqb_refl.
Qed.

(* ---- vectors ---- *)
Lemma binop_unnamed a b : v_binop a b = None /\ v_binop_scalar a = None.
Proof. split; reflexivity. Qed.
Lemma compare_unnamed a b : v_compare a b = None /\ v_compare_scalar a = None.
Proof. split; reflexivity. Qed.
Lemma keep_name k a : v_keep k a = a.
Proof. reflexivity. Qed.

(* ---- tables ---- *)
Lemma map_snd_combine_map {A B} (f : A -> B) (l : list A) : map snd (combine (map f l) l) = l.
Proof. induction l as [|a l IH]; simpl; [reflexivity|]. rewrite IH. reflexivity. Qed.
Lemma map_fst_combine_map {A B} (f : A -> B) (l : list A) : map fst (combine l (map f l)) = l.
Proof. induction l as [|a l IH]; simpl; [reflexivity|]. rewrite IH. reflexivity. Qed.

Lemma t_of_id vs : t_of vs = vs.
Proof. unfold t_of. apply map_snd_combine_map. Qed.

Lemma t_scalar_id ns : t_scalar ns = ns.
Proof. unfold t_scalar. rewrite t_of_id. apply map_fst_combine_map. Qed.

Lemma t_rscalar_routed ns : t_rscalar true ns = ns.
Proof. apply t_scalar_id. Qed.
Lemma t_rscalar_pinned ns : t_rscalar false ns = map (fun _ => None) ns.
Proof. unfold t_rscalar. rewrite t_of_id. reflexivity. Qed.

Lemma t_rscalar_spec routed ns :
  t_rscalar routed ns = if routed then ns else map (fun _ => None) ns.
Proof. destruct routed; [apply t_rscalar_routed|apply t_rscalar_pinned]. Qed.

Lemma resolve_binary_spec l r : resolve_binary l r = keep_left_iff l r.
Proof. unfold resolve_binary, keep_left_iff. destruct r; [|reflexivity]. destruct (vname_eqb _ _); [reflexivity|]. destruct l; reflexivity. Qed.

Lemma resolve_binary_keep l r : r = None \/ r = l -> resolve_binary l r = l.
Proof.
  intros [H|H]; subst; [reflexivity|]. unfold resolve_binary. destruct l; [|reflexivity].
  unfold vname_eqb. rewrite (proj2 (ostr_eqb_eq _ _) eq_refl). reflexivity.
Qed.
Lemma resolve_binary_drop l r : r <> None -> r <> l -> resolve_binary l r = None.
Proof.
  intros H1 H2. unfold resolve_binary. destruct r as [x|]; [|contradiction].
  destruct (vname_eqb (Some x) l) eqn:E.
  - apply ostr_eqb_eq in E. contradiction.
  - destruct l; reflexivity.
Qed.

Lemma t_table_spec l r :
  t_table l r = map (fun p => keep_left_iff (fst p) (snd p)) (combine l r).
Proof.
  unfold t_table. rewrite t_of_id. apply map_ext. intros p. apply resolve_binary_spec.
Qed.
Lemma t_table_nth l r i : i < List.length l -> List.length l = List.length r ->
  nth i (t_table l r) None = resolve_binary (nth i l None) (nth i r None).
Proof.
  intros Hi Hlen. unfold t_table. rewrite t_of_id.
  change None with ((fun p => resolve_binary (fst p) (snd p)) (@None str, @None str)) at 1.
  rewrite map_nth, combine_nth by exact Hlen. reflexivity.
Qed.

Lemma t_append_spec l r : t_append l r = l ++ r.
Proof. apply t_of_id. Qed.
Lemma t_keep_id k ns : t_keep k ns = ns.
Proof. unfold t_keep. rewrite t_of_id. unfold v_keep. apply map_id. Qed.
Lemma t_colslice_spec a b ns : t_colslice a b ns = firstn (b - a) (skipn a ns).
Proof. unfold t_colslice. rewrite t_of_id, t_keep_id. reflexivity. Qed.
Lemma t_compare_scalar_spec ns : t_compare_scalar ns = map (fun _ => None) ns.
Proof. unfold t_compare_scalar. rewrite t_of_id. reflexivity. Qed.
Lemma join_names_spec j nm l r :
  join_names j nm l r = match j with JInner => if nm then [] else l ++ r | _ => l ++ r end.
Proof. unfold join_names. destruct j; try destruct nm; rewrite ?t_of_id; reflexivity. Qed.

(* ---- uniquify ---- *)
Lemma uniq_search_spec name used fuel : forall i,
  exists k, i <= k <= i + fuel /\ uniq_search fuel i name used = name ++ dec k /\
            (forall j, i <= j < k -> In (name ++ dec j) used) /\
            (k < i + fuel -> ~ In (name ++ dec k) used).
Proof.
  induction fuel as [|f IH]; intros i; cbn [uniq_search].
  - exists i. split; [lia|]. split; [reflexivity|]. split; intros; lia.
  - destruct (mem (name ++ dec i) used) eqn:E.
    + destruct (IH (S i)) as [k [Hk [Hr [Hall Hfree]]]]. exists k.
      split; [lia|]. split; [exact Hr|]. split.
      * intros j Hj. destruct (Nat.eq_dec j i) as [->|Hne]; [apply mem_In; exact E|apply Hall; lia].
      * intros Hlt. apply Hfree. lia.
    + exists i. split; [lia|]. split; [reflexivity|]. split.
      * intros j Hj. lia.
      * intros _. apply mem_false. exact E.
Qed.

Lemma candidates_NoDup name i n : NoDup (map (fun j => name ++ dec j) (seq i n)).
Proof.
  apply Injective_map_NoDup; [|apply seq_NoDup].
  intros a b H. apply app_inv_head in H. apply dec_inj. exact H.
Qed.

Lemma uniq_search_fresh name used i :
  let r := uniq_search (S (List.length used)) i name used in
  ~ In r used /\ exists k, i <= k /\ r = name ++ dec k /\ (forall j, i <= j < k -> In (name ++ dec j) used).
Proof.
  cbv zeta. destruct (uniq_search_spec name used (S (List.length used)) i) as [k [Hk [Hr [Hall Hfree]]]].
  split.
  - rewrite Hr. destruct (Nat.lt_ge_cases k (i + S (List.length used))) as [Hlt|Hge]; [apply Hfree; exact Hlt|].
    exfalso.
    assert (Hincl : incl (map (fun j => name ++ dec j) (seq i (S (List.length used)))) used).
    { intros x Hx. apply in_map_iff in Hx. destruct Hx as [j [Hj Hin]]. subst x.
      apply in_seq in Hin. apply Hall. lia. }
    pose proof (NoDup_incl_length (candidates_NoDup name i (S (List.length used))) Hincl) as Hlen.
    rewrite map_length, seq_length in Hlen. exact (Nat.nle_succ_diag_l _ Hlen).
  - exists k. repeat split; [lia|exact Hr|exact Hall].
Qed.

Lemma uniquify_spec used name :
  let r := uniquify used name in
  ~ In (fst r) used /\ snd r = fst r :: used /\
  ((~ In name used /\ fst r = name) \/
   (In name used /\ exists k, 2 <= k /\ fst r = name ++ dec k /\ (forall j, 2 <= j < k -> In (name ++ dec j) used))).
Proof.
  cbv zeta. unfold uniquify. destruct (mem name used) eqn:E.
  - destruct (uniq_search_fresh name used 2) as [Hf [k [Hk [Hr Hall]]]]. cbv zeta in Hf, Hr. cbn [fst snd].
    split; [exact Hf|]. split; [reflexivity|]. right. split; [apply mem_In; exact E|].
    exists k. auto.
  - cbn [fst snd]. apply mem_false in E. split; [exact E|]. split; [reflexivity|]. left. auto.
Qed.

Lemma uniquify_all_from names : forall used, uniq_from used names (uniquify_all used names).
Proof.
  induction names as [|n t IH]; intros used; cbn [uniquify_all]; [constructor|].
  destruct (uniquify_spec used n) as [Hf [Hs [[Hn Ho]|[Hi [k [Hk [Ho Hall]]]]]]]; cbv zeta in *;
    rewrite Hs, Ho in *.
  - apply UKeep; [exact Hn|apply IH].
  - apply USuffix; auto.
Qed.

Lemma uniq_from_fresh used bases outs : uniq_from used bases outs ->
  NoDup outs /\ (forall o, In o outs -> ~ In o used) /\ Forall2 suffixed bases outs.
Proof.
  induction 1 as [used|used b bs outs Hn _ IH|used b bs outs k Hi Hk Hf Hall _ IH].
  - repeat split; [constructor|intros o []|constructor].
  - destruct IH as [Hnd [Hfr Hsh]]. repeat split.
    + constructor; [|exact Hnd]. intros HI. apply (Hfr _ HI). left. reflexivity.
    + intros o [Ho|Ho]; [subst o; exact Hn|]. intros Hu. apply (Hfr _ Ho). right. exact Hu.
    + constructor; [left; reflexivity|exact Hsh].
  - destruct IH as [Hnd [Hfr Hsh]]. repeat split.
    + constructor; [|exact Hnd]. intros HI. apply (Hfr _ HI). left. reflexivity.
    + intros o [Ho|Ho]; [subst o; exact Hf|]. intros Hu. apply (Hfr _ Ho). right. exact Hu.
    + constructor; [right; exists k; auto|exact Hsh].
Qed.

Lemma uniquify_all_NoDup names : NoDup (uniquify_all [] names).
Proof. apply (uniq_from_fresh [] names _ (uniquify_all_from names [])). Qed.
Lemma uniquify_all_shape names : Forall2 suffixed names (uniquify_all [] names).
Proof. apply (uniq_from_fresh [] names _ (uniquify_all_from names [])). Qed.

Lemma agg_names_spec reserved keys aggs apply :
  agg_names reserved keys aggs apply = map Some (uniquify_all [] (agg_bases reserved keys aggs apply)).
Proof. unfold agg_names. apply t_of_id. Qed.

(* ---- all compositions ---- *)
Section Eval.
Variable reserved : list str.
Variable routed : bool.

Fixpoint eval_agrees_v (e : vexpr) : eval_v reserved routed e = rule_v reserved routed e
with eval_agrees_t (e : texpr) : eval_t reserved routed e = rule_t reserved routed e.
Proof.
  - destruct e; cbn [eval_v rule_v]; try reflexivity.
    + unfold v_keep. apply eval_agrees_v.
    + rewrite eval_agrees_t. reflexivity.
  - destruct e; cbn [eval_t rule_t].
    + apply t_of_id.
    + rewrite t_of_id.
      refine ((fix aux (l : list vexpr) : map (eval_v reserved routed) l = map (rule_v reserved routed) l :=
                 match l with
                 | [] => eq_refl
                 | a :: t => f_equal2 cons (eval_agrees_v a) (aux t)
                 end) vs).
    + rewrite t_append_spec, !eval_agrees_t. reflexivity.
    + rewrite t_append_spec, eval_agrees_t, eval_agrees_v. reflexivity.
    + rewrite t_append_spec, eval_agrees_t. reflexivity.
    + rewrite t_keep_id. apply eval_agrees_t.
    + rewrite t_colslice_spec, eval_agrees_t. reflexivity.
    + rewrite join_names_spec, !eval_agrees_t. reflexivity.
    + rewrite t_scalar_id. apply eval_agrees_t.
    + rewrite t_rscalar_spec, eval_agrees_t. reflexivity.
    + rewrite t_table_spec, !eval_agrees_t. reflexivity.
    + rewrite t_compare_scalar_spec, eval_agrees_t. reflexivity.
    + rewrite eval_agrees_t. destruct window; unfold window_names; apply agg_names_spec.
Qed.
End Eval.
