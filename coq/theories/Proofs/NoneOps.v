(* Proofs/NoneOps.v — C06: the None-handling model meets Spec/NoneOps. *)
From Coq Require Import List Bool Arith Lia.
From Serif Require Import Base.PyVal Model.Dtype Model.Elementwise Model.NoneOps
                          Spec.Elementwise Spec.NoneOps Proofs.Elementwise.
Import ListNotations.

(* ---- arithmetic: None propagates and never raises ------------------------------------- *)

Section Arith.
  Variable val : Type.
  Variable scal : bop -> val -> val -> sres val.
  Implicit Types (xs l : list (option val)) (other : operand val).

  Lemma binop_none d xs other l i :
    vec_dunder scal d xs other = Ok l -> i < length xs ->
    nth i xs None = None \/ operand_nth other i = None -> nth i l None = None.
  Proof.
    intros H Hi Hn. apply binop_nth in H. destruct H as [_ N]. specialize (N i Hi).
    unfold at_position, lift2 in N. destruct Hn as [Hn|Hn]; rewrite Hn in N.
    - inversion N. reflexivity.
    - destruct (nth i xs None); inversion N; reflexivity.
  Qed.

  (* a None operand is never handed to the scalar operation: the operation is a result as soon
     as Python defines it on the pairs where BOTH sides hold a value *)
  Lemma binop_none_never_raises d xs other :
    operand_fits (length xs) other ->
    (forall i a b, i < length xs -> nth i xs None = Some a -> operand_nth other i = Some b ->
                   exists r, written scal d a b = SOk r) ->
    exists l, vec_dunder scal d xs other = Ok l.
  Proof.
    intros Hfit H. destruct (binop_total val scal d xs other Hfit) as [l [Hl _]].
    - intros i Hi. unfold at_position, lift2.
      destruct (nth i xs None) as [a|] eqn:Ea; [|eexists; reflexivity].
      destruct (operand_nth other i) as [b|] eqn:Eb; [|eexists; reflexivity].
      destruct (H i a b Hi Ea Eb) as [r Hr]. rewrite Hr. eexists; reflexivity.
    - exists l. exact Hl.
  Qed.

  Lemma unop_none (f : val -> sres (option val)) xs l i :
    unary_operation f xs = Ok l -> i < length xs -> nth i xs None = None -> nth i l None = None.
  Proof.
    intros H Hi Hn. apply unop_ok in H. destruct H as [_ N]. specialize (N i Hi).
    rewrite Hn in N. exact N.
  Qed.

  Lemma unop_none_never_raises (f : val -> sres (option val)) xs :
    (forall a, In (Some a) xs -> exists r, f a = SOk r) -> exists l, unary_operation f xs = Ok l.
  Proof.
    intros H. destruct (unop_total val f xs) as [l [Hl _]].
    - intros i a Hi. apply H. apply nth_error_In in Hi. exact Hi.
    - exists l. exact Hl.
  Qed.
End Arith.

(* ---- comparisons ------------------------------------------------------------------------ *)

Section Cmp.
  Variable val : Type.
  Implicit Types (c : val -> val -> sres bool) (xs ys : list (option val)) (l : list bool)
                 (other : operand val) (s : val).

  Lemma cmp_zipped_nth c xs ys i :
    length xs = length ys ->
    nth i (map (fun p => cmp_elem c (fst p) (snd p)) (combine xs ys)) (SOk false)
    = cmp_elem c (nth i xs None) (nth i ys None).
  Proof.
    intros E.
    pose proof (map_nth (fun p : option val * option val => cmp_elem c (fst p) (snd p))
                        (combine xs ys) (None, None) i) as M.
    cbv beta in M. simpl fst in M. simpl snd in M. simpl cmp_elem in M at 2.
    rewrite M. rewrite combine_nth by exact E. reflexivity.
  Qed.

  Lemma cmp_elem_result c x y b :
    cmp_elem c x y = SOk b ->
    match x, y with Some a, Some b' => c a b' = SOk b | _, _ => b = false end.
  Proof.
    unfold cmp_elem. destruct x as [a|]; [destruct y as [b'|]|]; intros H; try exact H;
      inversion H; reflexivity.
  Qed.

  Lemma compare_zipped_ok c xs ys l d :
    compare_zipped c xs ys = COk l d ->
    d = mkD KBool false /\ length xs = length ys /\
    compare_result c xs (fun i => nth i ys None) l.
  Proof.
    unfold compare_zipped. destruct (negb (length xs =? length ys)) eqn:E; [discriminate|].
    apply negb_eqb_false in E. rewrite zip_strict_combine by exact E.
    destruct (traverse _) as [r| |] eqn:T; try discriminate. intros H; inversion H; subst r d.
    split; [reflexivity|]. split; [exact E|]. split.
    - apply traverse_ok_length in T. rewrite T, map_length, combine_length. lia.
    - intros i Hi. apply cmp_elem_result. rewrite <- (cmp_zipped_nth c xs ys i E).
      apply traverse_ok_nth; [exact T|]. rewrite map_length, combine_length. lia.
  Qed.

  Lemma compare_zipped_mismatch c xs ys : length xs <> length ys -> compare_zipped c xs ys = CErrLen.
  Proof. intros H. unfold compare_zipped. rewrite eqb_len_false by exact H. reflexivity. Qed.

  Lemma compare_zipped_total c xs ys :
    length xs = length ys -> compare_defined c xs (fun i => nth i ys None) ->
    exists l, compare_zipped c xs ys = COk l (mkD KBool false).
  Proof.
    intros E H. unfold compare_zipped. rewrite eqb_len_true by exact E.
    rewrite zip_strict_combine by exact E.
    destruct (traverse_total_nth (map (fun p => cmp_elem c (fst p) (snd p)) (combine xs ys)) (SOk false))
      as [r Hr].
    - intros i Hi. rewrite map_length, combine_length in Hi. rewrite cmp_zipped_nth by exact E.
      unfold cmp_elem. destruct (nth i xs None) as [a|] eqn:Ea; [|eexists; reflexivity].
      destruct (nth i ys None) as [b|] eqn:Eb; [|eexists; reflexivity].
      apply (H i a b); [lia|exact Ea|exact Eb].
    - rewrite Hr. eexists; reflexivity.
  Qed.

  Lemma cmp_scalar_nth c xs s i :
    nth i (map (fun x => cmp_elem c x (Some s)) xs) (SOk false) = cmp_elem c (nth i xs None) (Some s).
  Proof.
    pose proof (map_nth (fun x : option val => cmp_elem c x (Some s)) xs None i) as M.
    cbv beta in M. simpl cmp_elem in M at 2. exact M.
  Qed.

  Lemma compare_scalar_ok c xs s l d :
    compare_scalar c xs s = COk l d ->
    d = mkD KBool false /\ compare_result c xs (fun _ => Some s) l.
  Proof.
    unfold compare_scalar. destruct (traverse _) as [r| |] eqn:T; try discriminate.
    intros H; inversion H; subst r d. split; [reflexivity|]. split.
    - apply traverse_ok_length in T. rewrite T, map_length. reflexivity.
    - intros i Hi. apply (cmp_elem_result c (nth i xs None) (Some s)). rewrite <- cmp_scalar_nth.
      apply traverse_ok_nth; [exact T|]. rewrite map_length. exact Hi.
  Qed.

  Lemma compare_scalar_total c xs s :
    compare_defined c xs (fun _ => Some s) -> exists l, compare_scalar c xs s = COk l (mkD KBool false).
  Proof.
    intros H. unfold compare_scalar.
    destruct (traverse_total_nth (map (fun x => cmp_elem c x (Some s)) xs) (SOk false)) as [r Hr].
    - intros i Hi. rewrite map_length in Hi. rewrite cmp_scalar_nth. unfold cmp_elem.
      destruct (nth i xs None) as [a|] eqn:Ea; [|eexists; reflexivity].
      apply (H i a s Hi Ea eq_refl).
    - rewrite Hr. eexists; reflexivity.
  Qed.

  (* generic _elementwise_compare *)
  Lemma compare_ok c xs other l d :
    elementwise_compare c xs other = COk l d ->
    d = mkD KBool false /\ operand_fits (length xs) other /\
    compare_result c xs (operand_nth other) l.
  Proof.
    destruct other as [ys|ys|s]; simpl; intros H.
    - apply compare_zipped_ok in H. destruct H as [Hd [E R]]. repeat split; try assumption; try (symmetry; exact E); apply R.
    - apply compare_zipped_ok in H. destruct H as [Hd [E R]]. repeat split; try assumption; try (symmetry; exact E); apply R.
    - apply compare_scalar_ok in H. destruct H as [Hd R]. repeat split; try assumption; apply R.
  Qed.

  Lemma compare_total c xs other :
    operand_fits (length xs) other -> compare_defined c xs (operand_nth other) ->
    exists l, elementwise_compare c xs other = COk l (mkD KBool false).
  Proof.
    destruct other as [ys|ys|s]; simpl; intros Hfit H.
    - apply compare_zipped_total; [symmetry; exact Hfit|exact H].
    - apply compare_zipped_total; [symmetry; exact Hfit|exact H].
    - apply compare_scalar_total. exact H.
  Qed.

  Lemma compare_mismatch c xs other :
    ~ operand_fits (length xs) other -> elementwise_compare c xs other = CErrLen.
  Proof.
    destruct other as [ys|ys|s]; simpl; intros H.
    - apply compare_zipped_mismatch. congruence.
    - apply compare_zipped_mismatch. congruence.
    - exfalso. apply H. exact I.
  Qed.

  Lemma compare_result_none_false c xs ys_at l i :
    compare_result c xs ys_at l -> i < length xs ->
    nth i xs None = None \/ ys_at i = None -> nth i l true = false.
  Proof.
    intros [_ N] Hi Hn. specialize (N i Hi). destruct Hn as [Hn|Hn]; rewrite Hn in N.
    - exact N.
    - destruct (nth i xs None); exact N.
  Qed.

  Lemma compare_none_false c xs other l d i :
    elementwise_compare c xs other = COk l d -> i < length xs ->
    nth i xs None = None \/ operand_nth other i = None -> nth i l true = false.
  Proof.
    intros H Hi Hn. apply compare_ok in H. destruct H as [_ [_ R]].
    eapply compare_result_none_false; eauto.
  Qed.

  (* the typed _Date paths *)
  Variable cmp cmp_iso cmp_dt : val -> val -> sres bool.

  Lemma date_compare_ok xs (other : date_coperand val) l d :
    date_compare cmp cmp_iso cmp_dt xs other = COk l d ->
    d = mkD KBool false /\ date_operand_fits (length xs) other /\
    compare_result (date_cmp_of cmp cmp_iso cmp_dt other) xs (date_operand_nth other) l.
  Proof.
    destruct other as [k ys|ys|s|s|s]; simpl.
    - destruct (negb (length xs =? length ys)) eqn:E; [discriminate|]. apply negb_eqb_false in E.
      assert (G : forall c, compare_zipped c xs ys = COk l d ->
                  d = mkD KBool false /\ length ys = length xs /\
                  compare_result c xs (fun i => nth i ys None) l).
      { intros c H. apply compare_zipped_ok in H. destruct H as [Hd [_ R]].
        split; [exact Hd|]. split; [symmetry; exact E|exact R]. }
      destruct k as [[]|]; apply G.
    - intros H. apply compare_zipped_ok in H. destruct H as [Hd [E R]].
      split; [exact Hd|]. split; [symmetry; exact E|exact R].
    - intros H. apply compare_scalar_ok in H. destruct H as [Hd R]. split; [exact Hd|]. split; [exact I|exact R].
    - intros H. apply compare_scalar_ok in H. destruct H as [Hd R]. split; [exact Hd|]. split; [exact I|exact R].
    - intros H. apply compare_scalar_ok in H. destruct H as [Hd R]. split; [exact Hd|]. split; [exact I|exact R].
  Qed.

  Lemma date_compare_none_false xs (other : date_coperand val) l d i :
    date_compare cmp cmp_iso cmp_dt xs other = COk l d -> i < length xs ->
    nth i xs None = None \/ date_operand_nth other i = None -> nth i l true = false.
  Proof.
    intros H Hi Hn. apply date_compare_ok in H. destruct H as [_ [_ R]].
    eapply compare_result_none_false; eauto.
  Qed.

  Lemma date_compare_total xs (other : date_coperand val) :
    date_operand_fits (length xs) other ->
    compare_defined (date_cmp_of cmp cmp_iso cmp_dt other) xs (date_operand_nth other) ->
    exists l, date_compare cmp cmp_iso cmp_dt xs other = COk l (mkD KBool false).
  Proof.
    destruct other as [k ys|ys|s|s|s]; simpl; intros Hfit H.
    - rewrite eqb_len_true by (symmetry; exact Hfit).
      destruct k as [[]|]; apply compare_zipped_total; try (symmetry; exact Hfit); exact H.
    - apply compare_zipped_total; [symmetry; exact Hfit|exact H].
    - apply compare_scalar_total. exact H.
    - apply compare_scalar_total. exact H.
    - apply compare_scalar_total. exact H.
  Qed.

  Lemma date_compare_mismatch xs (other : date_coperand val) :
    ~ date_operand_fits (length xs) other -> date_compare cmp cmp_iso cmp_dt xs other = CErrLen.
  Proof.
    destruct other as [k ys|ys|s|s|s]; simpl; intros H; try (exfalso; apply H; exact I).
    - rewrite eqb_len_false by congruence. reflexivity.
    - apply compare_zipped_mismatch. congruence.
  Qed.
End Cmp.

(* ---- reductions ------------------------------------------------------------------------- *)

Section Red.
  Variable val : Type.
  Variable add : val -> val -> sres val.
  Variable zero : val.
  Variable truthy : val -> bool.
  Variable py_max py_min : list val -> sres val.
  Variable py_mean : list val -> sres val.
  Variable py_stdev : bool -> list val -> sres val.
  Implicit Types (xs ys : list (option val)).

  Notation reduce := (reduce add zero truthy py_max py_min py_mean py_stdev).
  Notation reduce_clean := (reduce_clean add zero truthy py_max py_min py_mean py_stdev).

  Lemma non_none_drop xs : non_none xs = drop_none xs.
  Proof. induction xs as [|[v|] t IH]; simpl; [reflexivity|rewrite IH; reflexivity|exact IH]. Qed.

  Lemma sum_loop_clean xs : forall acc, sum_loop add acc xs = py_sum_from add acc (drop_none xs).
  Proof.
    induction xs as [|[v|] t IH]; intros acc; simpl; [reflexivity| |apply IH].
    destruct (add acc v); try reflexivity. apply IH.
  Qed.

  Lemma all_loop_clean xs : all_loop truthy xs = forallb truthy (drop_none xs).
  Proof. induction xs as [|[v|] t IH]; simpl; [reflexivity| |exact IH]. rewrite IH. destruct (truthy v); reflexivity. Qed.

  Lemma any_loop_clean xs : any_loop truthy xs = existsb truthy (drop_none xs).
  Proof. induction xs as [|[v|] t IH]; simpl; [reflexivity| |exact IH]. rewrite IH. destruct (truthy v); reflexivity. Qed.

  (* every reduction is the reduction of the None-free list *)
  Lemma reduce_skips_none r xs : reduce r xs = reduce_clean r (drop_none xs).
  Proof.
    destruct r; simpl.
    - unfold vmax. rewrite non_none_drop. destruct (drop_none xs); reflexivity.
    - unfold vmin. rewrite non_none_drop. destruct (drop_none xs); reflexivity.
    - unfold vsum, py_sum. rewrite sum_loop_clean. reflexivity.
    - unfold vall. rewrite all_loop_clean. reflexivity.
    - unfold vany. rewrite any_loop_clean. reflexivity.
    - unfold vmean. rewrite non_none_drop. destruct (drop_none xs); reflexivity.
    - unfold vstdev. rewrite non_none_drop. reflexivity.
  Qed.

  Lemma reduce_ignores_none r xs ys : drop_none xs = drop_none ys -> reduce r xs = reduce r ys.
  Proof. intros H. rewrite !reduce_skips_none, H. reflexivity. Qed.

  Lemma drop_none_app {A} (l1 l2 : list (option A)) : drop_none (l1 ++ l2) = drop_none l1 ++ drop_none l2.
  Proof. unfold drop_none. apply flat_map_app. Qed.

  Lemma reduce_insert_none r (l1 l2 : list (option val)) : reduce r (l1 ++ None :: l2) = reduce r (l1 ++ l2).
  Proof. apply reduce_ignores_none. rewrite !drop_none_app. reflexivity. Qed.

  Lemma reduce_nothing_left xs :
    drop_none xs = [] ->
    reduce RSum xs = RVal zero /\ reduce RMean xs = RNone /\ reduce RMax xs = RNone /\
    reduce RMin xs = RNone /\ (forall p, reduce (RStdev p) xs = RNone) /\
    reduce RAny xs = RBool false /\ reduce RAll xs = RBool true.
  Proof.
    intros H. repeat split; try intros p; rewrite reduce_skips_none, H; reflexivity.
  Qed.

  Lemma stdev_below_two p xs : length (drop_none xs) < 2 -> reduce (RStdev p) xs = RNone.
  Proof.
    intros H. rewrite reduce_skips_none. simpl. apply Nat.ltb_lt in H. rewrite H. reflexivity.
  Qed.

  Lemma len_counts_none xs : vlen xs = length (drop_none xs) + count_none xs.
  Proof.
    unfold vlen, count_none. induction xs as [|[v|] t IH]; simpl; [reflexivity| |]; rewrite IH; lia.
  Qed.
End Red.

(* ---- isna / dropna / fillna --------------------------------------------------------------- *)

Section NAProofs.
  Variable val : Type.
  Variable cls : val -> vinfo.
  Variable conv : kind -> val -> val.
  Implicit Types (xs l : list (option val)) (value : option val) (dt : option dtype).

  Lemma isna_spec xs :
    fst (isna xs) = map is_none xs /\ snd (isna xs) = mkD KBool false /\
    length (fst (isna xs)) = length xs /\
    forall i, i < length xs -> nth i (fst (isna xs)) false = is_none (nth i xs None).
  Proof.
    simpl. repeat split; [apply map_length|]. intros i Hi.
    rewrite (nth_indep _ false (is_none (@None val))) by (rewrite map_length; exact Hi).
    apply map_nth.
  Qed.

  Lemma dropna_isna dt xs : fst (dropna dt xs) = select (map negb (fst (isna xs))) xs.
  Proof.
    simpl. induction xs as [|x t IH]; simpl; [reflexivity|].
    destruct x; simpl; rewrite IH; reflexivity.
  Qed.

  Lemma dropna_clean dt xs : fst (dropna dt xs) = map Some (drop_none xs).
  Proof.
    simpl. induction xs as [|[v|] t IH]; simpl; [reflexivity| |exact IH]. rewrite IH. reflexivity.
  Qed.

  Lemma dropna_schema dt xs :
    snd (dropna dt xs) = match dt with Some d => Some (mkD (dkind d) false) | None => None end.
  Proof. reflexivity. Qed.

  Lemma dropna_nonnull dt xs d' : snd (dropna dt xs) = Some d' -> nullable d' = false.
  Proof. simpl. destruct dt as [d|]; intros H; inversion H. reflexivity. Qed.

  Lemma fill_length value xs : length (fill value xs) = length xs.
  Proof. apply map_length. Qed.

  Lemma fill_nth value xs i : i < length xs ->
    nth i (fill value xs) None = match nth i xs None with None => value | Some a => Some a end.
  Proof.
    intros Hi. unfold fill.
    pose proof (map_nth (fun x : option val => match x with None => value | Some _ => x end) xs None i) as M.
    cbv beta iota in M.
    rewrite (nth_indep _ None value) by (rewrite map_length; exact Hi).
    rewrite M. destruct (nth i xs None); reflexivity.
  Qed.

  Lemma infer_singleton vi : infer_dtype [Some vi] = mkD (base vi) false.
  Proof. reflexivity. Qed.

  (* fillna replaces exactly the isna positions; the other values stay (converted to the new
     kind when the fill value forces a promotion) *)
  Lemma fillna_isna value xs dt l d :
    fillna cls conv value xs dt = FOk l d ->
    length l = length xs /\
    forall i, i < length xs ->
      nth i l None =
      match nth i xs None with
      | None => value
      | Some a => Some (match fill_target cls value dt with None => a | Some k => conv k a end)
      end.
  Proof.
    unfold fillna, fill_target.
    destruct dt as [d0|]; [destruct value as [v|]|].
    - rewrite infer_singleton. simpl dkind.
      destruct (validate_scalar (Some (cls v)) d0).
      + unfold fillna_standard. intros H; inversion H; subst. split; [apply fill_length|].
        intros i Hi. apply fill_nth. exact Hi.
      + destruct (kind_eqb (dkind d0) (base (cls v))).
        * intros H; inversion H; subst. split; [apply fill_length|]. intros i Hi. apply fill_nth. exact Hi.
        * destruct (promotable (base (cls v)) (dkind d0)); [|discriminate].
          intros H; inversion H; subst. split; [rewrite fill_length; apply map_length|].
          intros i Hi. rewrite fill_nth by (rewrite map_length; exact Hi).
          pose proof (map_nth (option_map (conv (base (cls v)))) xs None i) as M. simpl option_map in M at 2.
          rewrite M. destruct (nth i xs None); reflexivity.
    - unfold fillna_standard. intros H; inversion H; subst. split; [apply fill_length|].
      intros i Hi. apply fill_nth. exact Hi.
    - unfold fillna_standard. intros H; inversion H; subst. split; [apply fill_length|].
      intros i Hi. apply fill_nth. exact Hi.
  Qed.

  Lemma fill_some_no_none v xs : existsb is_none (fill (Some v) xs) = false.
  Proof. unfold fill. induction xs as [|[a|] t IH]; simpl; [reflexivity|exact IH|exact IH]. Qed.

  (* fillna(x) with x other than None reports itself non-nullable (when the vector is typed) *)
  Lemma fillna_nonnull v xs dt l d :
    fillna cls conv (Some v) xs dt = FOk l (Some d) -> nullable d = false.
  Proof.
    unfold fillna. destruct dt as [d0|].
    - destruct (validate_scalar (Some (cls v)) d0).
      + unfold fillna_standard. rewrite fill_some_no_none. intros H; inversion H. reflexivity.
      + destruct (kind_eqb _ _); [intros H; inversion H; reflexivity|].
        destruct (promotable _ _); [intros H; inversion H; reflexivity|discriminate].
    - unfold fillna_standard. discriminate.
  Qed.

  (* ... and indeed holds no None any more *)
  Lemma fillna_no_none_left v xs dt l d :
    fillna cls conv (Some v) xs dt = FOk l d -> existsb is_none l = false.
  Proof.
    unfold fillna. destruct dt as [d0|].
    - destruct (validate_scalar (Some (cls v)) d0).
      + unfold fillna_standard. intros H; inversion H. apply fill_some_no_none.
      + destruct (kind_eqb _ _); [intros H; inversion H; apply fill_some_no_none|].
        destruct (promotable _ _); [intros H; inversion H; apply fill_some_no_none|discriminate].
    - unfold fillna_standard. intros H; inversion H. apply fill_some_no_none.
  Qed.

  (* a fill value the dtype accepts leaves every other value untouched and keeps the kind *)
  Lemma fillna_accepted v xs d0 :
    validate_scalar (Some (cls v)) d0 = true ->
    fillna cls conv (Some v) xs (Some d0) = FOk (fill (Some v) xs) (Some (mkD (dkind d0) false)).
  Proof.
    intros H. unfold fillna. rewrite H. unfold fillna_standard. rewrite fill_some_no_none. reflexivity.
  Qed.

  Lemma fill_none_id xs : fill None xs = xs.
  Proof. unfold fill. induction xs as [|[a|] t IH]; simpl; [reflexivity| |]; rewrite IH; reflexivity. Qed.

  Lemma fillna_none xs dt :
    fillna cls conv None xs dt
    = FOk xs (match dt with Some d => Some (mkD (dkind d) (has_none xs)) | None => None end).
  Proof.
    unfold fillna. destruct dt as [d0|]; unfold fillna_standard; rewrite fill_none_id; reflexivity.
  Qed.
End NAProofs.
