(* Proofs/Index.v — the model of Vector.__getitem__ / Table.__getitem__ (Model/Index.v)
   meets the Python-sequence specification (Spec/PySlice.v). *)
From Coq Require Import List Bool Arith ZArith Lia.
From Serif Require Import Base.PyVal Base.StErr Spec.PySlice Model.Index Proofs.PySlice.
Import ListNotations.

(* ---- masks ------------------------------------------------------------------------ *)

Lemma filter_map_swap {X Y} (g : X -> Y) (f : Y -> bool) l :
  filter f (map g l) = map g (filter (fun x => f (g x)) l).
Proof.
  induction l as [|x t IH]; cbn [map filter]; [reflexivity|].
  destruct (f (g x)); cbn [map]; rewrite IH; reflexivity.
Qed.

Lemma true_positions_cons b m :
  true_positions (b :: m) = (if b then [0] else []) ++ map S (true_positions m).
Proof.
  unfold true_positions. cbn [length seq filter nth]. rewrite <- seq_shift, filter_map_swap.
  destruct b; reflexivity.
Qed.

Lemma true_positions_valid m p : In p (true_positions m) -> p < length m.
Proof. unfold true_positions. intros H. apply filter_In in H. destruct H as [H _]. apply in_seq in H. lia. Qed.

Lemma true_positions_true m p : In p (true_positions m) <-> nth_error m p = Some true.
Proof.
  unfold true_positions. rewrite filter_In, in_seq. split.
  - intros [Hp Hn]. destruct (nth_error m p) eqn:E.
    + rewrite (nth_error_nth _ _ _ E) in Hn. congruence.
    + apply nth_error_None in E. lia.
  - intros H. assert (p < length m) by (apply nth_error_Some; congruence).
    split; [lia|]. rewrite (nth_error_nth _ _ _ H). reflexivity.
Qed.

Lemma gather_cons_shift {A} (x : A) l idx : gather (x :: l) (map S idx) = gather l idx.
Proof.
  induction idx as [|i t IH]; cbn [map gather nth_error]; [reflexivity|]. rewrite IH. reflexivity.
Qed.

Lemma mask_filter_spec {A} (l : list A) : forall m, length l = length m ->
  gather l (true_positions m) = Some (mask_filter l m).
Proof.
  induction l as [|x l IH]; intros [|b m] H; try discriminate; [reflexivity|].
  rewrite true_positions_cons. cbn [mask_filter]. injection H as H.
  destruct b; cbn [app gather nth_error]; rewrite gather_cons_shift, IH by exact H; reflexivity.
Qed.

(* ---- index lists ------------------------------------------------------------------ *)

Lemma index_each_spec {A} (l : list A) idx :
  index_each l idx = match norm_all (length l) idx with
                     | Some ps => match gather l ps with Some r => Ok r | None => Err EOther end
                     | None => Err EOther
                     end.
Proof.
  induction idx as [|i t IH]; cbn [index_each norm_all gather]; [reflexivity|].
  unfold py_index. destruct (norm_index (length l) i) as [p|]; [|reflexivity].
  destruct (nth_error l p) as [x|] eqn:E.
  - rewrite IH. destruct (norm_all (length l) t) as [ps|]; [|reflexivity].
    cbn [gather]. rewrite E. destruct (gather l ps); reflexivity.
  - destruct (norm_all (length l) t) as [ps|]; [|reflexivity]. cbn [gather]. rewrite E. reflexivity.
Qed.

(* ---- Vector.__getitem__ in closed form -------------------------------------------- *)

Section Vec.
Variable A : Type.

Definition apply_sel (v : vec A) (s : selection) : res (gres A) :=
  match s with
  | SOne p => match nth_error (vals v) p with Some x => Ok (GElt x) | None => Err EOther end
  | SMany ps => match gather (vals v) ps with
                | Some l => Ok (GVec (mkVec l (vdt v) (vname v)))
                | None => Err EOther
                end
  end.

Lemma get_mask_closed (v : vec A) m :
  get_mask v m = rbind (sel_mask m (length (vals v))) (apply_sel v).
Proof.
  unfold get_mask, sel_mask. destruct (Nat.eqb (length (vals v)) (length m)) eqn:E; cbn [negb rbind]; [|reflexivity].
  apply Nat.eqb_eq in E. cbn [apply_sel]. rewrite mask_filter_spec by exact E. reflexivity.
Qed.

Lemma get_idx_closed (v : vec A) idx :
  get_idx v idx = rbind (sel_idx idx (length (vals v))) (apply_sel v).
Proof.
  unfold get_idx, sel_idx. rewrite index_each_spec.
  destruct (norm_all (length (vals v)) idx) as [ps|]; cbn [rbind apply_sel]; [|reflexivity].
  destruct (gather (vals v) ps); reflexivity.
Qed.

Theorem getitem_closed (v : vec A) k :
  getitem v k = rbind (sel k (length (vals v))) (apply_sel v).
Proof.
  induction k as [i|k IH|t|m|l|a b s|l| |]; cbn [getitem sel].
  - unfold py_index. destruct (norm_index (length (vals v)) i) as [p|]; cbn [rbind apply_sel]; [|reflexivity].
    destruct (nth_error (vals v) p); reflexivity.
  - rewrite IH. unfold shape_len. destruct (vals v); reflexivity.
  - unfold shape_len. destruct (vals v); cbn [length Nat.eqb]; destruct (Nat.eqb t _); reflexivity.
  - apply get_mask_closed.
  - destruct (all_bool l); [apply get_mask_closed|]. destruct (all_int l); [apply get_idx_closed|reflexivity].
  - destruct (Z.eqb (step_of s) 0); [reflexivity|]. cbn [rbind apply_sel]. unfold py_slice.
    destruct (gather (vals v) (slice_positions a b s (length (vals v)))); reflexivity.
  - apply get_idx_closed.
  - reflexivity.
  - reflexivity.
Qed.

(* every position a key selects exists *)
Lemma sel_valid k : forall n,
  match sel k n with
  | Ok (SOne p) => p < n
  | Ok (SMany ps) => forall p, In p ps -> p < n
  | Err _ => True
  end.
Proof.
  assert (Hm : forall m n, match sel_mask m n with Ok (SOne p) => p < n
                          | Ok (SMany ps) => forall p, In p ps -> p < n | Err _ => True end).
  { intros m n. unfold sel_mask. destruct (Nat.eqb n (length m)) eqn:E; [|exact I].
    apply Nat.eqb_eq in E. subst n. intros p. apply true_positions_valid. }
  assert (Hi : forall l n, match sel_idx l n with Ok (SOne p) => p < n
                          | Ok (SMany ps) => forall p, In p ps -> p < n | Err _ => True end).
  { intros l n. unfold sel_idx. destruct (norm_all n l) as [ps|] eqn:E; [|exact I].
    apply norm_all_valid in E. apply E. }
  induction k as [i|k IH|t|m|l|a b s|l| |]; intros n; cbn [sel].
  - destruct (norm_index n i) eqn:E; [|exact I]. eapply norm_index_valid; eauto.
  - destruct (Nat.eqb n 0); [exact I|apply IH].
  - destruct (Nat.eqb t _); exact I.
  - apply Hm.
  - destruct (all_bool l); [apply Hm|]. destruct (all_int l); [apply Hi|exact I].
  - destruct (Z.eqb (step_of s) 0) eqn:E; [exact I|]. apply Z.eqb_neq in E.
    intros p Hp. eapply slice_positions_valid; eauto.
  - apply Hi.
  - exact I.
  - exact I.
Qed.

(* The specification theorem: what v[key] is, for every vector and every key. *)
Theorem getitem_spec (v : vec A) k :
  match sel k (length (vals v)) with
  | Err _ => exists e, getitem v k = Err e
  | Ok (SOne p) => exists x, nth_error (vals v) p = Some x /\ getitem v k = Ok (GElt x)
  | Ok (SMany ps) => exists l, gather (vals v) ps = Some l /\
                               getitem v k = Ok (GVec (mkVec l (vdt v) (vname v)))
  end.
Proof.
  rewrite getitem_closed. pose proof (sel_valid k (length (vals v))) as Hv.
  destruct (sel k (length (vals v))) as [[p|ps]|e]; cbn [rbind apply_sel].
  - destruct (nth_error (vals v) p) as [x|] eqn:E; [exists x; auto|].
    apply nth_error_None in E. lia.
  - destruct (gather_total (vals v) ps Hv) as [l Hl]. rewrite Hl. exists l. auto.
  - exists e. reflexivity.
Qed.

(* v[i] *)
Theorem getitem_int (v : vec A) i :
  getitem v (IxInt i) = match py_index (vals v) i with Some x => Ok (GElt x) | None => Err EOther end.
Proof. reflexivity. Qed.

(* v[a:b:s] = list(v)[a:b:s], same dtype, same name — for every slice with a non-zero step *)
Theorem getslice_spec (v : vec A) a b s : step_of s <> 0%Z ->
  exists l, py_slice (vals v) a b s = Some l /\
            getitem v (IxSlice a b s) = Ok (GVec (mkVec l (vdt v) (vname v))).
Proof.
  intros Hs. pose proof (getitem_spec v (IxSlice a b s)) as H. cbn [sel] in H.
  apply Z.eqb_neq in Hs. rewrite Hs in H. exact H.
Qed.

Theorem getslice_step0 (v : vec A) a b : exists e, getitem v (IxSlice a b (Some 0%Z)) = Err e.
Proof. eexists. reflexivity. Qed.

(* typeutils.slice_length is the number of elements of the slice, for all integers *)
Theorem slice_length_correct a b s (n : nat) : step_of s <> 0%Z ->
  slice_length a b s (Z.of_nat n) = Z.of_nat (length (slice_positions a b s n)).
Proof.
  intros Hs. unfold slice_length, slice_positions. rewrite map_length.
  destruct (adjust a b s (Z.of_nat n)) as [[start stop] step] eqn:E.
  symmetry. eapply py_range_length; eauto. lia.
Qed.

Corollary getslice_length (v : vec A) a b s w : step_of s <> 0%Z ->
  getitem v (IxSlice a b s) = Ok (GVec w) ->
  Z.of_nat (length (vals w)) = slice_length a b s (Z.of_nat (length (vals v))).
Proof.
  intros Hs H. destruct (getslice_spec v a b s Hs) as [l [Hl Hg]]. rewrite Hg in H.
  inversion H; subst w. cbn [vals]. rewrite slice_length_correct by exact Hs.
  unfold py_slice in Hl. apply gather_length in Hl. rewrite Hl. reflexivity.
Qed.

(* v[mask]: exactly the positions where the mask is True, in order; dtype and name kept *)
Theorem getmask_spec (v : vec A) m : length m = length (vals v) ->
  exists l, gather (vals v) (true_positions m) = Some l /\
            getitem v (IxMaskV m) = Ok (GVec (mkVec l (vdt v) (vname v))).
Proof.
  intros Hl. pose proof (getitem_spec v (IxMaskV m)) as H. cbn [sel] in H. unfold sel_mask in H.
  rewrite Hl, Nat.eqb_refl in H. exact H.
Qed.

Theorem getmask_wrong_length (v : vec A) m : length m <> length (vals v) ->
  exists e, getitem v (IxMaskV m) = Err e.
Proof.
  intros Hl. pose proof (getitem_spec v (IxMaskV m)) as H. cbn [sel] in H. unfold sel_mask in H.
  destruct (Nat.eqb (length (vals v)) (length m)) eqn:E; [apply Nat.eqb_eq in E; congruence|exact H].
Qed.

(* the same two facts for a list of bools *)
Theorem getmask_list_spec (v : vec A) l : all_bool l = true ->
  if Nat.eqb (length (vals v)) (length l)
  then exists r, gather (vals v) (true_positions (map lb_val l)) = Some r /\
                 getitem v (IxList l) = Ok (GVec (mkVec r (vdt v) (vname v)))
  else exists e, getitem v (IxList l) = Err e.
Proof.
  intros Hb. pose proof (getitem_spec v (IxList l)) as H. cbn [sel] in H. rewrite Hb in H.
  unfold sel_mask in H. rewrite map_length in H.
  destruct (Nat.eqb (length (vals v)) (length l)); exact H.
Qed.

(* v[[i, j, ...]] / v[Vector of ints] = [v[i], v[j], ...]; any bad index is an error *)
Theorem getidx_spec (v : vec A) idx :
  match norm_all (length (vals v)) idx with
  | Some ps => exists l, gather (vals v) ps = Some l /\
                         getitem v (IxIdxV idx) = Ok (GVec (mkVec l (vdt v) (vname v)))
  | None => exists e, getitem v (IxIdxV idx) = Err e
  end.
Proof.
  pose proof (getitem_spec v (IxIdxV idx)) as H. cbn [sel] in H. unfold sel_idx in H.
  destruct (norm_all (length (vals v)) idx); exact H.
Qed.

(* ---- comparison operators ---------------------------------------------------------- *)
Variable is_none : A -> bool.
Variable cmp : A -> A -> option bool.

Definition cmp_cell (x y : A) (b : bool) : Prop :=
  if is_none x || is_none y then b = false else cmp x y = Some b.

Lemma cmp_zip_spec xs : forall ys bs, cmp_zip is_none cmp xs ys = Ok bs -> length xs = length ys ->
  length bs = length xs /\
  forall i x y, nth_error xs i = Some x -> nth_error ys i = Some y ->
                exists b, nth_error bs i = Some b /\ cmp_cell x y b.
Proof.
  induction xs as [|x xs IH]; intros [|y ys] bs H Hl; try discriminate; cbn [cmp_zip] in H.
  - inversion H. split; [reflexivity|]. intros [|i] ? ? ?; discriminate.
  - injection Hl as Hl.
    destruct (if is_none x || is_none y then Some false else cmp x y) as [b|] eqn:E; [|discriminate].
    destruct (cmp_zip is_none cmp xs ys) as [t|] eqn:E2; [|discriminate].
    inversion H; subst bs. destruct (IH _ _ E2 Hl) as [HL HN]. split; [cbn; f_equal; exact HL|].
    intros [|i] x' y' Hx Hy; cbn [nth_error] in *.
    + inversion Hx; inversion Hy; subst. exists b. split; [reflexivity|]. unfold cmp_cell.
      destruct (is_none x' || is_none y'); [congruence|exact E].
    + eapply HN; eauto.
Qed.

Lemma cmp_scalar_spec y xs : forall bs, cmp_scalar is_none cmp xs y = Ok bs ->
  length bs = length xs /\
  forall i x, nth_error xs i = Some x ->
              exists b, nth_error bs i = Some b /\ (if is_none x then b = false else cmp x y = Some b).
Proof.
  induction xs as [|x xs IH]; intros bs H; cbn [cmp_scalar] in H.
  - inversion H. split; [reflexivity|]. intros [|i] ? ?; discriminate.
  - destruct (if is_none x then Some false else cmp x y) as [b|] eqn:E; [|discriminate].
    destruct (cmp_scalar is_none cmp xs y) as [t|] eqn:E2; [|discriminate].
    inversion H; subst bs. destruct (IH _ eq_refl) as [HL HN]. split; [cbn; f_equal; exact HL|].
    intros [|i] x' Hx; cbn [nth_error] in *.
    + inversion Hx; subst. exists b. split; [reflexivity|]. destruct (is_none x'); [congruence|exact E].
    + eapply HN; eauto.
Qed.

(* comparison with a sequence: one bool per position, computed from that position's pair only *)
Theorem compare_elementwise xs ys bs : compare is_none cmp xs (OpVec ys) = Ok bs ->
  length ys = length xs /\ length bs = length xs /\
  forall i x y, nth_error xs i = Some x -> nth_error ys i = Some y ->
                exists b, nth_error bs i = Some b /\ cmp_cell x y b.
Proof.
  cbn [compare]. destruct (Nat.eqb (length xs) (length ys)) eqn:E; cbn [negb]; [|discriminate].
  apply Nat.eqb_eq in E. intros H. split; [auto|]. eapply cmp_zip_spec; eauto.
Qed.

Theorem compare_length_mismatch xs ys : length ys <> length xs ->
  exists e, compare is_none cmp xs (OpVec ys) = Err e.
Proof.
  intros H. cbn [compare]. destruct (Nat.eqb (length xs) (length ys)) eqn:E.
  - apply Nat.eqb_eq in E. congruence.
  - eexists. reflexivity.
Qed.

Theorem compare_scalar xs y bs : compare is_none cmp xs (OpScalar y) = Ok bs ->
  length bs = length xs /\
  forall i x, nth_error xs i = Some x ->
              exists b, nth_error bs i = Some b /\ (if is_none x then b = false else cmp x y = Some b).
Proof. cbn [compare]. apply cmp_scalar_spec. Qed.

End Vec.
