(* Proofs/Join.v — the hash-index model of Model/Join.v refines the nested-loop
   specification of Spec/Join.v, for all tables, any number of key columns, and any
   value type whose == is an equivalence. *)
From Coq Require Import List Bool Arith Lia String Permutation.
From Serif Require Import Base.PyVal Spec.Join Model.Join.
Import ListNotations.

(* ------------------------------------------------------------------ generic list facts *)

Lemma bool_eq_iff (a b : bool) : (a = true <-> b = true) -> a = b.
Proof.
  destruct a, b; intros [H1 H2]; try reflexivity.
  - symmetry. apply H1. reflexivity.
  - apply H2. reflexivity.
Qed.

Lemma filter_nil_iff {A} (f : A -> bool) l :
  filter f l = [] <-> forall x, In x l -> f x = false.
Proof.
  induction l as [|a l IH]; simpl.
  - split; [intros _ x []|reflexivity].
  - destruct (f a) eqn:E.
    + split; [discriminate|]. intros H. rewrite (H a (or_introl eq_refl)) in E. discriminate.
    + rewrite IH. split.
      * intros H x [<-|Hx]; [exact E|apply H; exact Hx].
      * intros H x Hx. apply H. right. exact Hx.
Qed.

Lemma filter_all_id {A} (f : A -> bool) l : (forall x, In x l -> f x = true) -> filter f l = l.
Proof.
  induction l as [|a l IH]; intros H; simpl; [reflexivity|].
  rewrite (H a (or_introl eq_refl)). f_equal. apply IH. intros x Hx. apply H. right. exact Hx.
Qed.

Lemma map_const_repeat {A B} (b : B) (l : list A) : map (fun _ => b) l = repeat b (List.length l).
Proof. induction l; simpl; congruence. Qed.

Lemma combine_map_map {A B C} (f : A -> B) (g : A -> C) l :
  combine (map f l) (map g l) = map (fun x => (f x, g x)) l.
Proof. induction l; simpl; congruence. Qed.

Lemma map_fst_combine {A B} (a : list A) : forall (b : list B),
  List.length a = List.length b -> map fst (combine a b) = a.
Proof.
  induction a as [|x a IH]; intros [|y b] H; simpl in *; try discriminate; [reflexivity|].
  f_equal. apply IH. lia.
Qed.

Lemma map_snd_combine {A B} (a : list A) : forall (b : list B),
  List.length a = List.length b -> map snd (combine a b) = b.
Proof.
  induction a as [|x a IH]; intros [|y b] H; simpl in *; try discriminate; [reflexivity|].
  f_equal. apply IH. lia.
Qed.

Lemma sublist_refl {A} (l : list A) : sublist l l.
Proof. induction l; constructor; assumption. Qed.

Lemma sublist_nil {A} (l : list A) : sublist [] l.
Proof. induction l; constructor; assumption. Qed.

Lemma sublist_app {A} (a b c d : list A) : sublist a b -> sublist c d -> sublist (a ++ c) (b ++ d).
Proof. intros H1 H2. induction H1; simpl; [exact H2| |]; constructor; assumption. Qed.

Lemma sublist_flat_map {A B} (f g : A -> list B) l :
  (forall x, sublist (f x) (g x)) -> sublist (flat_map f l) (flat_map g l).
Proof. intros H. induction l; simpl; [constructor|]. apply sublist_app; auto. Qed.

Lemma NoDup_app {A} (a b : list A) :
  NoDup a -> NoDup b -> (forall x, In x a -> ~ In x b) -> NoDup (a ++ b).
Proof.
  induction a as [|x a IH]; intros Ha Hb Hd; simpl; [exact Hb|].
  inversion Ha as [|x' a' Hx Ha']; subst. constructor.
  - rewrite in_app_iff. intros [H|H]; [exact (Hx H)|]. apply (Hd x); [left; reflexivity|exact H].
  - apply IH; [exact Ha'|exact Hb|]. intros y Hy. apply Hd. right. exact Hy.
Qed.

Lemma NoDup_flat_map {A B} (f : A -> list B) l :
  NoDup l -> (forall x, In x l -> NoDup (f x)) ->
  (forall x y b, In x l -> In y l -> In b (f x) -> In b (f y) -> x = y) ->
  NoDup (flat_map f l).
Proof.
  induction l as [|a l IH]; intros Hl Hf Hd; simpl; [constructor|].
  inversion Hl as [|a' l' Ha Hl']; subst.
  apply NoDup_app.
  - apply Hf. left. reflexivity.
  - apply IH; [exact Hl'| |].
    + intros x Hx. apply Hf. right. exact Hx.
    + intros x y b Hx Hy. apply Hd; right; assumption.
  - intros b Hb Hin. apply in_flat_map in Hin. destruct Hin as [y [Hy Hby]].
    assert (a = y) by (apply (Hd a y b); [left; reflexivity|right; exact Hy|exact Hb|exact Hby]).
    subst. exact (Ha Hy).
Qed.

Lemma NoDup_map_inj {A B} (f : A -> B) l :
  (forall x y, f x = f y -> x = y) -> NoDup l -> NoDup (map f l).
Proof.
  intros Hinj Hl. induction Hl as [|x l Hx Hl IH]; simpl; constructor; [|exact IH].
  intros H. apply in_map_iff in H. destruct H as [y [Hy Hin]]. apply Hinj in Hy. subst. exact (Hx Hin).
Qed.

Lemma NoDup_filter {A} (f : A -> bool) l : NoDup l -> NoDup (filter f l).
Proof.
  intros Hl. induction Hl as [|x l Hx Hl IH]; simpl; [constructor|].
  destruct (f x); [|exact IH]. constructor; [|exact IH].
  intros H. apply filter_In in H. exact (Hx (proj1 H)).
Qed.

(* ================================================================== *)
Section JoinProofs.
Variable V : Type.
Variable veq : V -> V -> bool.
Hypothesis veq_refl : forall a, veq a a = true.
Hypothesis veq_sym : forall a b, veq a b = veq b a.
Hypothesis veq_trans : forall a b c, veq a b = true -> veq b c = true -> veq a c = true.

Notation cell := (cell V).
Notation key := (key V).
Notation ceq := (ceq V veq).
Notation keq := (keq V veq).
Notation dict := (dict V).
Notation dict_get := (dict_get V veq).
Notation dict_add := (dict_add V veq).
Notation kmem := (kmem V veq).

(* ------------------------------------------------------------------ == on key tuples is an equivalence *)

Lemma ceq_refl a : ceq a a = true.
Proof. destruct a; simpl; auto. Qed.
Lemma ceq_sym a b : ceq a b = ceq b a.
Proof. destruct a, b; simpl; auto. Qed.
Lemma ceq_trans a b c : ceq a b = true -> ceq b c = true -> ceq a c = true.
Proof. destruct a, b, c; simpl; try discriminate; auto. apply veq_trans. Qed.

Lemma keq_refl a : keq a a = true.
Proof. induction a; simpl; [reflexivity|]. rewrite ceq_refl. exact IHa. Qed.
Lemma keq_sym a : forall b, keq a b = keq b a.
Proof. induction a as [|x a IH]; intros [|y b]; simpl; auto. rewrite ceq_sym, IH. reflexivity. Qed.
Lemma keq_trans a : forall b c, keq a b = true -> keq b c = true -> keq a c = true.
Proof.
  induction a as [|x a IH]; intros [|y b] [|z c]; simpl; try discriminate; auto.
  rewrite !andb_true_iff. intros [H1 H2] [H3 H4]. split; [eapply ceq_trans|eapply IH]; eassumption.
Qed.

Lemma keq_false_l a b c : keq a b = true -> keq a c = false -> keq b c = false.
Proof.
  intros H1 H2. destruct (keq b c) eqn:E; [|reflexivity].
  rewrite (keq_trans _ _ _ H1 E) in H2. discriminate.
Qed.

(* ------------------------------------------------------------------ the dict *)

Definition bucket_of (o : option (list nat)) : list nat := match o with Some b => b | None => [] end.
Definition opt_list (l : list nat) : option (list nat) := match l with [] => None | _ => Some l end.

Lemma bucket_opt l : bucket_of (opt_list l) = l.
Proof. destruct l; reflexivity. Qed.

(* keys of the dict are pairwise != *)
Fixpoint wf (d : dict) : Prop :=
  match d with
  | [] => True
  | (k, _) :: r => Forall (fun kb => keq k (fst kb) = false) r /\ wf r
  end.

Lemma dict_add_keys_false d k i k0 :
  keq k0 k = false -> Forall (fun kb => keq k0 (fst kb) = false) d ->
  Forall (fun kb => keq k0 (fst kb) = false) (dict_add d k i).
Proof.
  induction d as [|[k' b] r IH]; intros Hk HF; cbn [Join.dict_add].
  - constructor; [exact Hk|constructor].
  - inversion HF; subst. destruct (keq k k'); constructor; auto.
Qed.

Lemma wf_add d k i : wf d -> wf (dict_add d k i).
Proof.
  induction d as [|[k' b] r IH]; intros Hw; cbn [Join.dict_add wf] in *.
  - split; [constructor|exact I].
  - destruct Hw as [HF Hw]. destruct (keq k k') eqn:E; cbn [wf].
    + split; assumption.
    + split; [|apply IH; exact Hw]. apply dict_add_keys_false; [rewrite keq_sym; exact E|exact HF].
Qed.

Lemma get_add d k i q : wf d ->
  dict_get (dict_add d k i) q =
  if keq q k then Some (bucket_of (dict_get d q) ++ [i]) else dict_get d q.
Proof.
  induction d as [|[k' b] r IH]; intros Hw; cbn [Join.dict_add Join.dict_get].
  - destruct (keq q k); reflexivity.
  - cbn [wf] in Hw. destruct Hw as [HF Hw]. destruct (keq k k') eqn:E; cbn [Join.dict_get].
    + destruct (keq q k') eqn:E2.
      * assert (H : keq q k = true) by (eapply keq_trans; [exact E2|rewrite keq_sym; exact E]).
        rewrite H. reflexivity.
      * assert (H : keq q k = false).
        { destruct (keq q k) eqn:E3; [|reflexivity]. rewrite (keq_trans _ _ _ E3 E) in E2. discriminate. }
        rewrite H. reflexivity.
    + destruct (keq q k') eqn:E2.
      * assert (H : keq q k = false).
        { destruct (keq q k) eqn:E3; [|reflexivity]. rewrite keq_sym in E3.
          rewrite (keq_trans _ _ _ E3 E2) in E. discriminate. }
        rewrite H. reflexivity.
      * apply IH. exact Hw.
Qed.

(* what the index must hold after the first n0 right rows *)
Definition hits (rk : nat -> key) (q : key) (js : list nat) : list nat :=
  filter (fun j => keq q (rk j)) js.
Definition repr (rk : nat -> key) (d : dict) (n0 : nat) : Prop :=
  wf d /\ forall q, dict_get d q = opt_list (hits rk q (seq 0 n0)).

Lemma repr_nil rk : repr rk [] 0.
Proof. split; [exact I|reflexivity]. Qed.

Lemma repr_step rk d n0 : repr rk d n0 -> repr rk (dict_add d (rk n0) n0) (S n0).
Proof.
  intros [Hw Hg]. split; [apply wf_add; exact Hw|].
  intros q. rewrite get_add by exact Hw. rewrite Hg, bucket_opt.
  unfold hits. rewrite seq_S, filter_app. cbn [filter plus].
  destruct (keq q (rk n0)).
  - destruct (filter _ (seq 0 n0)); reflexivity.
  - rewrite app_nil_r. reflexivity.
Qed.

Lemma build_loop_repr st chk rk len : forall n0 d dups,
  repr rk d n0 -> repr rk (fst (build_loop V veq st chk rk (seq n0 len) d dups)) (n0 + len).
Proof.
  induction len as [|len IH]; intros n0 d dups Hr; cbn [seq build_loop].
  - rewrite Nat.add_0_r. exact Hr.
  - rewrite Nat.add_succ_r, <- Nat.add_succ_l.
    destruct (dict_get d (rk n0)); apply IH; apply repr_step; exact Hr.
Qed.

Lemma build_index_repr st chk rk m : repr rk (fst (build_index V veq st chk rk m)) m.
Proof. unfold build_index. apply (build_loop_repr st chk rk m 0 [] []). apply repr_nil. Qed.

(* the bucket found for a key = the matching right rows, ascending *)
Theorem index_lookup st chk rk m q :
  bucket_of (dict_get (fst (build_index V veq st chk rk m)) q)
  = filter (fun j => keq q (rk j)) (seq 0 m).
Proof. destruct (build_index_repr st chk rk m) as [_ H]. rewrite H, bucket_opt. reflexivity. Qed.

(* ------------------------------------------------------------------ duplicate bookkeeping *)

Lemma build_loop_nochk st rk js : forall d dups,
  snd (build_loop V veq st false rk js d dups) = dups.
Proof.
  induction js as [|j js IH]; intros d dups; cbn [build_loop]; [reflexivity|].
  destruct (dict_get d (rk j)); apply IH.
Qed.

Lemma dups_update_nonempty st dups k : dups_update V veq st dups k <> [].
Proof.
  unfold dups_update, dups_assign. destruct st.
  - destruct (kmem dups k) eqn:E; [|destruct dups; discriminate].
    destruct dups; [discriminate E|discriminate].
  - destruct (kmem dups k) eqn:E; cbn [negb].
    + destruct dups; [discriminate E|discriminate].
    + destruct dups; cbn; discriminate.
Qed.

Lemma hit_iff rk d n0 q : repr rk d n0 ->
  (dict_get d q <> None <-> exists i, i < n0 /\ keq q (rk i) = true).
Proof.
  intros [_ Hg]. rewrite Hg. split.
  - intros H. destruct (hits rk q (seq 0 n0)) as [|i t] eqn:E; [exfalso; apply H; reflexivity|].
    assert (Hin : In i (hits rk q (seq 0 n0))) by (rewrite E; left; reflexivity).
    apply filter_In in Hin. destruct Hin as [Hs Hk]. apply in_seq in Hs. exists i. split; [lia|exact Hk].
  - intros [i [Hi Hk]] H.
    assert (Hin : In i (hits rk q (seq 0 n0))) by (apply filter_In; split; [apply in_seq; lia|exact Hk]).
    destruct (hits rk q (seq 0 n0)); [destruct Hin|discriminate].
Qed.

Lemma build_loop_dups st rk len : forall n0 d dups, repr rk d n0 ->
  (snd (build_loop V veq st true rk (seq n0 len) d dups) <> [] <->
   dups <> [] \/ exists i j, i < j /\ n0 <= j < n0 + len /\ keq (rk i) (rk j) = true).
Proof.
  induction len as [|len IH]; intros n0 d dups Hr; cbn [seq build_loop snd].
  - split; [intros H; left; exact H|]. intros [H|[i [j [_ [Hj _]]]]]; [exact H|lia].
  - pose proof (hit_iff rk d n0 (rk n0) Hr) as Hhit.
    destruct (dict_get d (rk n0)) as [b|] eqn:E.
    + rewrite (IH (S n0) _ _ (repr_step rk d n0 Hr)). split; intros _.
      * right. destruct (proj1 Hhit) as [i [Hi Hk]]; [discriminate|].
        exists i, n0. split; [exact Hi|]. split; [lia|]. rewrite keq_sym. exact Hk.
      * left. apply dups_update_nonempty.
    + rewrite (IH (S n0) _ _ (repr_step rk d n0 Hr)). split.
      * intros [H|[i [j [Hij [Hj Hk]]]]]; [left; exact H|]. right. exists i, j. repeat split; try lia. exact Hk.
      * intros [H|[i [j [Hij [Hj Hk]]]]]; [left; exact H|]. right.
        destruct (Nat.eq_dec j n0) as [->|Hne].
        -- exfalso. apply (proj2 Hhit); [|reflexivity]. exists i. split; [exact Hij|]. rewrite keq_sym. exact Hk.
        -- exists i, j. repeat split; try lia. exact Hk.
Qed.

Lemma build_index_dups st rk m :
  nonempty (snd (build_index V veq st true rk m)) = true <-> has_duplicate keq m rk.
Proof.
  unfold build_index, has_duplicate.
  pose proof (build_loop_dups st rk m 0 [] [] (repr_nil rk)) as H.
  destruct (snd (build_loop V veq st true rk (seq 0 m) [] [])) as [|x t]; cbn [nonempty].
  - split; [discriminate|]. intros [i [j [Hij [Hj Hk]]]]. exfalso.
    apply (proj2 H); [|reflexivity]. right. exists i, j. repeat split; try lia. exact Hk.
  - split; [|reflexivity]. intros _. destruct (proj1 H) as [Hn|[i [j [Hij [Hj Hk]]]]]; [discriminate|congruence|].
    exists i, j. repeat split; try lia. exact Hk.
Qed.

(* ------------------------------------------------------------------ left_keys_seen *)

Fixpoint first_dup (seen : list key) (ks : list key) : bool :=
  match ks with
  | [] => false
  | k :: t => kmem seen k || first_dup (k :: seen) t
  end.
Definition dupb (n : nat) (k : nat -> key) : bool := first_dup [] (map k (seq 0 n)).

Lemma first_dup_iff lk len : forall n0 seen,
  (forall q, kmem seen q = true <-> exists i, i < n0 /\ keq q (lk i) = true) ->
  (first_dup seen (map lk (seq n0 len)) = true <->
   exists i j, i < j /\ n0 <= j < n0 + len /\ keq (lk i) (lk j) = true).
Proof.
  induction len as [|len IH]; intros n0 seen Hs; cbn [seq map first_dup].
  - split; [discriminate|]. intros [i [j [_ [Hj _]]]]. lia.
  - rewrite orb_true_iff, Hs, (IH (S n0) (lk n0 :: seen)).
    + split.
      * intros [[i [Hi Hk]]|[i [j [Hij [Hj Hk]]]]].
        -- exists i, n0. repeat split; try lia. rewrite keq_sym. exact Hk.
        -- exists i, j. repeat split; try lia. exact Hk.
      * intros [i [j [Hij [Hj Hk]]]]. destruct (Nat.eq_dec j n0) as [->|Hne].
        -- left. exists i. split; [exact Hij|]. rewrite keq_sym. exact Hk.
        -- right. exists i, j. repeat split; try lia. exact Hk.
    + intros q. unfold Join.kmem. cbn [existsb]. rewrite orb_true_iff. fold (kmem seen q). rewrite Hs. split.
      * intros [Hk|[i [Hi Hk]]]; [exists n0; split; [lia|exact Hk]|exists i; split; [lia|exact Hk]].
      * intros [i [Hi Hk]]. destruct (Nat.eq_dec i n0) as [->|Hne]; [left; exact Hk|].
        right. exists i. split; [lia|exact Hk].
Qed.

Lemma dupb_iff n lk : dupb n lk = true <-> has_duplicate keq n lk.
Proof.
  unfold dupb, has_duplicate. rewrite (first_dup_iff lk n 0 []).
  - split; intros [i [j [Hij [Hj Hk]]]]; exists i, j; repeat split; try lia; exact Hk.
  - intros q. cbn. split; [discriminate|]. intros [i [Hi _]]. lia.
Qed.

Lemma right_dups_bool st rk m : nonempty (snd (build_index V veq st true rk m)) = dupb m rk.
Proof. apply bool_eq_iff. rewrite build_index_dups, dupb_iff. reflexivity. Qed.

(* ------------------------------------------------------------------ probe loops *)

Section Probe.
Variables (n m : nat) (lk rk : nat -> key).
Variable idx : dict.
Hypothesis Hidx : forall q, dict_get idx q = opt_list (hits rk q (seq 0 m)).

Notation matches_of := (matches_of keq m lk rk).
Notation left_rows_of := (left_rows_of keq m lk rk).

Lemma inner_probe_spec chk : forall is seen out,
  inner_probe V veq idx chk lk is seen out =
  if chk && first_dup seen (map lk is) then Err EValue
  else Ok (out ++ flat_map (fun i => pair_with i (matches_of i)) is).
Proof.
  induction is as [|i is IH]; intros seen out; cbn [inner_probe map first_dup flat_map].
  - rewrite andb_false_r, app_nil_r. reflexivity.
  - rewrite Hidx. fold (matches_of i). unfold hits. fold (matches_of i).
    destruct chk; cbn [andb].
    + destruct (kmem seen (lk i)); cbn [orb]; [reflexivity|].
      destruct (matches_of i) as [|j js] eqn:E; cbn [opt_list]; rewrite IH; cbn [andb].
      * reflexivity.
      * rewrite <- app_assoc. reflexivity.
    + destruct (matches_of i) as [|j js] eqn:E; cbn [opt_list]; rewrite IH; cbn [andb].
      * reflexivity.
      * rewrite <- app_assoc. reflexivity.
Qed.

Lemma left_probe_spec chk : forall is seen out,
  left_probe V veq idx chk lk is seen out =
  if chk && first_dup seen (map lk is) then Err EValue
  else Ok (out ++ flat_map left_rows_of is).
Proof.
  induction is as [|i is IH]; intros seen out; cbn [left_probe map first_dup flat_map].
  - rewrite andb_false_r, app_nil_r. reflexivity.
  - rewrite Hidx. unfold Join.left_rows_of at 1. unfold hits. fold (matches_of i).
    destruct chk; cbn [andb].
    + destruct (kmem seen (lk i)); cbn [orb]; [reflexivity|].
      destruct (matches_of i) as [|j js] eqn:E; cbn [opt_list]; rewrite IH; cbn [andb];
        rewrite <- app_assoc; reflexivity.
    + destruct (matches_of i) as [|j js] eqn:E; cbn [opt_list]; rewrite IH; cbn [andb];
        rewrite <- app_assoc; reflexivity.
Qed.

Lemma full_probe_spec chk : forall is seen matched out,
  full_probe V veq idx chk lk is seen matched out =
  if chk && first_dup seen (map lk is) then Err EValue
  else Ok (rev (flat_map matches_of is) ++ matched, out ++ flat_map left_rows_of is).
Proof.
  induction is as [|i is IH]; intros seen matched out; cbn [full_probe map first_dup flat_map].
  - rewrite andb_false_r, app_nil_r. reflexivity.
  - rewrite Hidx. unfold Join.left_rows_of at 1. unfold hits. fold (matches_of i).
    destruct chk; cbn [andb].
    + destruct (kmem seen (lk i)); cbn [orb]; [reflexivity|].
      destruct (matches_of i) as [|j js] eqn:E; cbn [opt_list]; rewrite IH; cbn [andb].
      * rewrite <- app_assoc. reflexivity.
      * rewrite rev_app_distr, <- !app_assoc. reflexivity.
    + destruct (matches_of i) as [|j js] eqn:E; cbn [opt_list]; rewrite IH; cbn [andb].
      * rewrite <- app_assoc. reflexivity.
      * rewrite rev_app_distr, <- !app_assoc. reflexivity.
Qed.

Lemma sweep_spec :
  sweep (rev (flat_map matches_of (seq 0 n)) ++ []) m =
  map (fun j => (None, Some j)) (right_unmatched keq n m lk rk).
Proof.
  unfold sweep, right_unmatched. f_equal. apply filter_ext_in. intros j Hj. f_equal.
  apply bool_eq_iff. unfold nmem, right_matched. rewrite !existsb_exists. split.
  - intros [x [Hx Hxj]]. apply Nat.eqb_eq in Hxj. subst x.
    rewrite app_nil_r, <- in_rev, in_flat_map in Hx. destruct Hx as [i [Hi Hm]].
    apply filter_In in Hm. exists i. split; [exact Hi|exact (proj2 Hm)].
  - intros [i [Hi Hk]]. exists j. split; [|apply Nat.eqb_refl].
    rewrite app_nil_r, <- in_rev, in_flat_map. exists i. split; [exact Hi|].
    apply filter_In. split; [exact Hj|exact Hk].
Qed.
End Probe.

(* ------------------------------------------------------------------ the three row computations *)

Lemma str_in_right e : str_in e ["one_to_one"; "many_to_one"]%string = needs_right_unique e.
Proof. unfold str_in, needs_right_unique. cbn [existsb]. rewrite orb_false_r. reflexivity. Qed.
Lemma str_in_left e : str_in e ["one_to_one"; "one_to_many"]%string = needs_left_unique e.
Proof. unfold str_in, needs_left_unique. cbn [existsb]. rewrite orb_false_r. reflexivity. Qed.
Lemma expect_ok_valid e : expect_ok e = valid_expect e.
Proof.
  unfold expect_ok, str_in, valid_expect. cbn [existsb]. rewrite orb_false_r, !orb_assoc. reflexivity.
Qed.

(* does the call raise for its expectation? *)
Definition refuses (e : string) (n m : nat) (lk rk : nat -> key) : bool :=
  (needs_right_unique e && dupb m rk) || (needs_left_unique e && dupb n lk).

Lemma refuses_iff e n m lk rk :
  refuses e n m lk rk = true <->
  (needs_right_unique e = true /\ has_duplicate keq m rk) \/
  (needs_left_unique e = true /\ has_duplicate keq n lk).
Proof. unfold refuses. rewrite orb_true_iff, !andb_true_iff, !dupb_iff. reflexivity. Qed.

Lemma index_facts st chk rk m :
  forall idx dups, build_index V veq st chk rk m = (idx, dups) ->
  (forall q, dict_get idx q = opt_list (hits rk q (seq 0 m))) /\
  nonempty dups = chk && dupb m rk.
Proof.
  intros idx dups E. split.
  - pose proof (build_index_repr st chk rk m) as [_ H]. rewrite E in H. exact H.
  - destruct chk; cbn [andb].
    + rewrite <- (right_dups_bool st rk m), E. reflexivity.
    + unfold build_index in E. pose proof (build_loop_nochk st rk (seq 0 m) [] []) as H.
      rewrite E in H. cbn [snd] in H. subst. reflexivity.
Qed.

Theorem inner_rows_spec e n m lk rk :
  inner_rows V veq e n m lk rk =
  if refuses e n m lk rk then Err EValue else Ok (inner_pairs keq n m lk rk).
Proof.
  unfold inner_rows, refuses. rewrite str_in_right, str_in_left.
  destruct (build_index V veq AssignAlways (needs_right_unique e) rk m) as [idx dups] eqn:E.
  destruct (index_facts _ _ _ _ _ _ E) as [Hidx Hd]. rewrite Hd.
  destruct (needs_right_unique e) eqn:Er; cbn [andb].
  - destruct (dupb m rk); cbn [orb]; [reflexivity|].
    rewrite (inner_probe_spec m lk rk idx Hidx). reflexivity.
  - cbn [orb]. rewrite (inner_probe_spec m lk rk idx Hidx). reflexivity.
Qed.

Theorem left_rows_spec e n m lk rk :
  left_rows V veq e n m lk rk =
  if refuses e n m lk rk then Err EValue else Ok (left_pairs keq n m lk rk).
Proof.
  unfold left_rows, refuses. rewrite str_in_right, str_in_left.
  destruct (build_index V veq AssignIfAbsent (needs_right_unique e) rk m) as [idx dups] eqn:E.
  destruct (index_facts _ _ _ _ _ _ E) as [Hidx Hd]. rewrite Hd.
  destruct (needs_right_unique e) eqn:Er; cbn [andb].
  - destruct (dupb m rk); cbn [orb]; [reflexivity|].
    rewrite (left_probe_spec m lk rk idx Hidx). reflexivity.
  - cbn [orb]. rewrite (left_probe_spec m lk rk idx Hidx). reflexivity.
Qed.

Theorem full_rows_spec e n m lk rk :
  full_rows V veq e n m lk rk =
  if refuses e n m lk rk then Err EValue else Ok (full_pairs keq n m lk rk).
Proof.
  unfold full_rows, refuses. rewrite str_in_right, str_in_left.
  destruct (build_index V veq AssignAlways (needs_right_unique e) rk m) as [idx dups] eqn:E.
  destruct (index_facts _ _ _ _ _ _ E) as [Hidx Hd]. rewrite Hd.
  destruct (needs_right_unique e) eqn:Er; cbn [andb].
  - destruct (dupb m rk); cbn [orb]; [reflexivity|].
    rewrite (full_probe_spec m lk rk idx Hidx).
    unfold dupb. destruct (needs_left_unique e && first_dup [] (map lk (seq 0 n))); [reflexivity|].
    rewrite (sweep_spec n m lk rk). reflexivity.
  - cbn [orb]. rewrite (full_probe_spec m lk rk idx Hidx).
    unfold dupb. destruct (needs_left_unique e && first_dup [] (map lk (seq 0 n))); [reflexivity|].
    rewrite (sweep_spec n m lk rk). reflexivity.
Qed.

End JoinProofs.

(* ================================================================== *)
(* C10, on row pairs: completeness, containment, symmetry.  Generic in the key type. *)
Section PairFacts.
Variable K : Type.
Variable keq : K -> K -> bool.

Section OneSide.
Variables (n m : nat) (lk rk : nat -> K).
Notation matches_of := (matches_of keq m lk rk).
Notation left_rows_of := (left_rows_of keq m lk rk).

Lemma in_matches_of i j : In j (matches_of i) <-> j < m /\ keq (lk i) (rk j) = true.
Proof. unfold Join.matches_of. rewrite filter_In, in_seq. split; intros [H1 H2]; split; try lia; exact H2. Qed.

Lemma in_left_rows_of i a b :
  In (a, b) (left_rows_of i) <->
  a = Some i /\ ((exists j, b = Some j /\ j < m /\ keq (lk i) (rk j) = true) \/
                 (b = None /\ forall j, j < m -> keq (lk i) (rk j) = false)).
Proof.
  unfold Join.left_rows_of. destruct (matches_of i) as [|j0 js] eqn:E.
  - assert (Hall : forall j, j < m -> keq (lk i) (rk j) = false).
    { intros j Hj. unfold Join.matches_of in E. rewrite filter_nil_iff in E. apply E. apply in_seq. lia. }
    cbn [In]. split.
    + intros [H|[]]. inversion H; subst. split; [reflexivity|]. right. split; [reflexivity|exact Hall].
    + intros [-> [[j [-> [Hj Hk]]]|[-> _]]]; [|left; reflexivity].
      rewrite (Hall j Hj) in Hk. discriminate.
  - rewrite <- E. unfold pair_with. rewrite in_map_iff. split.
    + intros [j [H Hin]]. inversion H; subst. split; [reflexivity|]. left. exists j.
      split; [reflexivity|]. apply in_matches_of. exact Hin.
    + intros [-> [[j [-> Hj]]|[-> Hall]]].
      * exists j. split; [reflexivity|]. apply in_matches_of. exact Hj.
      * exfalso. assert (Hin : In j0 (matches_of i)) by (rewrite E; left; reflexivity).
        apply in_matches_of in Hin. destruct Hin as [Hj Hk]. rewrite (Hall j0 Hj) in Hk. discriminate.
Qed.

Lemma left_rows_of_nonempty i : left_rows_of i <> [].
Proof. unfold Join.left_rows_of. destruct (matches_of i); discriminate. Qed.

Lemma in_left_pairs a b :
  In (a, b) (left_pairs keq n m lk rk) <->
  exists i, i < n /\ a = Some i /\
    ((exists j, b = Some j /\ j < m /\ keq (lk i) (rk j) = true) \/
     (b = None /\ forall j, j < m -> keq (lk i) (rk j) = false)).
Proof.
  unfold left_pairs. rewrite in_flat_map. split.
  - intros [i [Hi Hin]]. apply in_seq in Hi. apply in_left_rows_of in Hin. exists i. split; [lia|exact Hin].
  - intros [i [Hi Hin]]. exists i. split; [apply in_seq; lia|]. apply in_left_rows_of. exact Hin.
Qed.

Lemma in_right_unmatched j :
  In j (right_unmatched keq n m lk rk) <-> j < m /\ forall i, i < n -> keq (lk i) (rk j) = false.
Proof.
  unfold right_unmatched, right_matched. rewrite filter_In, in_seq, negb_true_iff. split.
  - intros [Hj He]. split; [lia|]. intros i Hi.
    destruct (keq (lk i) (rk j)) eqn:Ek; [|reflexivity].
    assert (Ht : existsb (fun i0 => keq (lk i0) (rk j)) (seq 0 n) = true)
      by (apply existsb_exists; exists i; split; [apply in_seq; lia|exact Ek]).
    rewrite Ht in He. discriminate.
  - intros [Hj Hall]. split; [lia|].
    destruct (existsb (fun i0 => keq (lk i0) (rk j)) (seq 0 n)) eqn:Ee; [|reflexivity].
    apply existsb_exists in Ee. destruct Ee as [i [Hi Hk]]. apply in_seq in Hi.
    rewrite Hall in Hk by lia. discriminate.
Qed.

(* membership in the full join's row pairs, symmetric in the two sides *)
Definition full_mem (a b : option nat) : Prop :=
  (exists i j, a = Some i /\ b = Some j /\ i < n /\ j < m /\ keq (lk i) (rk j) = true) \/
  (exists i, a = Some i /\ b = None /\ i < n /\ forall j, j < m -> keq (lk i) (rk j) = false) \/
  (exists j, a = None /\ b = Some j /\ j < m /\ forall i, i < n -> keq (lk i) (rk j) = false).

Lemma in_full_pairs a b : In (a, b) (full_pairs keq n m lk rk) <-> full_mem a b.
Proof.
  unfold full_pairs, full_mem. rewrite in_app_iff, in_left_pairs, in_map_iff. split.
  - intros [[i [Hi [-> [[j [-> [Hj Hk]]]|[-> Hall]]]]]|[j [H Hin]]].
    + left. exists i, j. auto.
    + right. left. exists i. auto.
    + inversion H; subst. apply in_right_unmatched in Hin. right. right. exists j.
      split; [reflexivity|]. split; [reflexivity|exact Hin].
  - intros [[i [j [-> [-> [Hi [Hj Hk]]]]]]|[[i [-> [-> [Hi Hall]]]]|[j [-> [-> Hj]]]]].
    + left. exists i. split; [exact Hi|]. split; [reflexivity|]. left. exists j. auto.
    + left. exists i. split; [exact Hi|]. split; [reflexivity|]. right. auto.
    + right. exists j. split; [reflexivity|]. apply in_right_unmatched. exact Hj.
Qed.

(* every left row appears in the left join (hence in the full join) *)
Theorem left_keeps_every_left_row i : i < n -> exists oj, In (Some i, oj) (left_pairs keq n m lk rk).
Proof.
  intros Hi. destruct (left_rows_of i) as [|[a b] t] eqn:E; [exfalso; exact (left_rows_of_nonempty i E)|].
  assert (Hin : In (a, b) (left_rows_of i)) by (rewrite E; left; reflexivity).
  pose proof (proj1 (in_left_rows_of i a b) Hin) as [-> _].
  exists b. unfold left_pairs. apply in_flat_map. exists i. split; [apply in_seq; lia|exact Hin].
Qed.

(* every row of both tables appears in the full join *)
Theorem full_keeps_every_row :
  (forall i, i < n -> exists oj, In (Some i, oj) (full_pairs keq n m lk rk)) /\
  (forall j, j < m -> exists oi, In (oi, Some j) (full_pairs keq n m lk rk)).
Proof.
  split.
  - intros i Hi. destruct (left_keeps_every_left_row i Hi) as [oj H]. exists oj.
    unfold full_pairs. apply in_or_app. left. exact H.
  - intros j Hj. destruct (right_matched keq n lk rk j) eqn:E.
    + unfold right_matched in E. apply existsb_exists in E. destruct E as [i [Hi Hk]]. apply in_seq in Hi.
      exists (Some i). apply in_full_pairs. left. exists i, j. repeat split; try lia; auto.
    + exists None. unfold full_pairs. apply in_or_app. right. apply in_map_iff. exists j. split; [reflexivity|].
      unfold right_unmatched. apply filter_In. split; [apply in_seq; lia|]. rewrite E. reflexivity.
Qed.

(* a left row without a match appears exactly once, padded; with matches, once per match *)
Theorem left_rows_per_left_row i :
  filter (fun p => match fst p with Some i' => Nat.eqb i' i | None => false end) (left_rows_of i)
  = left_rows_of i.
Proof.
  apply filter_all_id. intros [a b] Hin.
  apply in_left_rows_of in Hin. destruct Hin as [-> _]. cbn. apply Nat.eqb_refl.
Qed.

(* inner is contained in left is contained in full, order preserved *)
Theorem inner_sub_left_sub_full :
  sublist (inner_pairs keq n m lk rk) (left_pairs keq n m lk rk) /\
  sublist (left_pairs keq n m lk rk) (full_pairs keq n m lk rk).
Proof.
  split.
  - unfold inner_pairs, left_pairs. apply sublist_flat_map. intros i.
    unfold Join.left_rows_of. destruct (matches_of i); [apply sublist_nil|apply sublist_refl].
  - unfold full_pairs. rewrite <- (app_nil_r (left_pairs keq n m lk rk)) at 1.
    apply sublist_app; [apply sublist_refl|apply sublist_nil].
Qed.

(* the rows the left join adds to the inner join are exactly the padded unmatched left rows,
   the rows the full join adds to the left join are exactly the padded unmatched right rows *)
Theorem left_minus_inner :
  filter (fun p => match snd p with None => false | Some _ => true end) (left_pairs keq n m lk rk)
  = inner_pairs keq n m lk rk.
Proof.
  unfold left_pairs, inner_pairs. induction (seq 0 n) as [|i l IH]; [reflexivity|].
  change (flat_map left_rows_of (i :: l)) with (left_rows_of i ++ flat_map left_rows_of l).
  change (flat_map (fun i0 => pair_with i0 (matches_of i0)) (i :: l))
    with (pair_with i (matches_of i) ++ flat_map (fun i0 => pair_with i0 (matches_of i0)) l).
  rewrite filter_app. f_equal; [|exact IH]. unfold Join.left_rows_of.
  destruct (matches_of i) as [|j js]; [reflexivity|].
  apply filter_all_id. intros p Hp. unfold pair_with in Hp.
  apply in_map_iff in Hp. destruct Hp as [j' [<- _]]. reflexivity.
Qed.

Lemma NoDup_left_pairs : NoDup (left_pairs keq n m lk rk).
Proof.
  unfold left_pairs. apply NoDup_flat_map.
  - apply seq_NoDup.
  - intros i _. unfold Join.left_rows_of. destruct (matches_of i) as [|j js] eqn:E.
    + constructor; [intros []|constructor].
    + rewrite <- E. unfold pair_with. apply NoDup_map_inj; [intros x y H; inversion H; reflexivity|].
      unfold Join.matches_of. apply NoDup_filter. apply seq_NoDup.
  - intros x y [a b] _ _ Hx Hy. apply in_left_rows_of in Hx. apply in_left_rows_of in Hy.
    destruct Hx as [-> _]. destruct Hy as [Hy _]. inversion Hy. reflexivity.
Qed.

Lemma NoDup_full_pairs : NoDup (full_pairs keq n m lk rk).
Proof.
  unfold full_pairs. apply NoDup_app.
  - apply NoDup_left_pairs.
  - apply NoDup_map_inj; [intros x y H; inversion H; reflexivity|].
    unfold right_unmatched. apply NoDup_filter. apply seq_NoDup.
  - intros [a b] Hl Hr. apply in_left_pairs in Hl. destruct Hl as [i [_ [-> _]]].
    apply in_map_iff in Hr. destruct Hr as [j [H _]]. discriminate H.
Qed.
End OneSide.

Hypothesis keq_sym : forall a b, keq a b = keq b a.

Lemma full_mem_swap n m lk rk a b : full_mem n m lk rk a b <-> full_mem m n rk lk b a.
Proof.
  unfold full_mem. split.
  - intros [[i [j [-> [-> [Hi [Hj Hk]]]]]]|[[i [-> [-> [Hi Hall]]]]|[j [-> [-> [Hj Hall]]]]]].
    + left. exists j, i. rewrite keq_sym. auto.
    + right. right. exists i. repeat split; auto. intros j Hj. rewrite keq_sym. auto.
    + right. left. exists j. repeat split; auto. intros i Hi. rewrite keq_sym. auto.
  - intros [[j [i [-> [-> [Hj [Hi Hk]]]]]]|[[j [-> [-> [Hj Hall]]]]|[i [-> [-> [Hi Hall]]]]]].
    + left. exists i, j. rewrite keq_sym. auto.
    + right. right. exists j. repeat split; auto. intros i Hi. rewrite keq_sym. auto.
    + right. left. exists i. repeat split; auto. intros j Hj. rewrite keq_sym. auto.
Qed.

(* swapping the tables of a full join gives the same row pairs up to row order *)
Theorem full_join_symmetric n m lk rk :
  Permutation (map swap_pair (full_pairs keq n m lk rk)) (full_pairs keq m n rk lk).
Proof.
  apply NoDup_Permutation.
  - apply NoDup_map_inj; [|apply NoDup_full_pairs].
    intros [a b] [c d] H. unfold swap_pair in H. cbn in H. inversion H. reflexivity.
  - apply NoDup_full_pairs.
  - intros [a b]. rewrite in_full_pairs, in_map_iff. split.
    + intros [[c d] [H Hin]]. unfold swap_pair in H. cbn in H. inversion H; subst.
      apply in_full_pairs in Hin. apply full_mem_swap. exact Hin.
    + intros H. exists (b, a). split; [reflexivity|]. apply in_full_pairs. apply full_mem_swap. exact H.
Qed.
End PairFacts.

(* ================================================================== *)
(* The column-major result buffers hold, row by row, left cells then right cells. *)
Section Materialize.
Variable V : Type.
Notation cell := (cell V).
Variables (L R : table V).

(* one reader per output column: which cell of a row pair goes there *)
Definition getters : list (rowpair -> cell) :=
  map (fun c p => pad_get c (fst p)) L ++ map (fun c p => pad_get c (snd p)) R.

Lemma getters_length : List.length getters = List.length L + List.length R.
Proof. unfold getters. rewrite app_length, !map_length. reflexivity. Qed.

Lemma emit_cells_getters p : emit_cells V L R p = map (fun g => g p) getters.
Proof.
  unfold emit_cells, getters. rewrite map_app, !map_map. f_equal.
  - destruct (fst p); [reflexivity|]. symmetry. exact (map_const_repeat None L).
  - destruct (snd p); [reflexivity|]. symmetry. exact (map_const_repeat None R).
Qed.

Lemma out_row_getters p : out_row L R p = map (fun g => g p) getters.
Proof. unfold out_row, getters. rewrite map_app, !map_map. reflexivity. Qed.

Lemma append_cells_cols (G : list (rowpair -> cell)) ps0 p :
  append_cells V (map (fun g => map g ps0) G) (map (fun g => g p) G)
  = map (fun g => map g (ps0 ++ [p])) G.
Proof.
  unfold append_cells. rewrite combine_map_map, map_map. apply map_ext. intros g.
  cbn [fst snd]. rewrite map_app. reflexivity.
Qed.

Lemma materialize_from ps : forall ps0,
  fold_left (fun bufs p => append_cells V bufs (emit_cells V L R p)) ps
            (map (fun g => map g ps0) getters)
  = map (fun g => map g (ps0 ++ ps)) getters.
Proof.
  induction ps as [|p ps IH]; intros ps0; cbn [fold_left].
  - rewrite app_nil_r. reflexivity.
  - rewrite emit_cells_getters, append_cells_cols, IH, <- app_assoc. reflexivity.
Qed.

(* column c of the buffers = the c-th reader mapped over the emitted row pairs *)
Lemma materialize_spec ps : materialize V L R ps = map (fun g => map g ps) getters.
Proof.
  unfold materialize.
  assert (H : repeat [] (List.length L + List.length R) = map (fun g : rowpair -> cell => map g []) getters).
  { cbn [map]. rewrite map_const_repeat, getters_length. reflexivity. }
  rewrite H. apply (materialize_from ps []).
Qed.

Lemma row_of_combine (names : list (option string)) : forall (cols : list (list cell)) r,
  List.length names = List.length cols ->
  row_of (combine names cols) r = map (fun c => nth r c None) cols.
Proof.
  induction names as [|x names IH]; intros [|c cols] r H; cbn in *; try discriminate; [reflexivity|].
  f_equal. apply IH. lia.
Qed.

(* the table the property describes for a list of row pairs *)
Definition spec_table (ps : list rowpair) : out_table V :=
  match ps with
  | [] => []
  | _ => wrap V L R (materialize V L R ps)
  end.

Theorem spec_table_holds ps : holds_rows L R (spec_table ps) ps.
Proof.
  destruct ps as [|p0 ps']; [reflexivity|].
  unfold spec_table, holds_rows. set (ps := p0 :: ps').
  assert (Hlen : List.length (map cname L ++ map cname R) = List.length (materialize V L R ps)).
  { rewrite materialize_spec, map_length, getters_length.
    rewrite app_length, !map_length. reflexivity. }
  split; [|split].
  - unfold wrap, out_names. apply map_fst_combine. exact Hlen.
  - apply Forall_forall. intros [nm c] Hin. unfold wrap in Hin. apply in_combine_r in Hin.
    rewrite materialize_spec in Hin. apply in_map_iff in Hin. destruct Hin as [g [<- _]].
    cbn [snd]. apply map_length.
  - intros r Hr. unfold wrap. rewrite (row_of_combine _ _ r Hlen).
    rewrite materialize_spec, map_map, out_row_getters.
    apply map_ext. intros g.
    rewrite (nth_indep (map g ps) None (g (None, None))) by (rewrite map_length; exact Hr).
    apply map_nth.
Qed.

Lemma all_empty_cols (G : list (rowpair -> cell)) ps :
  all_empty V (map (fun g => map g ps) G) =
  match ps, G with
  | [], _ => true
  | _, [] => true
  | _, _ => false
  end.
Proof.
  destruct ps as [|p ps].
  - induction G as [|g G IH]; [reflexivity|]. unfold all_empty in *. cbn [map forallb List.length]. exact IH.
  - destruct G as [|g G]; reflexivity.
Qed.

Lemma getters_nil : getters = [] -> L = [] /\ R = [].
Proof.
  unfold getters. intros H. apply app_eq_nil in H. destruct H as [H1 H2].
  apply map_eq_nil in H1. apply map_eq_nil in H2. auto.
Qed.
End Materialize.

Arguments spec_table {V} _ _ _.

(* ================================================================== *)
(* The three functions, characterised completely. *)
Section Tables.
Variable V : Type.
Variable veq : V -> V -> bool.
Hypothesis veq_refl : forall a, veq a a = true.
Hypothesis veq_sym : forall a b, veq a b = veq b a.
Hypothesis veq_trans : forall a b c, veq a b = true -> veq b c = true -> veq a c = true.
Notation keq := (keq V veq).

Lemma left_pairs_nil {K} (kq : K -> K -> bool) n m lk rk : left_pairs kq n m lk rk = [] <-> n = 0.
Proof.
  split.
  - destruct n as [|n]; [reflexivity|]. unfold left_pairs. cbn [seq flat_map]. intros H.
    apply app_eq_nil in H. destruct H as [H _]. exfalso. exact (left_rows_of_nonempty K kq m lk rk 0 H).
  - intros ->. reflexivity.
Qed.

Lemma full_pairs_nil {K} (kq : K -> K -> bool) n m lk rk :
  full_pairs kq n m lk rk = [] <-> n = 0 /\ m = 0.
Proof.
  unfold full_pairs. split.
  - intros H. apply app_eq_nil in H. destruct H as [H1 H2]. apply left_pairs_nil in H1. subst n.
    split; [reflexivity|]. destruct m as [|m]; [reflexivity|]. discriminate H2.
  - intros [-> ->]. reflexivity.
Qed.

(* what every join does around its row computation *)
Definition join_outcome (pairs_of : nat -> nat -> (nat -> key V) -> (nat -> key V) -> list rowpair)
           (e : string) (L R : table V) (lon ron : list (kspec V)) : result (out_table V) :=
  if negb (valid_expect e) then Err EValue
  else match validate_join_keys V L R lon ron with
  | Err x => Err x
  | Ok prs =>
      let n := nrows L in let m := nrows R in
      let lk := keys_l V prs in let rk := keys_r V prs in
      if refuses V veq e n m lk rk then Err EValue
      else Ok (spec_table L R (pairs_of n m lk rk))
  end.

Theorem inner_join_spec e L R lon ron :
  inner_join V veq e L R lon ron = join_outcome (inner_pairs keq) e L R lon ron.
Proof.
  unfold inner_join, join_outcome. rewrite expect_ok_valid.
  destruct (valid_expect e); cbn [negb]; [|reflexivity].
  destruct (validate_join_keys V L R lon ron) as [prs|x]; [|reflexivity]. cbv zeta.
  rewrite (inner_rows_spec V veq) by assumption.
  destruct (refuses V veq e (nrows L) (nrows R) (keys_l V prs) (keys_r V prs)); [reflexivity|].
  unfold spec_table. rewrite !materialize_spec, all_empty_cols.
  destruct (inner_pairs keq (nrows L) (nrows R) (keys_l V prs) (keys_r V prs)) as [|p ps] eqn:Ep; [reflexivity|].
  destruct (getters V L R) as [|g G] eqn:EG; [|reflexivity].
  exfalso. apply getters_nil in EG. destruct EG as [-> ->]. discriminate Ep.
Qed.

Theorem left_join_spec e L R lon ron :
  left_join V veq e L R lon ron = join_outcome (left_pairs keq) e L R lon ron.
Proof.
  unfold left_join, join_outcome. rewrite expect_ok_valid.
  destruct (valid_expect e); cbn [negb]; [|reflexivity].
  destruct (validate_join_keys V L R lon ron) as [prs|x]; [|reflexivity]. cbv zeta.
  rewrite (left_rows_spec V veq) by assumption.
  destruct (refuses V veq e (nrows L) (nrows R) (keys_l V prs) (keys_r V prs)); [reflexivity|].
  unfold spec_table.
  destruct (left_pairs keq (nrows L) (nrows R) (keys_l V prs) (keys_r V prs)) as [|p ps] eqn:Ep.
  - apply left_pairs_nil in Ep. rewrite Ep. reflexivity.
  - destruct (nrows L =? 0) eqn:En; [|reflexivity].
    apply Nat.eqb_eq in En. apply (left_pairs_nil keq _ (nrows R) (keys_l V prs) (keys_r V prs)) in En.
    rewrite En in Ep. discriminate Ep.
Qed.

Theorem full_join_spec e L R lon ron :
  full_join V veq e L R lon ron = join_outcome (full_pairs keq) e L R lon ron.
Proof.
  unfold full_join, join_outcome. rewrite expect_ok_valid.
  destruct (valid_expect e); cbn [negb]; [|reflexivity].
  destruct (validate_join_keys V L R lon ron) as [prs|x]; [|reflexivity]. cbv zeta.
  rewrite (full_rows_spec V veq) by assumption.
  destruct (refuses V veq e (nrows L) (nrows R) (keys_l V prs) (keys_r V prs)); [reflexivity|].
  unfold spec_table.
  destruct (full_pairs keq (nrows L) (nrows R) (keys_l V prs) (keys_r V prs)) as [|p ps] eqn:Ep.
  - apply full_pairs_nil in Ep. destruct Ep as [-> ->]. reflexivity.
  - destruct ((nrows L =? 0) && (nrows R =? 0)) eqn:En; [|reflexivity].
    apply andb_true_iff in En. destruct En as [E1 E2]. apply Nat.eqb_eq in E1. apply Nat.eqb_eq in E2.
    assert (H : full_pairs keq (nrows L) (nrows R) (keys_l V prs) (keys_r V prs) = [])
      by (apply full_pairs_nil; auto).
    rewrite H in Ep. discriminate Ep.
Qed.

(* ---- consequences shared by the three joins, stated once over [join_outcome] ---- *)

Section Outcome.
Variable pairs_of : nat -> nat -> (nat -> key V) -> (nat -> key V) -> list rowpair.
Variables (L R : table V) (lon ron : list (kspec V)).

Lemma outcome_bad_expect e : valid_expect e = false -> join_outcome pairs_of e L R lon ron = Err EValue.
Proof. intros H. unfold join_outcome. rewrite H. reflexivity. Qed.

Lemma outcome_invalid_keys e x :
  valid_expect e = true -> validate_join_keys V L R lon ron = Err x ->
  join_outcome pairs_of e L R lon ron = Err x.
Proof. intros H1 H2. unfold join_outcome. rewrite H1, H2. reflexivity. Qed.

Lemma outcome_raises_iff e prs :
  valid_expect e = true -> validate_join_keys V L R lon ron = Ok prs ->
  (join_outcome pairs_of e L R lon ron = Err EValue <->
   (needs_right_unique e = true /\ has_duplicate keq (nrows R) (keys_r V prs)) \/
   (needs_left_unique e = true /\ has_duplicate keq (nrows L) (keys_l V prs))).
Proof.
  intros H1 H2. unfold join_outcome. rewrite H1, H2. cbn [negb]. cbv zeta.
  rewrite <- (refuses_iff V veq) by assumption.
  destruct (refuses V veq e (nrows L) (nrows R) (keys_l V prs) (keys_r V prs)).
  - split; reflexivity.
  - split; discriminate.
Qed.

Lemma outcome_refines e prs :
  valid_expect e = true -> validate_join_keys V L R lon ron = Ok prs ->
  (needs_right_unique e = true -> ~ has_duplicate keq (nrows R) (keys_r V prs)) ->
  (needs_left_unique e = true -> ~ has_duplicate keq (nrows L) (keys_l V prs)) ->
  exists T, join_outcome pairs_of e L R lon ron = Ok T /\
            holds_rows L R T (pairs_of (nrows L) (nrows R) (keys_l V prs) (keys_r V prs)).
Proof.
  intros H1 H2 Hr Hl. unfold join_outcome. rewrite H1, H2. cbn [negb]. cbv zeta.
  destruct (refuses V veq e (nrows L) (nrows R) (keys_l V prs) (keys_r V prs)) eqn:E.
  - exfalso. apply (refuses_iff V veq) in E; [|assumption..].
    destruct E as [[E1 E2]|[E1 E2]]; [exact (Hr E1 E2)|exact (Hl E1 E2)].
  - eexists. split; [reflexivity|]. apply spec_table_holds.
Qed.

Lemma outcome_same_as_m2m e :
  valid_expect e = true ->
  (forall prs, validate_join_keys V L R lon ron = Ok prs ->
     (needs_right_unique e = true -> ~ has_duplicate keq (nrows R) (keys_r V prs)) /\
     (needs_left_unique e = true -> ~ has_duplicate keq (nrows L) (keys_l V prs))) ->
  join_outcome pairs_of e L R lon ron = join_outcome pairs_of "many_to_many" L R lon ron.
Proof.
  intros H1 Hexp. unfold join_outcome. rewrite H1. cbn [negb].
  change (valid_expect "many_to_many") with true. cbn [negb].
  destruct (validate_join_keys V L R lon ron) as [prs|x]; [|reflexivity]. cbv zeta.
  destruct (Hexp prs eq_refl) as [Hr Hl].
  change (refuses V veq "many_to_many" (nrows L) (nrows R) (keys_l V prs) (keys_r V prs)) with false.
  destruct (refuses V veq e (nrows L) (nrows R) (keys_l V prs) (keys_r V prs)) eqn:E; [|reflexivity].
  exfalso. apply (refuses_iff V veq) in E; [|assumption..].
  destruct E as [[E1 E2]|[E1 E2]]; [exact (Hr E1 E2)|exact (Hl E1 E2)].
Qed.
End Outcome.

End Tables.

(* ================================================================== *)
(* Closed statements used by Props/C09.v, C10.v, C11.v. *)

Lemma keq_equivalence V (veq : V -> V -> bool) : eq_equivalence veq -> eq_equivalence (keq V veq).
Proof.
  intros [Hr [Hs Ht]]. split; [|split].
  - apply keq_refl. exact Hr.
  - intros a b. apply keq_sym. exact Hs.
  - intros a b c. apply keq_trans. exact Ht.
Qed.

Lemma index_lookup_closed V (veq : V -> V -> bool) : eq_equivalence veq ->
  forall st chk (rk : nat -> key V) m q,
  match dict_get V veq (fst (build_index V veq st chk rk m)) q with
  | Some b => b
  | None => []
  end = filter (fun j => keq V veq q (rk j)) (seq 0 m).
Proof. intros [Hr [Hs Ht]] st chk rk m q. apply (index_lookup V veq); assumption. Qed.

Lemma rows_refine_closed V (veq : V -> V -> bool) : eq_equivalence veq ->
  forall e n m lk rk ps,
  (inner_rows V veq e n m lk rk = Ok ps -> ps = inner_pairs (keq V veq) n m lk rk) /\
  (left_rows V veq e n m lk rk = Ok ps -> ps = left_pairs (keq V veq) n m lk rk) /\
  (full_rows V veq e n m lk rk = Ok ps -> ps = full_pairs (keq V veq) n m lk rk).
Proof.
  intros [Hr [Hs Ht]] e n m lk rk ps.
  rewrite (inner_rows_spec V veq), (left_rows_spec V veq), (full_rows_spec V veq) by assumption.
  destruct (refuses V veq e n m lk rk); repeat split; intros H; try discriminate H; inversion H; reflexivity.
Qed.

Section ClosedJoin.
Variable V : Type.
Variable veq : V -> V -> bool.
Hypothesis Heq : eq_equivalence veq.

Let Hr := proj1 Heq.
Let Hs := proj1 (proj2 Heq).
Let Ht := proj2 (proj2 Heq).

Definition expectation_met (e : string) (L R : table V) (prs : list (column V * column V)) : Prop :=
  (needs_right_unique e = true -> ~ has_duplicate (keq V veq) (nrows R) (keys_r V prs)) /\
  (needs_left_unique e = true -> ~ has_duplicate (keq V veq) (nrows L) (keys_l V prs)).

Definition expectation_broken (e : string) (L R : table V) (prs : list (column V * column V)) : Prop :=
  (needs_right_unique e = true /\ has_duplicate (keq V veq) (nrows R) (keys_r V prs)) \/
  (needs_left_unique e = true /\ has_duplicate (keq V veq) (nrows L) (keys_l V prs)).

Lemma inner_join_refines_closed e L R lon ron prs :
  valid_expect e = true -> validate_join_keys V L R lon ron = Ok prs -> expectation_met e L R prs ->
  exists T, inner_join V veq e L R lon ron = Ok T /\
    holds_rows L R T (inner_pairs (keq V veq) (nrows L) (nrows R) (keys_l V prs) (keys_r V prs)).
Proof.
  intros H1 H2 [H3 H4]. rewrite (inner_join_spec V veq) by assumption.
  apply (outcome_refines V veq); assumption.
Qed.

Lemma left_join_refines_closed e L R lon ron prs :
  valid_expect e = true -> validate_join_keys V L R lon ron = Ok prs -> expectation_met e L R prs ->
  exists T, left_join V veq e L R lon ron = Ok T /\
    holds_rows L R T (left_pairs (keq V veq) (nrows L) (nrows R) (keys_l V prs) (keys_r V prs)).
Proof.
  intros H1 H2 [H3 H4]. rewrite (left_join_spec V veq) by assumption.
  apply (outcome_refines V veq); assumption.
Qed.

Lemma full_join_refines_closed e L R lon ron prs :
  valid_expect e = true -> validate_join_keys V L R lon ron = Ok prs -> expectation_met e L R prs ->
  exists T, full_join V veq e L R lon ron = Ok T /\
    holds_rows L R T (full_pairs (keq V veq) (nrows L) (nrows R) (keys_l V prs) (keys_r V prs)).
Proof.
  intros H1 H2 [H3 H4]. rewrite (full_join_spec V veq) by assumption.
  apply (outcome_refines V veq); assumption.
Qed.

Lemma expect_raises_iff_closed e L R lon ron prs :
  valid_expect e = true -> validate_join_keys V L R lon ron = Ok prs ->
  (inner_join V veq e L R lon ron = Err EValue <-> expectation_broken e L R prs) /\
  (left_join V veq e L R lon ron = Err EValue <-> expectation_broken e L R prs) /\
  (full_join V veq e L R lon ron = Err EValue <-> expectation_broken e L R prs).
Proof.
  intros H1 H2.
  rewrite (inner_join_spec V veq), (left_join_spec V veq), (full_join_spec V veq) by assumption.
  repeat split; apply (outcome_raises_iff V veq); assumption.
Qed.

Lemma bad_expect_rejected_closed e L R lon ron :
  valid_expect e = false ->
  inner_join V veq e L R lon ron = Err EValue /\
  left_join V veq e L R lon ron = Err EValue /\
  full_join V veq e L R lon ron = Err EValue.
Proof.
  intros H.
  rewrite (inner_join_spec V veq), (left_join_spec V veq), (full_join_spec V veq) by assumption.
  repeat split; apply outcome_bad_expect; exact H.
Qed.

Lemma expect_ok_same_closed e L R lon ron :
  valid_expect e = true ->
  (forall prs, validate_join_keys V L R lon ron = Ok prs -> expectation_met e L R prs) ->
  inner_join V veq e L R lon ron = inner_join V veq "many_to_many" L R lon ron /\
  left_join V veq e L R lon ron = left_join V veq "many_to_many" L R lon ron /\
  full_join V veq e L R lon ron = full_join V veq "many_to_many" L R lon ron.
Proof.
  intros H1 H2.
  rewrite !(inner_join_spec V veq), !(left_join_spec V veq), !(full_join_spec V veq) by assumption.
  repeat split; apply (outcome_same_as_m2m V veq); assumption.
Qed.

(* a refused key specification is refused whatever the (valid) expectation, with the same error *)
Lemma invalid_keys_closed e L R lon ron x :
  valid_expect e = true -> validate_join_keys V L R lon ron = Err x ->
  inner_join V veq e L R lon ron = Err x /\
  left_join V veq e L R lon ron = Err x /\
  full_join V veq e L R lon ron = Err x.
Proof.
  intros H1 H2.
  rewrite (inner_join_spec V veq), (left_join_spec V veq), (full_join_spec V veq) by assumption.
  repeat split; apply outcome_invalid_keys; assumption.
Qed.
End ClosedJoin.

(* rows of the output: explicit reading of [out_row] *)
Lemma out_row_matched {V} (L R : table V) i j :
  out_row L R (Some i, Some j) = map (fun c => cell_at c i) L ++ map (fun c => cell_at c j) R.
Proof. reflexivity. Qed.
Lemma out_row_left_only {V} (L R : table V) i :
  out_row L R (Some i, None) = map (fun c => cell_at c i) L ++ repeat None (List.length R).
Proof. unfold out_row. cbn [fst snd pad_get]. rewrite (map_const_repeat None R). reflexivity. Qed.
Lemma out_row_right_only {V} (L R : table V) j :
  out_row L R (None, Some j) = repeat None (List.length L) ++ map (fun c => cell_at c j) R.
Proof. unfold out_row. cbn [fst snd pad_get]. rewrite (map_const_repeat None L). reflexivity. Qed.

(* the specification determines the output table completely *)
Lemma holds_rows_unique {V} (L R : table V) ps : forall T T',
  holds_rows L R T ps -> holds_rows L R T' ps -> T = T'.
Proof.
  destruct ps as [|p0 ps']; [intros T T' -> ->; reflexivity|].
  set (ps := p0 :: ps'). unfold holds_rows. fold ps.
  intros T T' [Hn [Hl Hrow]] [Hn' [Hl' Hrow']].
  assert (Hrows : forall r, r < List.length ps -> row_of T r = row_of T' r)
    by (intros r Hlt; rewrite Hrow, Hrow' by exact Hlt; reflexivity).
  rewrite <- Hn' in Hn. clear Hn' Hrow Hrow'. revert T' Hn Hl' Hrows.
  induction T as [|[nm c] T IH]; intros [|[nm' c'] T'] Hn Hl' Hrows; cbn in Hn; try discriminate; [reflexivity|].
  inversion Hn; subst. inversion Hl as [|x l Hc HlT]; subst. inversion Hl' as [|x' l' Hc' HlT']; subst.
  cbn [snd] in Hc, Hc'. f_equal.
  - f_equal. apply (nth_ext _ _ None None); [transitivity (List.length ps); [exact Hc|symmetry; exact Hc']|].
    intros r Hlt. assert (Hlt' : r < List.length ps) by (rewrite <- Hc; exact Hlt). specialize (Hrows r Hlt'). unfold row_of in Hrows. cbn in Hrows.
    inversion Hrows. reflexivity.
  - apply IH; auto. intros r Hlt. specialize (Hrows r Hlt). unfold row_of in *. cbn in Hrows.
    inversion Hrows. reflexivity.
Qed.

Lemma expect_table :
  (needs_left_unique "one_to_one", needs_right_unique "one_to_one") = (true, true) /\
  (needs_left_unique "many_to_one", needs_right_unique "many_to_one") = (false, true) /\
  (needs_left_unique "one_to_many", needs_right_unique "one_to_many") = (true, false) /\
  (needs_left_unique "many_to_many", needs_right_unique "many_to_many") = (false, false) /\
  forall e, valid_expect e = true <->
            e = "one_to_one"%string \/ e = "many_to_one"%string \/
            e = "one_to_many"%string \/ e = "many_to_many"%string.
Proof.
  repeat split; try reflexivity.
  - unfold valid_expect. rewrite !orb_true_iff, !String.eqb_eq. tauto.
  - unfold valid_expect. rewrite !orb_true_iff, !String.eqb_eq. tauto.
Qed.

(* ================================================================== *)
(* Order of the inner join's rows: by left position, then by right position. *)
From Coq Require Import Sorted.

Lemma SS_app {A} (R : A -> A -> Prop) a b :
  StronglySorted R a -> StronglySorted R b -> (forall x y, In x a -> In y b -> R x y) ->
  StronglySorted R (a ++ b).
Proof.
  induction a as [|x a IH]; intros Ha Hb Hab; simpl; [exact Hb|].
  inversion Ha as [|x' a' Ha' Hx]; subst. constructor.
  - apply IH; [exact Ha'|exact Hb|]. intros u v Hu Hv. apply Hab; [right; exact Hu|exact Hv].
  - apply Forall_app. split; [exact Hx|]. apply Forall_forall. intros y Hy. apply Hab; [left; reflexivity|exact Hy].
Qed.

Lemma SS_seq s n : StronglySorted lt (seq s n).
Proof.
  revert s. induction n as [|n IH]; intros s; simpl; constructor; [apply IH|].
  apply Forall_forall. intros y Hy. apply in_seq in Hy. lia.
Qed.

Lemma SS_filter {A} (R : A -> A -> Prop) f l : StronglySorted R l -> StronglySorted R (filter f l).
Proof.
  intros H. induction H as [|x l Hl IH Hx]; simpl; [constructor|].
  destruct (f x); [|exact IH]. constructor; [exact IH|].
  apply Forall_forall. intros y Hy. apply filter_In in Hy. rewrite Forall_forall in Hx. apply Hx. exact (proj1 Hy).
Qed.

Lemma SS_map {A B} (f : A -> B) (R : A -> A -> Prop) (R' : B -> B -> Prop) l :
  (forall x y, R x y -> R' (f x) (f y)) -> StronglySorted R l -> StronglySorted R' (map f l).
Proof.
  intros Hf H. induction H as [|x l Hl IH Hx]; simpl; constructor; [exact IH|].
  apply Forall_forall. intros y Hy. apply in_map_iff in Hy. destruct Hy as [z [<- Hz]].
  apply Hf. rewrite Forall_forall in Hx. apply Hx. exact Hz.
Qed.

Lemma SS_flat_map {B} (R' : B -> B -> Prop) (f : nat -> list B) l :
  StronglySorted lt l -> (forall i, StronglySorted R' (f i)) ->
  (forall i i' x y, i < i' -> In x (f i) -> In y (f i') -> R' x y) ->
  StronglySorted R' (flat_map f l).
Proof.
  intros Hl Hf Hd. induction Hl as [|i l Hl IH Hi]; simpl; [constructor|].
  apply SS_app; [apply Hf|exact IH|].
  intros x y Hx Hy. apply in_flat_map in Hy. destruct Hy as [i' [Hi' Hy]].
  rewrite Forall_forall in Hi. exact (Hd i i' x y (Hi i' Hi') Hx Hy).
Qed.

Theorem inner_pairs_sorted {K} (keq : K -> K -> bool) n m lk rk :
  StronglySorted pair_before (inner_pairs keq n m lk rk).
Proof.
  unfold inner_pairs. apply SS_flat_map.
  - apply SS_seq.
  - intros i. unfold pair_with. apply (SS_map _ lt).
    + intros x y Hxy. cbn. right. split; [reflexivity|exact Hxy].
    + unfold matches_of. apply SS_filter. apply SS_seq.
  - intros i i' x y Hlt Hx Hy. unfold pair_with in Hx, Hy.
    apply in_map_iff in Hx. destruct Hx as [j [<- _]].
    apply in_map_iff in Hy. destruct Hy as [j' [<- _]]. cbn. left. exact Hlt.
Qed.

Lemma holds_rows_names {V} (L R : table V) T p ps :
  holds_rows L R T (p :: ps) -> map fst T = map cname L ++ map cname R.
Proof. intros [H _]. exact H. Qed.
