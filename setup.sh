#!/bin/bash
# MANIFEST.setup_cmd — builds the Coq development from files on disk only (offline).
set -e
cd /verif/coq
(echo "-R theories Serif"; find theories -name '*.v' | sort) > _CoqProject
coq_makefile -f _CoqProject -o Makefile > /dev/null
timeout 3000 make -j16
