#!/bin/bash
# tools/seeds_sweep.sh "<seeds>" <pid...> — runs the quick checks under several VERIF_SEED values on the unchanged tree
seeds=$1; shift
for s in $seeds; do
  for p in "$@"; do
    echo "$s $p"
  done
done | xargs -P 5 -L 1 bash -c 'out=$(VERIF_SEED=$0 /verif/check $1 2>&1); echo "seed=$0 $1 exit=$? $(echo "$out" | grep -E "VIOLATION|^# C[0-9]+:" | head -3 | cut -c1-220 | tr "\n" "|")"'
