#!/bin/bash
# tools/translate_mutants.sh [patch...] — runs harness.translate against each seeded-own/T-*.patch (mutants of the
# translated kernels: the run must FAIL naming the broken gen_*_eq theorem or a TranslationError) and R-*.patch
# (semantics-preserving refactors: the run must PASS, or fail closed with a TranslationError), each in a scratch worktree.
cd /verif
ps=("$@"); [ ${#ps[@]} -eq 0 ] && ps=($(ls seeded-own/T-*.patch seeded-own/R-*.patch | sort -V))
one() {
  p=$1; n=$(basename $p .patch); wt=/tmp/wt-tr-$n
  git -C /repo worktree remove --force $wt >/dev/null 2>&1
  git -C /repo worktree add --detach $wt HEAD >/dev/null 2>&1 || { echo "$n: cannot create worktree"; return; }
  if git -C $wt apply "$(realpath $p)" 2>/dev/null; then
    out=$(SERIF_REPO=$wt /venv/bin/python -m harness.translate --line $n 2>&1 | grep -v "^WARNING conda")
  else out="$n: PATCH DOES NOT APPLY"; fi
  git -C /repo worktree remove --force $wt >/dev/null 2>&1
  echo "$out"
}
export -f one
printf '%s\n' "${ps[@]}" | xargs -P ${JOBS:-4} -I{} bash -c 'one {}' | cat
