#!/bin/bash
# tools/seed_refresh.sh [name...] — re-validates the seeded changes filed under /verif/seeded against /repo's HEAD
# (patches that no longer apply are listed: they have to be rebased by hand), 3 at a time
cd /verif
names=${@:-$(ls seeded)}
for n in $names; do
  if ! git -C /repo apply --check /verif/seeded/$n/patch.diff 2>/dev/null; then echo "DOES-NOT-APPLY $n"; continue; fi
  echo $n
done | grep -v DOES-NOT-APPLY | xargs -P 3 -I{} bash -c 'pid=$(echo {} | cut -d- -f1); /verif/tools/seed_validate.py /verif/seeded/{} {} $pid > /verif/work/sv-{}.txt 2>&1; /venv/bin/python - /verif/work/sv-{}.txt {} <<P
import json,sys
try: d=json.load(open(sys.argv[1]))
except Exception: print(sys.argv[2],"UNPARSABLE"); sys.exit()
print(sys.argv[2],"valid=",d.get("valid")," ".join(f"{p}:{c[\"caught\"]}" for p,c in d.get("checks",{}).items()))
P'
for n in $names; do git -C /repo apply --check /verif/seeded/$n/patch.diff 2>/dev/null || echo "DOES-NOT-APPLY $n"; done
