#!/bin/bash
# tools/seed_refresh.sh [name...] — re-validates the seeded changes filed under /verif/seeded against /repo's HEAD
# with the property's own quick check, 3 at a time (patches that no longer apply are listed: they have to be
# rebased by hand); afterwards run tools/seed_table.py to rewrite the table in DESIGN.md
cd /verif
names=${@:-$(ls seeded)}
for n in $names; do
  if git -C /repo apply --check /verif/seeded/$n/patch.diff 2>/dev/null; then echo $n; else echo "DOES-NOT-APPLY $n" >&2; fi
done | xargs -P ${JOBS:-5} -I{} bash -c 'pid=$(echo {} | cut -d- -f1); /verif/tools/seed_validate.py /verif/seeded/{} {} $pid > /verif/work/sv-{}.txt 2>&1; echo "{} $(grep -o "\"caught\": [a-z]*" /verif/work/sv-{}.txt | head -1) $(grep -o "\"valid\": [a-z]*" /verif/work/sv-{}.txt)"'
