#!/venv/bin/python
"""tools/seed_table.py — rewrites the table of independent seeded changes in DESIGN.md (between the markers
<!-- SEEDED-TABLE-BEGIN --> and <!-- SEEDED-TABLE-END -->) from /verif/seeded/*/meta.json."""
import json
import re
from pathlib import Path

VERIF = Path(__file__).resolve().parent.parent


def short(s, n=150):
    s = " ".join(str(s).split())
    return s if len(s) <= n else s[: n - 1] + "…"


def key(name):
    m = re.match(r"C(\d+)-(\d+)", name)
    return (int(m.group(1)), int(m.group(2)))


def cell(res):
    if not res:
        return "–"
    out = []
    for p, c in sorted(res.items()):
        if c is True:
            out.append(f"{p} caught")
        elif c is False:
            out.append(f"{p} missed")
        else:
            out.append(f"{p}: {short(c, 70)}")
    return "; ".join(out)


def main():
    rows = []
    caught_first = caught_now = total = 0
    per_round = {}

    def noinput(x):
        return isinstance(x, str) and x.startswith("caught, no failing input")
    for d in sorted((VERIF / "seeded").iterdir(), key=lambda p: key(p.name)):
        m = json.loads((d / "meta.json").read_text())
        now = {p: c.get("caught") for p, c in m.get("what_i_ran", {}).get("checks", {}).items()}
        first = m.get("first_result") or now
        own = m["breaks_property"]
        total += 1
        caught_first += bool(first.get(own) is True)
        caught_now += bool(now.get(own) is True)
        rnd = (key(d.name)[1] - 1) // 3 + 1
        pr = per_round.setdefault(rnd, [0, 0, 0, 0, 0])
        pr[0] += 1
        pr[1] += bool(first.get(own) is True)
        pr[2] += bool(now.get(own) is True)
        pr[3] += bool(any(v is True for v in now.values()))
        pr[4] += bool(noinput(first.get(own)))
        how = ""
        lines = m.get("what_i_ran", {}).get("checks", {}).get(own, {}).get("lines", [])
        for l in lines:
            if l.startswith(f"# {own}:"):
                how = short(l[len(own) + 4:], 110)
                break
        tail = [l for l in lines if l.startswith("VIOLATION")]
        if tail and tail[0].endswith("no-failing-input-found"):
            how += " (no-failing-input-found)"
        rows.append(f"| {d.name} | {short(m.get('summary'), 170)} | {short(m.get('needs_to_manifest'), 150)} | "
                    f"{cell(first)} | {cell(now)} | {how} |")
    head = ("| seed | what the change does | what it needs to manifest | first run (before strengthening) | "
            "now | how it is reported now |\n|---|---|---|---|---|---|\n")
    summary = (f"\n{total} independent changes; the property's own check caught {caught_first} of them when first run and "
               f"catches {caught_now} now (the others are caught by the check of a sibling property, see the columns).\n\n"
               + "| round | seeds | own check caught at first run, with a failing input | own check caught at first run, naming only the "
                 "broken proof / correspondence | own check catches now | some check catches now |\n|---|---|---|---|---|---|\n"
               + "".join(f"| {r} | {v[0]} | {v[1]} | {v[4]} | {v[2]} | {v[3]} |\n" for r, v in sorted(per_round.items())))
    text = head + "\n".join(rows) + "\n" + summary
    p = VERIF / "DESIGN.md"
    s = p.read_text()
    a, b = "<!-- SEEDED-TABLE-BEGIN -->", "<!-- SEEDED-TABLE-END -->"
    if a in s and b in s:
        s = s[: s.index(a) + len(a)] + "\n" + text + s[s.index(b):]
        p.write_text(s)
        print(f"DESIGN.md updated: {total} seeds, own check: {caught_first} first / {caught_now} now")
    else:
        print(text)


if __name__ == "__main__":
    main()
