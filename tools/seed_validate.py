#!/venv/bin/python
"""tools/seed_validate.py <seed dir> <name> [pid ...]

Validates a seeded change produced by an independent sub-agent (a directory holding patch.diff,
demo.py, meta.json) in a scratch worktree of /repo, then runs the registered quick checks of the
given properties (default: the property named in meta.json) against it through SERIF_REPO, and
files the change under /verif/seeded/<name>/ with what was run and what was seen.

Nothing is ever applied to /repo itself; the worktree is removed at the end."""
import json
import os
import re
import shutil
import subprocess
import sys
from pathlib import Path

VERIF = Path(__file__).resolve().parent.parent
PY = "/venv/bin/python"


def sh(cmd, **kw):
    return subprocess.run(cmd, shell=isinstance(cmd, str), capture_output=True, text=True, **kw)


def main():
    src = Path(sys.argv[1]).resolve()
    name = sys.argv[2]
    meta = json.loads((src / "meta.json").read_text())
    if "property" not in meta:                               # a directory already filed under /verif/seeded
        meta["property"] = meta["breaks_property"]
    pids = sys.argv[3:] or [meta["property"]]
    tier = os.environ.get("TIER", "quick")
    wt = Path(f"/tmp/wt-sv-{os.getpid()}")
    sh(["git", "-C", "/repo", "worktree", "add", "--detach", str(wt), "HEAD"])
    env = dict(os.environ, PYTHONPATH=str(wt / "src"), PYTHONDONTWRITEBYTECODE="1", PYTHONHASHSEED="0")
    ran = {}
    try:
        fast = os.environ.get("SEED_FAST") == "1" and (src / "meta.json").exists() and meta.get("what_i_ran", {}).get("valid")
        if fast:        # re-validation of a filed seed: the demo / test-suite facts were established when it was filed
            old_ran = meta["what_i_ran"]
            ran.update({k: old_ran[k] for k in ("demo_without_change", "touches_only_src", "pytest_with_change", "demo_with_change")
                        if k in old_ran})
        else:
            r = sh([PY, str(src / "demo.py")], env=env, cwd=str(wt), timeout=600)
            ran["demo_without_change"] = {"exit": r.returncode, "tail": (r.stdout + r.stderr)[-300:]}
        a = sh(["git", "-C", str(wt), "apply", str(src / "patch.diff")])
        ran["patch_applies"] = a.returncode == 0
        if a.returncode != 0:
            ran["apply_error"] = a.stderr[-400:]
            print(json.dumps(ran, indent=1))
            return 2
        if not fast:
            touched = sh(["git", "-C", str(wt), "status", "--porcelain"]).stdout.split("\n")
            ran["touches_only_src"] = all((not l.strip()) or l[3:].startswith("src/serif/") for l in touched)
            t = sh([PY, "-m", "pytest", "-q", "-p", "no:cacheprovider", "-x"], env=env, cwd=str(wt), timeout=900)
            ran["pytest_with_change"] = (t.stdout.strip().split("\n") or [""])[-1]
            r = sh([PY, str(src / "demo.py")], env=env, cwd=str(wt), timeout=600)
            ran["demo_with_change"] = {"exit": r.returncode, "tail": (r.stdout + r.stderr)[-600:]}
        valid = (ran["demo_without_change"]["exit"] == 0 and ran["demo_with_change"]["exit"] != 0
                 and re.search(r"\b490 passed", ran["pytest_with_change"]) is not None
                 and "failed" not in ran["pytest_with_change"] and ran["touches_only_src"])
        ran["valid"] = bool(valid)
        ran["checks"] = {}
        if valid:
            for pid in pids:
                c = sh([str(VERIF / "check"), pid, "--tier", tier], env=dict(os.environ, SERIF_REPO=str(wt), VERIF_SHRINK_BUDGET=os.environ.get("VERIF_SHRINK_BUDGET", "40")),
                       cwd=str(VERIF), timeout=3600)
                lines = [l[:400] for l in c.stdout.split("\n") if re.match(r"VIOLATION|KNOWN-FINDING|# C\d+", l)]
                ran["checks"][pid] = {"exit": c.returncode, "tier": tier, "lines": lines[:8],
                                      "caught": c.returncode == 1 and any(l.startswith("VIOLATION") for l in lines)}
                # keep the replay files of a catch next to the seed
                for l in lines:
                    m = re.match(r"VIOLATION property=\S+ replay=(\S+)", l)
                    if m and Path(m.group(1)).exists():
                        ran["checks"][pid].setdefault("replays", []).append(Path(m.group(1)).name)
    finally:
        sh(["git", "-C", "/repo", "worktree", "remove", "--force", str(wt)])
        shutil.rmtree(wt, ignore_errors=True)
    print(json.dumps(ran, indent=1))
    if ran.get("valid"):
        dst = VERIF / "seeded" / name
        dst.mkdir(parents=True, exist_ok=True)
        if src != dst:
            shutil.copy(src / "patch.diff", dst / "patch.diff")
            shutil.copy(src / "demo.py", dst / "demo.py")
        old = {}
        if (dst / "meta.json").exists():
            old = json.loads((dst / "meta.json").read_text()).get("what_i_ran", {}).get("checks", {})
        old.update(ran["checks"])
        ran["checks"] = old
        meta_out = {
            "breaks_property": meta["property"],
            "summary": meta.get("summary"),
            "needs_to_manifest": meta.get("needs_to_manifest"),
            "why_tests_pass": meta.get("why_tests_pass"),
            "files": meta.get("files"),
            "origin": meta.get("origin", "written by a fresh sub-agent that saw only the property text and a scratch "
                                         "worktree of /repo"),
            "first_result": (meta.get("first_result")
                             or {p: c.get("caught") for p, c in meta.get("what_i_ran", {}).get("checks", {}).items()}
                             or None),
            "repo_head": sh(["git", "-C", "/repo", "rev-parse", "--short", "HEAD"]).stdout.strip(),
            "what_i_ran": ran,
        }
        (dst / "meta.json").write_text(json.dumps(meta_out, indent=1) + "\n")
    return 0 if ran.get("valid") else 3


if __name__ == "__main__":
    sys.exit(main())
