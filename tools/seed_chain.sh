#!/bin/bash
# tools/seed_chain.sh <round dir prefix, e.g. seed6> <offset> <pid...> — validates the seeds of a round one property after the
# other (3 seeds in parallel each), files them under seeded/, removes the agents' worktrees
R=$1; O=$2; shift 2
for p in "$@"; do
  SEEDDIR=/tmp/$R-out OFFSET=$O /verif/tools/seed_batch.sh $p > /verif/work/sb-$R-$p.txt 2>&1
  git -C /repo worktree remove --force /tmp/$R-$p 2>/dev/null
done
