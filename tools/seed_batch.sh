#!/bin/bash
# tools/seed_batch.sh Cxx [extra pids...] — validates /tmp/seed-out/Cxx/{1,2,3} against ./check Cxx (+extras), 3 in parallel
# env: SEEDDIR (default /tmp/seed-out), OFFSET (default 0: directory n is filed as Cxx-(n+OFFSET))
p=$1; shift
D=${SEEDDIR:-/tmp/seed-out}; O=${OFFSET:-0}
for n in 1 2 3; do
  [ -f $D/$p/$n/patch.diff ] || continue
  m=$((n+O))
  ( /verif/tools/seed_validate.py $D/$p/$n $p-$m $p "$@" > /verif/work/sv-$p-$m.txt 2>&1 ) &
done
wait
for n in $((1+O)) $((2+O)) $((3+O)); do
  [ -f /verif/work/sv-$p-$n.txt ] && /venv/bin/python - /verif/work/sv-$p-$n.txt $p-$n <<'P'
import json,sys
try: d=json.load(open(sys.argv[1]))
except Exception as e: print(sys.argv[2],'UNPARSABLE',open(sys.argv[1]).read()[-300:]); sys.exit()
print(sys.argv[2],'valid=',d.get('valid'),'|',d.get('pytest_with_change'),'| demo', d.get('demo_without_change',{}).get('exit'),'->',d.get('demo_with_change',{}).get('exit'))
for p,c in d.get('checks',{}).items(): print('    ',p,'caught=',c['caught'],[l[:170] for l in c['lines'][:2]])
P
done
