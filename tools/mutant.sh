#!/bin/bash
# tools/mutant.sh <patch> <pid> [pid...] — applies a patch in a scratch worktree and runs the checks there
p=$1; shift
wt=/tmp/wt-mut-$$
git -C /repo worktree add --detach $wt HEAD >/dev/null 2>&1
if ! git -C $wt apply "$(realpath "$p")" 2>/dev/null; then echo "PATCH DOES NOT APPLY: $p"; git -C /repo worktree remove --force $wt; exit 2; fi
for pid in "$@"; do
  echo "== $(basename $p) vs $pid"
  SERIF_REPO=$wt /verif/check $pid ${TIER:+--tier $TIER} 2>&1 | grep -E "^# C[0-9]+:|VIOLATION|KNOWN" | cut -c1-260 | head -${LINES_MAX:-3}
done
git -C /repo worktree remove --force $wt
