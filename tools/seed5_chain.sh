#!/bin/bash
# validates round-5 seeds of the given properties one property after the other (3 seeds in parallel each)
for p in "$@"; do
  SEEDDIR=/tmp/seed5-out OFFSET=12 /verif/tools/seed_batch.sh $p > /verif/work/sb5-$p.txt 2>&1
  git -C /repo worktree remove --force /tmp/seed5-$p 2>/dev/null
done
