#!/venv/bin/python
"""tools/status_table.py — rewrites the per-property status table of DESIGN.md (between <!-- STATUS-TABLE-BEGIN/END -->)
from the evidence files the checks wrote and from the property modules."""
import importlib
import json
import re
import sys
from pathlib import Path

VERIF = Path(__file__).resolve().parent.parent
sys.path.insert(0, str(VERIF))


def main():
    rows = []
    for i in range(1, 21):
        pid = f"C{i:02d}"
        ev = json.loads((VERIF / "evidence" / f"{pid}.json").read_text())
        c = ev["coverage"]
        mod = importlib.import_module(f"harness.props.{pid.lower()}")
        props = (VERIF / "coq" / "theories" / "Props" / f"{pid}.v").read_text()
        partial = len(re.findall(r"^\s*Theorem\s+\S*_partial\b", props, flags=re.M))
        refuted = len(re.findall(r"^\s*Theorem\s+\S*_refuted\b", props, flags=re.M))
        tr = c.get("translated") or {}
        streams = ", ".join(f"{k} {v}" for k, v in c.get("streams", {}).items())
        rows.append(f"| {pid} | {len(c['theorems'])}"
                    + (f" ({partial} partial, {refuted} refuted)" if partial or refuted else "")
                    + f" | {len(tr.get('obligations') or [])}"
                    + (f" ({', '.join(tr.get('scripts') or [])})" if tr else "")
                    + f" | {c['evaluations']} / {c['distinct_nontrivial']} | {streams} | {ev['tier']} {ev['wall_s']:.0f} s |")
    head = ("| property | theorems in Props/Cxx.v | translator obligations | cases / distinct non-trivial (last run) | "
            "streams (cases) | last run |\n|---|---|---|---|---|---|\n")
    text = head + "\n".join(rows) + "\n"
    p = VERIF / "DESIGN.md"
    s = p.read_text()
    a, b = "<!-- STATUS-TABLE-BEGIN -->", "<!-- STATUS-TABLE-END -->"
    if a in s and b in s:
        s = s[: s.index(a) + len(a)] + "\n" + text + s[s.index(b):]
        p.write_text(s)
        print("DESIGN.md status table updated")
    else:
        print(text)


if __name__ == "__main__":
    main()
