"""harness/translate_sanitize.py — fail-closed translator of naming._sanitize_user_name (GenSanitize.v).

The function is straight-line string code; the language accepted (anything else is a TranslationError):
  statements   x = <str expr> | if <test>: x = <str expr> | if <test>: return None | return x
               the first statement may be `if not isinstance(name, str): name = str(name)` (labels are read as text)
  str expr     x | "<ascii literal>" | e + e | e.lower() | e.strip('_') | re.sub(r'[^a-z0-9_]+', '_', e)
  test         e == "" | e[0].isdigit() | re.match(r'^.+__\\d+$', e) | e in _get_reserved_names()
What the two regular expressions, str.lower, str.strip and str.isdigit MEAN is not translated: they are the definitions of
Model/Naming.v (collapse false / matches_indexed / strip / is_digit; lower is a parameter) - validated against CPython over
the BMP by C17's thorough tier (section 7).  What IS translated: which of them the function applies, to what, in which
order, and what it returns."""
import ast
from pathlib import Path


class TranslationError(Exception):           # the same shape as harness.translate.TranslationError (caught there by name)
    def __init__(self, file, lineno, what):
        self.file, self.lineno, self.what = str(file), lineno, what
        super().__init__(f"{Path(str(file)).name}:{lineno}: {what}")


IMPORTS = ("From Coq Require Import List Bool Arith Ascii String.\n"
           "From Serif Require Import Base.PyVal Base.GenPrelude Model.Naming.\nImport ListNotations.\n")
RE_SUB = r"[^a-z0-9_]+"
RE_MATCH = r"^.+__\d+$"


def translate_sanitize(src: Path):
    path = src / "naming.py"
    tree = ast.parse(path.read_text(), filename=str(path))
    fs = [n for n in tree.body if isinstance(n, ast.FunctionDef) and n.name == "_sanitize_user_name"]
    if len(fs) != 1 or fs[0].decorator_list:
        raise TranslationError(path, 0, f"_sanitize_user_name: found {len(fs)} plain definitions")
    F = fs[0]
    err = lambda node, what: TranslationError(path, getattr(node, "lineno", F.lineno), f"_sanitize_user_name: {what}")   # noqa: E731
    a = F.args
    if len(a.args) != 1 or a.vararg or a.kwarg or a.kwonlyargs or a.posonlyargs or a.defaults:
        raise err(F, "parameters")
    param = a.args[0].arg
    if not any(isinstance(n, ast.Import) and any(al.name == "re" and al.asname is None for al in n.names) for n in tree.body):
        raise err(F, "`import re` at module level is missing")
    for n in ast.walk(F):
        if isinstance(n, ast.Name) and n.id in ("re", "_get_reserved_names", "str", "isinstance") and isinstance(n.ctx, ast.Store):
            raise err(n, f"`{n.id}` is re-bound")
    body = [s for s in F.body if not (isinstance(s, ast.Expr) and isinstance(s.value, ast.Constant) and isinstance(s.value.value, str))]
    env = {param: "py_" + param}
    ver = {param: 0}

    def lit(node, v):
        if not (isinstance(v, str) and all(32 <= ord(c) < 127 and c != '"' for c in v)):
            raise err(node, f"string literal {v!r}")
        return f'(s "{v}"%string)'

    def sexpr(node):
        if isinstance(node, ast.Name):
            if node.id not in env:
                raise err(node, f"name `{node.id}`")
            return env[node.id]
        if isinstance(node, ast.Constant) and isinstance(node.value, str):
            return lit(node, node.value)
        if isinstance(node, ast.BinOp) and isinstance(node.op, ast.Add):
            return f"({sexpr(node.left)} ++ {sexpr(node.right)})"
        if isinstance(node, ast.Call) and isinstance(node.func, ast.Attribute) and not node.keywords:
            f = node.func
            if f.attr == "lower" and not node.args:
                return f"(py_lower {sexpr(f.value)})"
            if f.attr == "strip" and len(node.args) == 1 and isinstance(node.args[0], ast.Constant) and node.args[0].value == "_":
                return f"(strip {sexpr(f.value)})"
            if ast.unparse(f) == "re.sub" and len(node.args) == 3:
                p, r, x = node.args
                if not (isinstance(p, ast.Constant) and p.value == RE_SUB and isinstance(r, ast.Constant) and r.value == "_"):
                    raise err(node, f"re.sub with pattern {ast.unparse(p)} / replacement {ast.unparse(r)}: only "
                                    f"re.sub(r'{RE_SUB}', '_', ...) is known")
                return f"(collapse false {sexpr(x)})"
        raise err(node, f"string expression `{ast.unparse(node)[:70]}`")

    def test(node):
        if isinstance(node, ast.Compare) and len(node.ops) == 1:
            op, l, r = node.ops[0], node.left, node.comparators[0]
            if isinstance(op, ast.Eq) and isinstance(r, ast.Constant) and r.value == "":
                return f"(match {sexpr(l)} with [] => true | _ :: _ => false end)"
            if isinstance(op, ast.In) and ast.unparse(r) == "_get_reserved_names()":
                return f"(mem {sexpr(l)} reserved)"
        if isinstance(node, ast.Call) and not node.keywords:
            if ast.unparse(node.func) == "re.match" and len(node.args) == 2:
                p, x = node.args
                if not (isinstance(p, ast.Constant) and p.value == RE_MATCH):
                    raise err(node, f"re.match with pattern {ast.unparse(p)}: only r'{RE_MATCH}' is known")
                return f"(matches_indexed {sexpr(x)})"
            f = node.func
            if isinstance(f, ast.Attribute) and f.attr == "isdigit" and not node.args and isinstance(f.value, ast.Subscript) \
                    and isinstance(f.value.slice, ast.Constant) and f.value.slice.value == 0:
                return f"(match {sexpr(f.value.value)} with c :: _ => is_digit c | [] => false end)"
        raise err(node, f"test `{ast.unparse(node)[:70]}`")

    def bind(x, term, lineno):
        ver[x] = ver.get(x, -1) + 1
        nm = f"py_{x}{ver[x] if ver[x] else ''}"
        env[x] = nm
        return f"let {nm} := {term} in (* L{lineno} *)\n  "

    out = ""
    first = True
    for i, st in enumerate(body):
        last = i == len(body) - 1
        if first and ast.unparse(st) == f"if not isinstance({param}, str):\n    {param} = str({param})":
            first = False
            continue                                         # labels are read as text (see the module docstring)
        first = False
        if isinstance(st, ast.Assign) and len(st.targets) == 1 and isinstance(st.targets[0], ast.Name):
            out += bind(st.targets[0].id, sexpr(st.value), st.lineno)
            continue
        if isinstance(st, ast.If) and not st.orelse and len(st.body) == 1:
            b = st.body[0]
            if isinstance(b, ast.Return) and (b.value is None or (isinstance(b.value, ast.Constant) and b.value.value is None)):
                out += f"if {test(st.test)} then None else (* L{st.lineno} *)\n  "
                continue
            if isinstance(b, ast.Assign) and len(b.targets) == 1 and isinstance(b.targets[0], ast.Name) and b.targets[0].id in env:
                x = b.targets[0].id
                c = test(st.test)                            # the test reads the OLD binding
                old = env[x]
                new = sexpr(b.value)
                out += bind(x, f"(if {c} then {new} else {old})", st.lineno)
                continue
            if isinstance(b, ast.AugAssign) and isinstance(b.op, ast.Add) and isinstance(b.target, ast.Name) and b.target.id in env:
                x = b.target.id
                c, old = test(st.test), env[x]
                out += bind(x, f"(if {c} then ({old} ++ {sexpr(b.value)}) else {old})", st.lineno)
                continue
        if isinstance(st, ast.Return) and last and st.value is not None:
            out += f"Some {sexpr(st.value)}"
            break
        raise err(st, f"statement `{ast.unparse(st).splitlines()[0][:70]}` is not on the allow-list")
    else:
        raise err(F, "falls off the end")
    notes = ["the regular expressions, str.lower / strip('_') / isdigit are NOT translated: collapse false, matches_indexed, strip, "
             "is_digit of Model/Naming.v stand for them (lower is the parameter py_lower); labels that are not strings are read "
             "through str()",
             "_get_reserved_names() is the parameter `reserved` (read from dir(Vector), dir(Table) by the harness)"]
    head = ("(* GenSanitize.v — GENERATED by harness/translate_sanitize.py from naming.py (_sanitize_user_name); do not edit.\n"
            + "".join(f"   {n}\n" for n in notes).replace("*)", "* )") + "*)\n" + IMPORTS
            + "\nSection Sanitize.\nVariable reserved : list str.\nVariable py_lower : str -> str.\n\n")
    text = (head + f"(* naming.py:{F.lineno}-{F.end_lineno} *)\nDefinition sanitize_user_name (py_{param} : str) : option str :=\n  "
            + out + ".\n\nEnd Sanitize.\n")
    return text, {"lines": {"sanitize_user_name": [F.lineno, F.end_lineno]}, "notes": notes}
