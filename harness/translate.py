"""harness/translate.py — fail-closed Python-`ast` -> Gallina translator for serif's small pure
decision kernels, and the per-run re-check of the model against what the code says NOW.

    translate(repo_src, outdir)  parses  typing.py / typeutils.py / table.py  of the given checkout
                                 (never imports serif) and writes GenTyping.v, GenSlice.v,
                                 GenNames.v, GenJoin.v: one plain `Definition` per Python function.
    run(workdir, repo)           translate, compile the generated files, then compile the COMMITTED
                                 proof scripts coq/gen_proofs/Eq*.v against them:  generated
                                 definition = hand-written model function, for all inputs, and the
                                 property theorems re-stated for the generated definitions.

Fail-closed: every statement / expression form is on an explicit allow-list (see ALLOWED below);
anything else raises TranslationError(file, lineno, what).  Nothing is guessed: a form the
translator does not know makes the run fail, it is never skipped or approximated.  The only
things deliberately not translated are listed in the generated files as `ASSUMPTION` / `NOTE`
comments (docstrings, warnings.warn(...) statements, the None-branch of a function whose domain
is declared non-None, the `except TypeError: return False` around issubclass).

The meaning of the emitted vocabulary (cls, type_of, kind_sub, ...) is coq/theories/Base/GenPrelude.v.
"""
from __future__ import annotations

import argparse
import ast
import hashlib
import json
import re
import shutil
import subprocess
import sys
import time
from concurrent.futures import ThreadPoolExecutor
from pathlib import Path

# --------------------------------------------------------------------------- documentation

ALLOWED = """
statements : docstring expression statement; `warnings.warn(...)` expression statement (skipped);
             `pass`; `return <expr>`; `raise TypeError(...)` (only in an accept/reject kernel);
             `x = <expr>`; `x: <Optional[DataType]|DataType|bool> = <expr>`; `a, b, c = <expr>`;
             `if/elif/else` (tests: any allowed bool expression; `x is None` / `x is not None` on an
             Optional variable becomes a `match` that narrows x); `for x in <list parameter>:` whose body
             only assigns (no return/break/continue) -> `fold_left` over the tuple of assigned variables;
             `try: return issubclass(..) except TypeError: return False` -> its try-body.
expressions: names of parameters/locals; the builtin class names bool int float complex str bytes datetime
             date list dict tuple object; True False None; int literals; str literals (only as a warning tag);
             `d.kind` `d.nullable` `d.is_numeric` `d.is_temporal`; `DataType(k[, n])` / `DataType(k, nullable=n)`;
             `d.with_nullable(b)` `d.promote_with(v)` `infer_kind(v)`; `type(v)`; `isinstance(v, C)`;
             `issubclass(c, C)` (C a builtin class name or a tuple of them); `s.indices(n)`; `max(a, b)` `min(a, b)`;
             `is` `is not` `==` `!=` between classes, with None, `==`/`!=` between names; `in` / `not in` a literal
             tuple; `<` `<=` `>` `>=` between ints; `and` `or` `not` on bools; `+` `-` `*` `//` `%` and unary `-` on
             ints; `a if c else b`; tuple displays (as a return value or in-operand).
fingerprint: (GenFingerprint.v) class constants `NAME = <int expr>` with + - * // % << ** (small literal exponent);
             `self._FP_P` / `Vector._FP_P`; `for x in self._underlying:` with loop-local temporaries; `self._hash_element(x)` /
             `Vector._hash_element(x)`; in _hash_element exactly the source forms of ELEM_TESTS / ELEM_VALUES on its parameter,
             the branches `if isinstance(x, set):` / `if isinstance(x, (list, tuple)):` and `hash(repr(x))` are recognised and
             NOT translated (their value is the parameter el_untranslated); Vector.fingerprint / Table.fingerprint:
             `self._fp` loads and stores, `self._compute_fingerprint_full()`, the `_ensure_fp_powers()` guard (skipped),
             `return super().fingerprint()`.
dispatch   : (GenDispatch.v) each of the 14 arithmetic dunders of Vector / Table must be a plain (self, other) method whose
             body is `return self.<via>(other, F, '<name>', '<symbol>')` with F = operator.<op> | module-level helper
             `def f(p, q): return <p|q> OP <q|p>` | `lambda p, q: <p|q> OP <q|p>`, or `return self.__X__(other)` (a
             delegation row); any other body is the row GOwnBody.
sort       : (GenSort.v) from Table.sort_by only `I = list(range(N))` + the ONE top-level `for a, b in <reversed|list|zip of two
             names>:` loop holding the ONE `.sort(key=, reverse=)` call, whose body may bind locals, define ONE local key function
             `def f(i, n1=n1, ...)` (name defaults only; used exactly once, by the sort in the next statement) and sort in place;
             inside: `data[i]`, `x is None`, `not`, conditional expressions, if/else, `return (flag, value)`.  From Vector.sort_by:
             `if na_last: key_fn = lambda x: (<bool>, <x if x is not None else INT>) else: ...`, `T = tuple(sorted(self._underlying,
             key=key_fn, reverse=...))`, then exactly `W = Vector(T, ...)`; `return W` (not translated, shape checked);
             `!=` / `==` between bools.
names      : (GenAggNames.v) in Table.aggregate / Table.window: ONE nested `uniquify(name)` whose only free name is a set
             initialised by `U = set()` and touched nowhere else (`x in U`, `x not in U`, `U.add(x)`, EXACTLY the loop
             `while f"{name}{i}" in U: i += 1`, f-strings of str / non-negative int fields without format specs), ONE nested name
             builder (col, suffix) holding every `_sanitize_user_name(..)` call (`col._name or "lit"`, `san(..) or "lit"`,
             `if s is None: s = "lit"`), and call sites uniquify(<col._name or "lit"> | <builder call> | <name>).
csv        : (GenCsv.v) in _infer_type: `not s`, `s == ''`, `s.strip()` on the text, `try: return int(s) except ValueError:
             pass` (also float) as "if int() accepts s then int(s) else go on", `return s`, `return None`.
fragments  : (GenJoin.v) from Table.inner_join / join / full_join only three TOP-LEVEL statements are translated:
             `if <bool expr over expect>: raise ...` (the first statement that uses `expect`) and the assignments
             `check_right_unique = <bool expr over expect>`, `check_left_unique = ...`, plus the str default of
             `expect`; expressions over `expect`: `in`/`not in` a literal tuple of str literals, `==`/`!=` with a str
             literal, and/or/not.  `expect` must never be assigned and every other use must be inside an f-string.
"""

ASSUMPTIONS = [
    "A non-None value is seen only through vinfo = (base, exact): base = the first class of infer_kind's "
    "isinstance chain the value is an instance of (or its own class), exact = type(value) is that class.",
    "isinstance(value, C) holds iff kind_sub (base value) C: CPython forbids a class below two different chain "
    "classes (instance lay-out conflict) and bool cannot be subclassed; values of a KOther class are instances of "
    "no chain class (definition of base).",
    "DataType.kind is always a class in the range of infer_kind (a `kind`): never a proper subclass of a chain "
    "class, never a non-class (so `issubclass(self.kind, ...)` cannot raise TypeError and the "
    "`except TypeError: return False` of is_numeric/is_temporal is dead).",
    "validate_scalar is observed as accept/reject only: every `return <expr>` is `true`, `raise TypeError` is `false`; "
    "the coerced value is not modelled.",
    "infer_kind is translated on its non-None domain (infer_kind(None) is None is not translated); the translator "
    "accepts a call infer_kind(x) only where x has been narrowed to non-None.",
    "warnings.warn(...) statements and docstrings have no effect on the result and are skipped.",
    "Python int is Z; `//` is Z.div and `%` is Z.modulo (both floor); slice.indices is Spec/PySlice.adjust.",
    "Column names are str or None; `==` on them is Model/Naming.ostr_eqb.",
    "Fingerprint kernels (GenFingerprint.v) are generic in the element type X: what _hash_element's tests see of an "
    "element is the record GenPrelude.elinfo (el_obs), Python's hash(x) is the parameter el_hash, a nested object's "
    "int(x.fingerprint()) is el_nested_fp, and the value of the recognised-but-untranslated branches (set, list/tuple, "
    "hash(repr(x))) is el_untranslated; _is_hashable(x) means `hash(x) does not raise` (its body is checked).",
    "Vector.fingerprint / Table.fingerprint are translated as functions of (self._fp, fingerprint of the current "
    "contents); the `_fp_powers` guard is skipped after checking that _ensure_fp_powers assigns nothing else; Table "
    "must derive from Vector alone and override none of the fingerprint kernels (checked).",
    "Dispatch (GenDispatch.v): only WHICH function each arithmetic dunder hands to _elementwise_operation / "
    "_table_elementwise_operation is translated (operator.<op>, a module-level `return a OP b` helper, or a lambda); how "
    "that function is applied to the elements is Model/Elementwise.elementwise_operation (correspondence check of C05); "
    "subclasses of Vector that override a dunder (_Date.__add__) are not in the table.",
    "sort_by (GenSort.v): list.sort(key=, reverse=) / sorted(.., key=, reverse=) are Model/Sort.pysort (stable; reverse=True "
    "keeps the original order of equal elements) over keys (flag, value) compared by Model/Sort.key_leb (tuple order: the "
    "flag first, False < True, then the values by vleb; None == None); only step 5 of Table.sort_by and the part of "
    "Vector.sort_by up to sorted(...) are translated; a key column is its _underlying, data[i] is nth with default None "
    "(row numbers are in range: checked by the method), zip of equally long lists is combine; the int literal standing in "
    "for None in Vector.sort_by's key is only ever compared with itself; a local key function is called only by the sort in "
    "the next statement, so name defaults (rev=rev) and reads of the enclosing scope denote the same values.",
    "aggregate / window naming (GenAggNames.v): the used-name set is a list (add = cons, `in` = Model/Naming.mem); a column "
    "is seen through its _name (None or str); `x or \"lit\"` is name_or (None and \"\" are falsy); _sanitize_user_name is the "
    "parameter san (model: sanitize reserved (lower b)); f\"{a}{i}\" is a ++ dec i; the probe loop runs at most |used|+1 "
    "steps (fuel), as in Model/Names.uniq_search; the ORDER in which the methods request names is not translated.",
    "csv._infer_type (GenCsv.v): `not s` / `s == ''` is txt_empty, s.strip() is txt_strip; int()/float() of a str raise "
    "nothing but ValueError, int_ok / float_ok say whether they return; the converted value itself is not modelled.",
]


class TranslationError(Exception):
    def __init__(self, file, lineno, what):
        self.file, self.lineno, self.what = str(file), lineno, what
        super().__init__(f"{Path(str(file)).name}:{lineno}: {what}")


# --------------------------------------------------------------------------- types

COQTY = {
    "kind": "kind", "cls": "cls", "bool": "bool", "dtype": "dtype", "odtype": "option dtype",
    "pyv": "pyv", "vinfo": "vinfo", "lpyv": "list pyv", "Z": "Z", "slice": "pyslice",
    "name": "pyname", "tag": "option string", "string": "string",
    "elem": "X", "lelem": "list X", "vecself": "list X", "ofp": "option Z",
    "text": "T", "cell": "cellres T",
    # sort kernels: a key cell is None or a value of type V; a column / vector is seen through its _underlying
    "nat": "nat", "lnat": "list nat", "scell": "option V", "lscell": "list (option V)", "scol": "list (option V)",
    "svec": "list (option V)", "lscol": "list (list (option V))", "lbool": "list bool",
    "lkeyspec": "list (list (option V) * bool)", "vkeyfn": "(option V -> bool * option V)",
    # aggregate / window naming: a column is seen through its _name (None or a str = Model/Naming.str)
    "str": "str", "ostr": "option str", "lstr": "list str", "ncol": "option str",
}
NARROW = {"pyv": "vinfo", "odtype": "dtype", "ofp": "Z", "ostr": "str"}   # Optional types a `match` can narrow
OPTIONAL = {"pyv", "odtype", "name", "tag", "ofp", "scell", "ostr"}
NONOPTIONAL_OBJ = {"vinfo", "dtype"}                   # `x is None` is statically False on these
ELEM = {"lpyv": "pyv", "lelem": "elem", "lscol": "scol", "lbool": "bool", "lkeyspec": ("scol", "bool"),
        "lnat": "nat", "lscell": "scell", "svec": "scell"}
SKEY = ("bool", "scell")                               # the sort key (flag, value), compared by Model/Sort.key_leb

CLASSNAMES = {
    "bool": "KBool", "int": "KInt", "float": "KFloat", "complex": "KComplex", "str": "KStr",
    "bytes": "KBytes", "datetime": "KDateTime", "date": "KDate", "list": "KList", "dict": "KDict",
    "tuple": "KTuple", "object": "KObject",
}
BUILTIN_FUNCS = {"isinstance", "issubclass", "type", "max", "min", "DataType"}
IDENT = re.compile(r"^[A-Za-z_][A-Za-z0-9_]*$")


def coqty(t) -> str:
    if isinstance(t, tuple):
        return "(" + " * ".join(coqty(x) for x in t) + ")%type"
    return COQTY[t]


class Kernel:
    def __init__(self, py, coq, params, ret, cls=None, mode="value", prop=False, wrap_kind=False,
                 static=False, elem_forms=False, ctxp=("", ""), sort_forms=False, name_forms=False):
        self.py, self.coq, self.params, self.ret = py, coq, params, ret
        self.cls, self.mode, self.prop, self.wrap_kind = cls, mode, prop, wrap_kind
        self.static = static            # @staticmethod: no self parameter
        self.elem_forms = elem_forms    # _hash_element: tests on the element are observations (GenPrelude.elinfo)
        self.ctxp = ctxp                # (binders, arguments) every definition of the file takes first
        self.sort_forms = sort_forms    # sort_by fragments: key functions, list.sort / sorted, zip / reversed / range
        self.name_forms = name_forms    # aggregate / window naming: f-strings, `x or "lit"`, the used-name set, the probe loop
        self.node = None


# The typed interface of each kernel = the abstraction (types of GenPrelude.v / PyVal.v).
# Parameter NAMES are taken from the source (a renamed parameter is fine); the count must match.
TYPING_KERNELS = [
    Kernel("with_nullable", "with_nullable", ["dtype", "bool"], "dtype", cls="DataType"),
    Kernel("is_numeric", "is_numeric", ["dtype"], "bool", cls="DataType", prop=True),
    Kernel("is_temporal", "is_temporal", ["dtype"], "bool", cls="DataType", prop=True),
    Kernel("infer_kind", "infer_kind", ["vinfo"], "cls", wrap_kind=True),
    Kernel("promote_with", "promote_with", ["dtype", "pyv"], "dtype", cls="DataType"),
    Kernel("infer_dtype", "infer_dtype", ["lpyv"], "dtype"),
    Kernel("validate_scalar", "validate_scalar", ["pyv", "dtype"], "bool", mode="accept"),
]
SLICE_KERNELS = [Kernel("slice_length", "slice_length", ["slice", "Z"], "Z")]
NAMES_KERNELS = [Kernel("_resolve_binary_name", "resolve_binary_name", ["name", "name"], ("name", "tag"))]
# vector.py fingerprint kernels: generic in the element type X; what the code can observe of an element and
# Python's hash() are parameters (see GenPrelude.elinfo)
FP_CTXP = ("(X : Type) (el_obs : X -> elinfo) (el_hash el_nested_fp el_untranslated : X -> Z)",
           "X el_obs el_hash el_nested_fp el_untranslated")
# csv._infer_type: what a cell text becomes; str tests and int()/float() acceptance are parameters (GenPrelude.cellres)
CSV_CTXP = ("(T : Type) (txt_empty : T -> bool) (txt_strip : T -> T) (int_ok float_ok : T -> bool)",
            "T txt_empty txt_strip int_ok float_ok")
CSV_KERNELS = [Kernel("_infer_type", "infer_type", ["text"], "cell", ctxp=CSV_CTXP)]
CONVERTERS = {"int": ("int_ok", "CInt"), "float": ("float_ok", "CFloat")}
FP_CONSTS = [("_FP_P", "fp_P"), ("_FP_B", "fp_B")]
FP_KERNELS = [
    Kernel("_hash_element", "hash_element", ["elem"], "Z", cls="Vector", static=True, elem_forms=True, ctxp=FP_CTXP),
    Kernel("_compute_fingerprint_full", "compute_fingerprint_full", ["vecself"], "Z", cls="Vector", ctxp=FP_CTXP),
]
# the exact source forms of _hash_element's observations of its argument ({x} = the parameter)
ELEM_TESTS = {
    "{x} is None": "el_none",
    "hasattr({x}, 'fingerprint') and callable(getattr({x}, 'fingerprint'))": "el_hasfp",
    "isinstance({x}, float)": "el_float",
    "math.isnan({x})": "el_nan",
    "isinstance({x}, set)": "el_set",
    "isinstance({x}, (list, tuple))": "el_seq",
    "_is_hashable({x})": "el_hashable",
}
ELEM_VALUES = {"hash({x})": "el_hash", "int({x}.fingerprint())": "el_nested_fp"}
ELEM_UNTRANSLATED_TESTS = {"el_set": "set elements", "el_seq": "list/tuple elements (recursive hash)"}
ELEM_UNTRANSLATED_VALUES = {"hash(repr({x}))": "unhashable elements: hash(repr(x))"}


# --------------------------------------------------------------------------- the translator

class Ctx:
    def __init__(self, file, kernel, table, notes):
        self.file, self.kernel, self.table, self.notes = file, kernel, table, notes
        self.ret, self.mode = kernel.ret, kernel.mode
        self.finish = None          # what falling off the end of the current block means
        self.declared = {}          # python variable -> declared type (annotations, loop-carried)
        self.aux = []               # auxiliary definitions (loop bodies) emitted before the function
        self.nloops = 0
        self.localfns = {}          # local `def key_fn(...)`: name -> (coq name, captured python names)

    def err(self, node, what):
        return TranslationError(self.file, getattr(node, "lineno", 0), f"{self.kernel.py}: {what}")

    def note(self, node, text):
        self.notes.append(f"{Path(self.file).name}:{getattr(node, 'lineno', 0)} {self.kernel.py}: {text}")


def mangle(ctx, node, name):
    if not IDENT.match(name):
        raise ctx.err(node, f"identifier {name!r} is not plain ASCII")
    return "py_" + name


def coerce(ctx, node, text, have, want):
    if want is None or have == want:
        return text
    if have == "kind" and want == "cls":
        return f"(CK {text})"
    if have == "vinfo" and want == "pyv":
        return f"(Some {text})"
    if have == "dtype" and want == "odtype":
        return f"(Some {text})"
    if have == "Z" and want == "ofp":
        return f"(Some {text})"
    if have == "text" and want == "cell":
        return f"(CStr {text})"                       # `return value`: the text itself
    raise ctx.err(node, f"expression of type {have} where {want} is required")


def class_list(ctx, node):
    """C of isinstance(v, C) / issubclass(k, C): a builtin class name or a tuple of them."""
    elts = node.elts if isinstance(node, ast.Tuple) else [node]
    out = []
    for e in elts:
        if not (isinstance(e, ast.Name) and e.id in CLASSNAMES):
            raise ctx.err(e, f"class argument must be a builtin class name or a tuple of them, got {ast.dump(e)[:60]}")
        out.append(CLASSNAMES[e.id])
    if not out:
        raise ctx.err(node, "empty class tuple")
    return out


def disj(parts):
    return parts[0] if len(parts) == 1 else "(" + " || ".join(parts) + ")"


def expr(ctx, env, node, want=None):
    """-> (coq text, type).  `want` only guides constants (None, tuples); callers coerce."""
    if ctx.kernel.sort_forms:
        r = sort_expr(ctx, env, node, want)
        if r is not None:
            return r
    if ctx.kernel.name_forms:
        r = name_expr(ctx, env, node, want)
        if r is not None:
            return r
    if ctx.kernel.elem_forms and not isinstance(node, (ast.Name, ast.Constant)):
        src = ast.unparse(node)
        for v, (cn, ty) in env.items():
            if ty != "elem":
                continue
            for forms, rty in ((ELEM_TESTS, "bool"), (ELEM_VALUES, "Z")):
                for form, fn in forms.items():
                    if src == form.format(x=v):
                        return f"({fn} {cn})" if rty == "Z" else f"({fn} (el_obs {cn}))", rty
            for form, why in ELEM_UNTRANSLATED_VALUES.items():
                if src == form.format(x=v):
                    ctx.note(node, f"NOT TRANSLATED: `{src}` ({why}) is the parameter el_untranslated")
                    return f"(el_untranslated {cn})", "Z"
    if isinstance(node, ast.Name):
        if not isinstance(node.ctx, ast.Load):
            raise ctx.err(node, "name in store context inside an expression")
        if node.id in env:
            return env[node.id]
        if node.id in CLASSNAMES:
            return CLASSNAMES[node.id], "kind"
        raise ctx.err(node, f"unknown name {node.id!r}")
    if isinstance(node, ast.Constant):
        v = node.value
        if v is True or v is False:
            return ("true" if v else "false"), "bool"
        if v is None:
            if want == "cell":
                return "CNone", "cell"
            if want in OPTIONAL:
                return "None", want
            raise ctx.err(node, f"None where type {want} is expected")
        if isinstance(v, int):
            return (f"{v}%Z" if v >= 0 else f"({v})%Z"), "Z"
        if isinstance(v, str):
            if want not in ("tag", "string"):
                raise ctx.err(node, "string literal outside a warning-tag / expect-string position")
            if not all(32 <= ord(c) < 127 and c != '"' for c in v):
                raise ctx.err(node, "string literal is not plain printable ASCII")
            return (f'(Some "{v}"%string)', "tag") if want == "tag" else (f'"{v}"%string', "string")
        raise ctx.err(node, f"constant {v!r}")
    if isinstance(node, ast.Tuple):
        if not (isinstance(want, tuple) and len(want) == len(node.elts)):
            raise ctx.err(node, f"tuple display where {want} is expected")
        parts = []
        for e, w in zip(node.elts, want):
            t, ty = expr(ctx, env, e, w)
            parts.append(coerce(ctx, e, t, ty, w))
        return "(" + ", ".join(parts) + ")", want
    if isinstance(node, ast.Attribute):
        if not isinstance(node.ctx, ast.Load):
            raise ctx.err(node, "attribute store")
        consts = getattr(ctx, "consts", {})
        if (isinstance(node.value, ast.Name) and node.value.id == ctx.kernel.cls and node.value.id not in env
                and node.attr in consts):
            return consts[node.attr], "Z"                     # Vector._FP_P
        t, ty = expr(ctx, env, node.value)
        if ty == "vecself":
            if node.attr in consts:
                return consts[node.attr], "Z"                 # self._FP_P (class constant, never an instance attribute)
            if node.attr == "_underlying":
                return t, "lelem"
        if ty == "dtype":
            if node.attr == "kind":
                return f"(dkind {t})", "kind"
            if node.attr == "nullable":
                return f"(nullable {t})", "bool"
            k = ctx.table.get(("DataType", node.attr))
            if k is not None and k.prop:
                return f"({k.coq} {t})", k.ret
        raise ctx.err(node, f"attribute .{node.attr} of a {ty}")
    if isinstance(node, ast.Call):
        return call(ctx, env, node)
    if isinstance(node, ast.Compare):
        if len(node.ops) != 1:
            raise ctx.err(node, "chained comparison")
        return compare(ctx, env, node, node.left, node.ops[0], node.comparators[0])
    if isinstance(node, ast.BoolOp):
        op = "&&" if isinstance(node.op, ast.And) else "||"
        parts = []
        for v in node.values:
            t, ty = expr(ctx, env, v)
            if ty != "bool":
                raise ctx.err(v, f"operand of and/or has type {ty}, not bool")
            parts.append(t)
        return "(" + f" {op} ".join(parts) + ")", "bool"
    if isinstance(node, ast.UnaryOp):
        t, ty = expr(ctx, env, node.operand)
        if isinstance(node.op, ast.Not) and ty == "bool":
            return f"(negb {t})", "bool"
        if isinstance(node.op, ast.Not) and ty == "text":
            return f"(txt_empty {t})", "bool"                  # `not s` on a str: s == ''
        if isinstance(node.op, ast.USub) and ty == "Z":
            return f"(- {t})%Z", "Z"
        raise ctx.err(node, f"unary {type(node.op).__name__} on {ty}")
    if isinstance(node, ast.BinOp):
        a, ta = expr(ctx, env, node.left)
        b, tb = expr(ctx, env, node.right)
        ops = {ast.Add: "+", ast.Sub: "-", ast.Mult: "*", ast.FloorDiv: "/", ast.Mod: "mod"}
        if ta == tb == "Z" and type(node.op) in ops:
            return f"({a} {ops[type(node.op)]} {b})%Z", "Z"
        if ta == tb == "Z" and isinstance(node.op, (ast.LShift, ast.Pow)):
            r = node.right
            if not (isinstance(r, ast.Constant) and type(r.value) is int and 0 <= r.value <= 4096):
                raise ctx.err(node, "`<<` / `**` whose right operand is not a small non-negative int literal")
            return (f"(Z.shiftl {a} {b})" if isinstance(node.op, ast.LShift) else f"({a} ^ {b})%Z"), "Z"
        raise ctx.err(node, f"binary {type(node.op).__name__} on {ta}, {tb}")
    if isinstance(node, ast.IfExp):
        c, tc = expr(ctx, env, node.test)
        if tc != "bool":
            raise ctx.err(node.test, f"condition of type {tc}")
        a, ta = expr(ctx, env, node.body, want)
        b, tb = expr(ctx, env, node.orelse, want)
        if ta != tb:
            if {ta, tb} == {"kind", "cls"}:
                a, b, ta = coerce(ctx, node, a, ta, "cls"), coerce(ctx, node, b, tb, "cls"), "cls"
            else:
                raise ctx.err(node, f"branches of conditional expression have types {ta}, {tb}")
        return f"(if {c} then {a} else {b})", ta
    raise ctx.err(node, f"expression form {type(node).__name__} is not on the allow-list")


def coq_str_lit(ctx, node, v):
    if not (isinstance(v, str) and all(32 <= ord(c) < 127 and c != '"' for c in v)):
        raise ctx.err(node, f"string literal {v!r} is not plain printable ASCII")
    return f'(s "{v}"%string)'


def name_expr(ctx, env, node, want):
    """the extra expression forms of the aggregate / window naming helpers; None = not one of them"""
    if isinstance(node, ast.Constant) and isinstance(node.value, str):
        return coq_str_lit(ctx, node, node.value), "str"
    if isinstance(node, ast.Constant) and type(node.value) is int and node.value >= 0:
        return str(node.value), "nat"
    if isinstance(node, ast.JoinedStr):
        parts = []
        for v in node.values:
            if isinstance(v, ast.Constant):
                parts.append(coq_str_lit(ctx, v, v.value))
            elif isinstance(v, ast.FormattedValue) and v.conversion == -1 and v.format_spec is None:
                t, ty = expr(ctx, env, v.value)
                if ty == "str":
                    parts.append(t)
                elif ty == "nat":
                    parts.append(f"(dec {t})")            # the decimal text of a non-negative int
                else:
                    raise ctx.err(v, f"f-string field of type {ty}")
            else:
                raise ctx.err(v, "f-string field with a conversion / format spec")
        if not parts:
            raise ctx.err(node, "empty f-string")
        return "(" + " ++ ".join(parts) + ")", "str"
    if isinstance(node, ast.BoolOp) and isinstance(node.op, ast.Or) and len(node.values) == 2 \
            and isinstance(node.values[1], ast.Constant) and isinstance(node.values[1].value, str):
        a, ta = expr(ctx, env, node.values[0])
        if ta not in ("ostr", "ncol"):
            raise ctx.err(node, f"`x or <str>` on a {ta}")
        if node.values[1].value == "":
            raise ctx.err(node, "`x or \"\"`")
        return f"(name_or {a} {coq_str_lit(ctx, node, node.values[1].value)})", "str"
    if isinstance(node, ast.IfExp) and isinstance(node.body, ast.Constant) and isinstance(node.body.value, str) \
            and isinstance(node.orelse, ast.Attribute) and node.orelse.attr == "_name":
        # `<str> if x._name is None or x._name == "" else x._name` (the form since fix F46: only None and '' are "no name")
        src = ast.unparse(node.orelse)
        if ast.unparse(node.test) != f"{src} is None or {src} == ''":
            raise ctx.err(node, f"`<str> if <test> else {src}`: the test is not `{src} is None or {src} == ''`")
        a, ta = expr(ctx, env, node.orelse)
        if ta not in ("ostr", "ncol") or node.body.value == "":
            raise ctx.err(node, f"default-name conditional on a {ta}")
        return f"(name_or {a} {coq_str_lit(ctx, node, node.body.value)})", "str"
    if isinstance(node, ast.Attribute) and isinstance(node.ctx, ast.Load) and node.attr == "_name":
        t, ty = expr(ctx, env, node.value)
        if ty != "ncol":
            raise ctx.err(node, f"._name of a {ty}")
        return t, "ostr"
    if isinstance(node, ast.Call) and isinstance(node.func, ast.Name) and node.func.id == "_sanitize_user_name" \
            and node.func.id not in env and len(node.args) == 1 and not node.keywords:
        t, ty = expr(ctx, env, node.args[0])
        if ty != "str":
            raise ctx.err(node, f"_sanitize_user_name of a {ty}")
        return f"(san {t})", "ostr"
    if isinstance(node, ast.Compare) and len(node.ops) == 1 and isinstance(node.ops[0], (ast.In, ast.NotIn)) \
            and isinstance(node.comparators[0], ast.Name) and env.get(node.comparators[0].id, ("", ""))[1] == "lstr":
        a, ta = expr(ctx, env, node.left)
        if ta != "str":
            raise ctx.err(node, f"membership of a {ta} in the name set")
        t = f"mem {a} {env[node.comparators[0].id][0]}"
        return (f"(negb ({t}))" if isinstance(node.ops[0], ast.NotIn) else f"({t})"), "bool"
    return None


def probe_loop(ctx, env, s):
    """EXACTLY `while <bool expr mentioning i> : i += 1` with i a nat local whose only other occurrence in the test is
    inside an f-string probing the name set -> while_probe with fuel |set| + 1"""
    if s.orelse or len(s.body) != 1 or not isinstance(s.body[0], ast.AugAssign):
        return None
    inc = s.body[0]
    if not (isinstance(inc.op, ast.Add) and isinstance(inc.target, ast.Name) and isinstance(inc.value, ast.Constant)
            and inc.value.value == 1 and type(inc.value.value) is int):
        return None
    i = inc.target.id
    t = s.test
    if not (isinstance(t, ast.Compare) and len(t.ops) == 1 and isinstance(t.ops[0], ast.In) and isinstance(t.left, ast.JoinedStr)
            and isinstance(t.comparators[0], ast.Name) and env.get(t.comparators[0].id, ("", ""))[1] == "lstr"
            and env.get(i, ("", ""))[1] == "nat"):
        return None
    if sum(1 for n in ast.walk(t) if isinstance(n, ast.Name) and n.id == i) != 1:
        return None
    U = env[t.comparators[0].id][0]
    env2 = dict(env)
    env2[i] = ("probe__", "nat")
    test, ty = expr(ctx, env2, t)
    ctx.note(s, f"`while {ast.unparse(t)}: {i} += 1` translated as a fuelled probe with fuel len({t.comparators[0].id}) + 1 "
                f"(every failed probe is a different member of the set, so the loop stops within that many steps)")
    return i, f"(while_probe (S (List.length {U})) {env[i][0]} (fun probe__ => {test}))"


LISTS = {"lnat", "lscell", "lscol", "lbool", "lkeyspec", "svec", "scol"}


def sort_call_pysort(ctx, env, node, seq_node, kws):
    """list.sort / sorted(seq, key=F, reverse=R): Python's stable sort on the keys (flag, value) = Model/Sort.pysort
    with key_leb; `reverse` defaults to False; `key` must be a local key function / a lambda-valued local"""
    if set(kws) - {"key", "reverse"} or "key" not in kws:
        raise ctx.err(node, "sort without key= / with other keywords")
    seq, ts = expr(ctx, env, seq_node)
    if ts not in LISTS:
        raise ctx.err(node, f"sort of a {ts}")
    k = kws["key"]
    if not isinstance(k, ast.Name):
        raise ctx.err(node, "key= is not a plain name")
    if k.id in ctx.localfns:
        cn, caps, argty = ctx.localfns[k.id]
        for c in caps:
            if c not in env:
                raise ctx.err(node, f"key function captures {c!r}, which is unbound here")
        fn = f"{cn} {ctx.kernel.ctxp[1]} " + " ".join(env[c][0] for c in caps)
    elif k.id in env and env[k.id][1] == "vkeyfn":
        fn, argty = env[k.id][0], "scell"
    else:
        raise ctx.err(node, f"key={k.id} is not a local key function")
    if ELEM[ts] != argty:
        raise ctx.err(node, f"key function on {argty} applied to elements of type {ELEM[ts]}")
    if "reverse" in kws:
        r, tr = expr(ctx, env, kws["reverse"])
        r = coerce(ctx, node, r, tr, "bool")
    else:
        r = "false"
    return f"(pysort (fun a b => key_leb vleb ({fn} a) ({fn} b)) {r} {seq})", ts


def sort_expr(ctx, env, node, want):
    """the extra expression forms of the sort_by fragments; None = not one of them"""
    if isinstance(node, ast.Call) and isinstance(node.func, ast.Name) and node.func.id not in env:
        f, a = node.func.id, node.args
        kws = {k.arg: k.value for k in node.keywords}
        if any(isinstance(x, ast.Starred) for x in a) or None in kws:
            return None
        if f == "sorted" and len(a) == 1:
            return sort_call_pysort(ctx, env, node, a[0], kws)
        if kws:
            return None
        if f == "zip" and len(a) == 2:
            x, tx = expr(ctx, env, a[0])
            y, ty = expr(ctx, env, a[1])
            if (tx, ty) != ("lscol", "lbool"):
                raise ctx.err(node, f"zip of {tx} and {ty}")
            ctx.note(node, "ASSUMPTION: zip() of two lists of equal length (the method has checked len(reverse) == len(keys)); "
                           "on unequal lengths both zip and combine stop at the shorter")
            return f"(combine {x} {y})", "lkeyspec"
        if f == "range" and len(a) == 1:
            x, tx = expr(ctx, env, a[0])
            if tx != "nat":
                raise ctx.err(node, f"range of a {tx}")
            return f"(seq 0 {x})", "lnat"
        if f in ("list", "tuple") and len(a) == 1:
            x, tx = expr(ctx, env, a[0])
            if tx not in LISTS:
                raise ctx.err(node, f"{f}() of a {tx}")
            return x, tx
        if f == "reversed" and len(a) == 1:
            x, tx = expr(ctx, env, a[0])
            if tx not in LISTS:
                raise ctx.err(node, f"reversed() of a {tx}")
            return f"(rev {x})", tx
        return None
    if isinstance(node, ast.Subscript) and isinstance(node.ctx, ast.Load):
        d, td = expr(ctx, env, node.value)
        i, ti = expr(ctx, env, node.slice)
        if (td, ti) != ("lscell", "nat"):
            raise ctx.err(node, f"subscript of a {td} by a {ti}")
        ctx.note(node, f"ASSUMPTION: `{ast.unparse(node)}`: the index is a row number of the table and every key column has "
                       f"that many rows (checked by the method before), so nth with default None never uses the default")
        return f"(nth {i} {d} None)", "scell"
    if isinstance(node, ast.Attribute) and isinstance(node.ctx, ast.Load) and node.attr == "_underlying":
        t, ty = expr(ctx, env, node.value)
        if ty in ("scol", "svec"):
            return t, "lscell"
        raise ctx.err(node, f"._underlying of a {ty}")
    if isinstance(node, ast.IfExp):
        # `x if x is not None else <int literal>` (or mirrored): the value component of a key; the literal stands in
        # for None and is only ever compared with itself
        t = node.test
        if (isinstance(t, ast.Compare) and len(t.ops) == 1 and isinstance(t.left, ast.Name) and is_none_const(t.comparators[0])
                and isinstance(t.ops[0], (ast.Is, ast.IsNot)) and t.left.id in env and env[t.left.id][1] == "scell"):
            some, none = (node.body, node.orelse) if isinstance(t.ops[0], ast.IsNot) else (node.orelse, node.body)
            if (isinstance(some, ast.Name) and some.id == t.left.id and isinstance(none, ast.Constant)
                    and type(none.value) is int):
                ctx.note(node, f"ASSUMPTION: `{ast.unparse(node)}`: the literal standing in for None is compared only with "
                               f"itself (two keys with equal flags are both None or both values); translated as the cell itself")
                return env[t.left.id][0], "scell"
        return None
    if isinstance(node, ast.Lambda):
        a = node.args
        if (a.vararg or a.kwarg or a.kwonlyargs or a.posonlyargs or a.defaults or len(a.args) != 1):
            raise ctx.err(node, "lambda shape (need exactly one plain parameter)")
        x = a.args[0].arg
        if x in env or x in CLASSNAMES:
            raise ctx.err(node, f"lambda parameter {x!r} shadows another name")
        env2 = dict(env)
        env2[x] = (mangle(ctx, node, x), "scell")
        t, ty = expr(ctx, env2, node.body, SKEY)
        t = coerce(ctx, node, t, ty, SKEY)
        return f"(fun {env2[x][0]} : option V => {t})", "vkeyfn"
    return None


def typed_args(ctx, env, node, args, types):
    if len(args) != len(types):
        raise ctx.err(node, f"{len(args)} arguments where {len(types)} are expected")
    out = []
    for a, w in zip(args, types):
        t, ty = expr(ctx, env, a, w)
        out.append(coerce(ctx, a, t, ty, w))
    return out


def call(ctx, env, node):
    f = node.func
    if any(isinstance(a, ast.Starred) for a in node.args) or any(k.arg is None for k in node.keywords):
        raise ctx.err(node, "*args / **kwargs in a call")
    if isinstance(f, ast.Name) and f.id not in env:
        if f.id == "DataType":
            args = list(node.args)
            kws = {k.arg: k.value for k in node.keywords}
            if set(kws) - {"kind", "nullable"} or len(kws) != len(node.keywords):
                raise ctx.err(node, "DataType(...) with unknown keywords")
            knode = args[0] if len(args) >= 1 else kws.get("kind")
            nnode = args[1] if len(args) >= 2 else kws.get("nullable")
            if len(args) > 2 or knode is None or (len(args) >= 1 and "kind" in kws) or (len(args) >= 2 and "nullable" in kws):
                raise ctx.err(node, "DataType(...) argument shape")
            k, tk = expr(ctx, env, knode)
            k = coerce(ctx, knode, k, tk, "kind")       # a cls (type(v)) is NOT accepted as a kind
            if nnode is None:
                n = "false"                              # dataclass default nullable=False
                ctx.note(node, "DataType(k) uses the dataclass default nullable=False")
            else:
                n, tn = expr(ctx, env, nnode)
                n = coerce(ctx, nnode, n, tn, "bool")
            return f"(mkD {k} {n})", "dtype"
        if node.keywords:
            raise ctx.err(node, f"keyword arguments in call of {f.id}")
        if f.id == "isinstance":
            if len(node.args) != 2:
                raise ctx.err(node, "isinstance arity")
            v, tv = expr(ctx, env, node.args[0])
            if tv != "vinfo":
                raise ctx.err(node, f"isinstance on a {tv} (must be a value known to be non-None)")
            return disj([f"kind_sub (base {v}) {c}" for c in class_list(ctx, node.args[1])]), "bool"
        if f.id == "issubclass":
            if len(node.args) != 2:
                raise ctx.err(node, "issubclass arity")
            c, tc = expr(ctx, env, node.args[0])
            fn = {"kind": "kind_sub", "cls": "cls_sub"}.get(tc)
            if fn is None:
                raise ctx.err(node, f"issubclass on a {tc}")
            return disj([f"{fn} {c} {k}" for k in class_list(ctx, node.args[1])]), "bool"
        if f.id == "type":
            if len(node.args) != 1:
                raise ctx.err(node, "type() arity")
            v, tv = expr(ctx, env, node.args[0])
            if tv != "vinfo":
                raise ctx.err(node, f"type() of a {tv} (must be a value known to be non-None)")
            return f"(type_of {v})", "cls"
        if f.id in ("max", "min"):
            a = typed_args(ctx, env, node, node.args, ["Z", "Z"])
            return f"(Z.{f.id} {a[0]} {a[1]})", "Z"
        k = ctx.table.get((None, f.id))
        if k is not None and k.mode == "value":
            a = typed_args(ctx, env, node, node.args, k.params)
            return f"({k.coq} {' '.join(a)})", ("kind" if k.wrap_kind else k.ret)
        raise ctx.err(node, f"call of {f.id!r} is not on the allow-list")
    if isinstance(f, ast.Attribute):
        if node.keywords:
            raise ctx.err(node, f"keyword arguments in call of .{f.attr}")
        k = ctx.table.get((ctx.kernel.cls, f.attr)) if ctx.kernel.cls else None
        if k is not None and k.static and k.mode == "value" and (
                (isinstance(f.value, ast.Name) and f.value.id == ctx.kernel.cls and f.value.id not in env)
                or (isinstance(f.value, ast.Name) and env.get(f.value.id, ("", ""))[1] == "vecself")):
            a = typed_args(ctx, env, node, node.args, k.params)          # Vector._hash_element(x) / self._hash_element(x)
            return f"({k.coq} {k.ctxp[1]} {' '.join(a)})", k.ret
        o, to = expr(ctx, env, f.value)
        if to == "text" and f.attr == "strip" and not node.args:
            return f"(txt_strip {o})", "text"
        if to == "dtype":
            k = ctx.table.get(("DataType", f.attr))
            if k is not None and not k.prop and k.mode == "value":
                a = typed_args(ctx, env, node, node.args, k.params[1:])
                return f"({k.coq} {o} {' '.join(a)})", k.ret
        if to == "slice" and f.attr == "indices":
            a = typed_args(ctx, env, node, node.args, ["Z"])
            return f"(slice_indices {o} {a[0]})", ("Z", "Z", "Z")
        raise ctx.err(node, f"method .{f.attr} of a {to} is not on the allow-list")
    raise ctx.err(node, "call form is not on the allow-list")


def equal(ctx, node, a, ta, b, tb, identity):
    """a == b / a is b for two translated operands -> bool text"""
    if ta in ("kind", "cls") and tb in ("kind", "cls"):
        if ta == tb == "kind":
            return f"kind_eqb {a} {b}"
        return f"cls_eqb {coerce(ctx, node, a, ta, 'cls')} {coerce(ctx, node, b, tb, 'cls')}"
    if ta == tb == "name" and not identity:
        return f"pyname_eqb {a} {b}"
    if ta == tb == "Z" and not identity:
        return f"({a} =? {b})%Z"
    if ta == tb == "string" and not identity:
        return f"String.eqb {a} {b}"
    if ta == tb == "bool" and not identity:
        return f"Bool.eqb {a} {b}"
    raise ctx.err(node, f"{'identity' if identity else 'equality'} between {ta} and {tb}")


def is_none_const(n):
    return isinstance(n, ast.Constant) and n.value is None


def compare(ctx, env, node, left, op, right):
    neg = isinstance(op, (ast.IsNot, ast.NotEq, ast.NotIn))
    wrap = (lambda s: f"(negb ({s}))") if neg else (lambda s: f"({s})")
    if isinstance(op, (ast.Is, ast.IsNot, ast.Eq, ast.NotEq)):
        identity = isinstance(op, (ast.Is, ast.IsNot))
        if is_none_const(right) or is_none_const(left):
            other = left if is_none_const(right) else right
            if is_none_const(other):
                raise ctx.err(node, "None compared with None")
            if not identity:
                raise ctx.err(node, "== None (use `is None`)")
            t, ty = expr(ctx, env, other)
            if ty in OPTIONAL:
                return wrap(f"is_None {t}"), "bool"
            if ty in NONOPTIONAL_OBJ:
                ctx.note(node, f"`{ast.unparse(node)}` is statically {'True' if neg else 'False'}: the operand is non-None here")
                return ("true" if neg else "false"), "bool"
            raise ctx.err(node, f"None test on a {ty}")
        a, ta = expr(ctx, env, left)
        if ta == "text" and not identity and isinstance(right, ast.Constant) and right.value == "":
            return wrap(f"txt_empty {a}"), "bool"                  # s == ''
        b, tb = expr(ctx, env, right, "string" if ta == "string" else None)
        return wrap(equal(ctx, node, a, ta, b, tb, identity)), "bool"
    if isinstance(op, (ast.In, ast.NotIn)):
        if not isinstance(right, (ast.Tuple, ast.List)) or not right.elts:
            raise ctx.err(node, "`in` whose right operand is not a non-empty literal tuple/list")
        a, ta = expr(ctx, env, left)
        parts = []
        for e in right.elts:
            b, tb = expr(ctx, env, e, "string" if ta == "string" else None)
            if ta == tb == "string":
                parts.append(f"String.eqb {a} {b}")
            else:
                parts.append(equal(ctx, e, a, ta, b, tb, False))
        return wrap(" || ".join(parts)), "bool"
    zops = {ast.Lt: "<?", ast.LtE: "<=?", ast.Gt: ">?", ast.GtE: ">=?"}
    if type(op) in zops:
        a, ta = expr(ctx, env, left)
        b, tb = expr(ctx, env, right)
        if ta == tb == "Z":
            return f"({a} {zops[type(op)]} {b})%Z", "bool"
        raise ctx.err(node, f"ordering between {ta} and {tb}")
    raise ctx.err(node, f"comparison {type(op).__name__} is not on the allow-list")


# --------------------------------------------------------------------------- statements

def is_docstring(s):
    return isinstance(s, ast.Expr) and isinstance(s.value, ast.Constant) and isinstance(s.value.value, str)


def is_warn(s):
    return (isinstance(s, ast.Expr) and isinstance(s.value, ast.Call) and isinstance(s.value.func, ast.Attribute)
            and s.value.func.attr == "warn" and isinstance(s.value.func.value, ast.Name)
            and s.value.func.value.id == "warnings")


def is_try_issubclass(s):
    if not isinstance(s, ast.Try) or s.orelse or s.finalbody or len(s.handlers) != 1 or len(s.body) != 1:
        return False
    h, b = s.handlers[0], s.body[0]
    return (isinstance(h.type, ast.Name) and h.type.id == "TypeError" and h.name is None and len(h.body) == 1
            and isinstance(h.body[0], ast.Return) and isinstance(h.body[0].value, ast.Constant)
            and h.body[0].value.value is False
            and isinstance(b, ast.Return) and isinstance(b.value, ast.Call)
            and isinstance(b.value.func, ast.Name) and b.value.func.id == "issubclass")


def is_try_convert(s):
    """`try: return int(<e>)  except ValueError: pass`  (also float)"""
    if not isinstance(s, ast.Try) or s.orelse or s.finalbody or len(s.handlers) != 1 or len(s.body) != 1:
        return False
    h, b = s.handlers[0], s.body[0]
    return (isinstance(h.type, ast.Name) and h.type.id == "ValueError" and h.name is None and len(h.body) == 1
            and isinstance(h.body[0], ast.Pass)
            and isinstance(b, ast.Return) and isinstance(b.value, ast.Call) and isinstance(b.value.func, ast.Name)
            and b.value.func.id in CONVERTERS and len(b.value.args) == 1 and not b.value.keywords)


def terminates(stmts):
    if not stmts:
        return False
    s = stmts[-1]
    if isinstance(s, (ast.Return, ast.Raise)):
        return True
    if isinstance(s, ast.If):
        return terminates(s.body) and terminates(s.orelse)
    if isinstance(s, ast.Try):
        return is_try_issubclass(s)
    return False


def walk_outer(node):
    """ast.walk that does not enter nested function definitions / lambdas"""
    if isinstance(node, (ast.FunctionDef, ast.AsyncFunctionDef, ast.Lambda)):
        yield node
        return
    todo = [node]
    while todo:
        n = todo.pop()
        yield n
        for c in ast.iter_child_nodes(n):
            if not isinstance(c, (ast.FunctionDef, ast.AsyncFunctionDef, ast.Lambda)):
                todo.append(c)
            else:
                yield c


def has_exit(stmts):
    return any(isinstance(n, (ast.Return, ast.Raise)) for s in stmts for n in walk_outer(s))


def assigned(stmts):
    """names assigned by a block, in order of first assignment (statement order, depth first)"""
    out = []

    def tgt(t):
        if isinstance(t, ast.Name):
            if t.id not in out:
                out.append(t.id)
        elif isinstance(t, ast.Tuple):
            for e in t.elts:
                tgt(e)

    def go(ss):
        for s in ss:
            if isinstance(s, ast.Assign):
                for t in s.targets:
                    tgt(t)
            elif isinstance(s, ast.AnnAssign):
                tgt(s.target)
            elif (isinstance(s, ast.Expr) and isinstance(s.value, ast.Call) and isinstance(s.value.func, ast.Attribute)
                  and s.value.func.attr == "sort" and isinstance(s.value.func.value, ast.Name)):
                tgt(s.value.func.value)                 # X.sort(...) updates X in place
            elif isinstance(s, ast.If):
                go(s.body)
                go(s.orelse)
            elif isinstance(s, ast.For):
                tgt(s.target)
                go(s.body)
    go(stmts)
    return out


def annotation_type(ctx, node):
    src = ast.unparse(node)
    m = {"Optional[DataType]": "odtype", "DataType": "dtype", "bool": "bool", "int": "Z"}
    if src not in m:
        raise ctx.err(node, f"annotation {src!r} is not on the allow-list")
    return m[src]


def pad(n):
    return "  " * n


def bind(ctx, env, node, name, text, ty):
    """`name = <text : ty>` -> (let-line, new env)"""
    want = ctx.declared.get(name)
    if want is not None:
        text, ty = coerce(ctx, node, text, ty, want), want
    if isinstance(ty, tuple):
        raise ctx.err(node, "a tuple value must be unpacked")
    cn = mangle(ctx, node, name)
    env2 = dict(env)            # an existing key keeps its position: declaration order is preserved
    env2[name] = (cn, ty)
    return f"let {cn} := {text} in", env2


class Cond:
    """the test of an `if`: a bool expression, a narrowing match, or statically decided"""

    def __init__(self, ctx, env, test):
        self.kind, self.swap = "if", False
        t = test
        if (isinstance(t, ast.Compare) and len(t.ops) == 1 and isinstance(t.ops[0], (ast.Is, ast.IsNot))
                and isinstance(t.left, ast.Name) and is_none_const(t.comparators[0]) and t.left.id in env):
            cn, ty = env[t.left.id]
            self.swap = isinstance(t.ops[0], ast.IsNot)
            if ty in NARROW:
                self.kind, self.var, self.cn, self.narrow = "match", t.left.id, cn, NARROW[ty]
                return
            if ty in NONOPTIONAL_OBJ:
                self.kind = "static"      # `x is None` is False: only the else side is live
                ctx.note(test, f"`{ast.unparse(test)}`: {t.left.id} is non-None here; the "
                               f"{'else' if self.swap else 'then'}-branch is dead and NOT translated")
                return
        text, ty = expr(ctx, env, test)
        if ty != "bool":
            raise ctx.err(test, f"`if` on a {ty} (truthiness is not translated)")
        self.text = text

    def envs(self, env):
        """(env of the then-branch, env of the else-branch)"""
        if self.kind == "match":
            some = dict(env)
            some[self.var] = (self.cn, self.narrow)
            return (some, env) if self.swap else (env, some)
        return env, env

    def emit(self, then_text, else_text, ind, lineno):
        p = pad(ind)
        if self.kind == "match":
            none_t, some_t = (else_text, then_text) if self.swap else (then_text, else_text)
            return (f"match {self.cn} with (* L{lineno} *)\n{p}| None =>\n{none_t}\n"
                    f"{p}| Some {self.cn} =>\n{some_t}\n{p}end")
        return f"if {self.text} (* L{lineno} *)\n{p}then\n{then_text}\n{p}else\n{else_text}"


def tuple_text(ctx, node, env, names, types):
    parts = []
    for n, w in zip(names, types):
        if n not in env:
            raise ctx.err(node, f"variable {n!r} may be unbound on this path")
        t, ty = env[n]
        parts.append(coerce(ctx, node, t, ty, w))
    return parts[0] if len(parts) == 1 else "(" + ", ".join(parts) + ")"


def pattern(ctx, node, names):
    cns = [mangle(ctx, node, n) for n in names]
    return cns[0] if len(cns) == 1 else "'(" + ", ".join(cns) + ")"


def block(ctx, env, stmts, ind):
    """Coq term (text, already indented by `ind`) for a statement list; its type is ctx.ret
    (or whatever ctx.finish produces)."""
    p = pad(ind)
    if not stmts:
        if ctx.finish is None:
            raise TranslationError(ctx.file, getattr(ctx.kernel.node, "end_lineno", 0),
                                   f"{ctx.kernel.py}: control can fall off the end (implicit `return None`)")
        return p + ctx.finish(env)
    s, rest = stmts[0], stmts[1:]
    if is_docstring(s) or isinstance(s, ast.Pass):
        return block(ctx, env, rest, ind)
    if is_warn(s):
        ctx.note(s, "warnings.warn(...) skipped")
        return block(ctx, env, rest, ind)
    if isinstance(s, (ast.Return, ast.Raise)) or (isinstance(s, ast.If) and terminates([s])) or is_try_issubclass(s):
        if rest:
            raise ctx.err(rest[0], "unreachable statement")
    if isinstance(s, ast.Return):
        if ctx.finish is not None:
            raise ctx.err(s, "`return` inside a loop body / joined branch")
        if ctx.mode == "accept":
            return f"{p}true (* L{s.lineno} return: accepted *)"
        if s.value is None:
            raise ctx.err(s, "bare `return`")
        t, ty = expr(ctx, env, s.value, ctx.ret)
        return f"{p}{coerce(ctx, s, t, ty, ctx.ret)} (* L{s.lineno} *)"
    if isinstance(s, ast.Raise):
        e = s.exc
        name = e.func.id if isinstance(e, ast.Call) and isinstance(e.func, ast.Name) else (e.id if isinstance(e, ast.Name) else None)
        if ctx.mode != "accept" or ctx.finish is not None or name != "TypeError" or s.cause is not None:
            raise ctx.err(s, "`raise` other than `raise TypeError(...)` in an accept/reject kernel")
        return f"{p}false (* L{s.lineno} raise TypeError: rejected *)"
    if is_try_issubclass(s):
        ctx.note(s, "ASSUMPTION: `try: return issubclass(...) except TypeError: return False` translated as its "
                    "try-body (kind is always a class)")
        return block(ctx, env, s.body, ind)
    if is_try_convert(s) and ctx.ret == "cell" and ctx.finish is None:
        fn = s.body[0].value.func.id
        if fn in env:
            raise ctx.err(s, f"{fn} is a local name here")
        t, ty = expr(ctx, env, s.body[0].value.args[0])
        if ty != "text":
            raise ctx.err(s, f"{fn}() of a {ty}")
        ok, con = CONVERTERS[fn]
        ctx.note(s, f"ASSUMPTION: `try: return {fn}(..) except ValueError: pass` — {fn}() of a str raises nothing but "
                    f"ValueError; {ok} = it does not raise")
        return (f"{p}if ({ok} {t}) (* L{s.lineno} try {fn}() *)\n{p}then\n{pad(ind + 1)}({con} {t}) (* L{s.body[0].lineno} *)\n"
                f"{p}else\n" + block(ctx, env, rest, ind + 1))
    if isinstance(s, ast.Try):
        raise ctx.err(s, "try statement other than `try: return issubclass(..) except TypeError: return False` or (in a cell-conversion kernel) `try: return int|float(<text>) except ValueError: pass`")
    if isinstance(s, (ast.Assign, ast.AnnAssign)):
        if isinstance(s, ast.AnnAssign):
            if not isinstance(s.target, ast.Name) or s.value is None or not s.simple:
                raise ctx.err(s, "annotated assignment shape")
            ty = annotation_type(ctx, s.annotation)
            if ctx.declared.get(s.target.id, ty) != ty:
                raise ctx.err(s, f"{s.target.id!r} re-declared with another type")
            ctx.declared[s.target.id] = ty
            target, want = s.target, ty
        else:
            if len(s.targets) != 1:
                raise ctx.err(s, "chained assignment")
            target = s.targets[0]
            want = ctx.declared.get(target.id) if isinstance(target, ast.Name) else None
        if isinstance(target, ast.Name):
            if target.id in CLASSNAMES or target.id in BUILTIN_FUNCS or (None, target.id) in ctx.table:
                raise ctx.err(s, f"assignment shadows the builtin/kernel name {target.id!r}")
            t, ty = expr(ctx, env, s.value, want)
            line, env2 = bind(ctx, env, s, target.id, t, ty)
            return f"{p}{line} (* L{s.lineno} *)\n" + block(ctx, env2, rest, ind)
        if isinstance(target, ast.Tuple) and all(isinstance(e, ast.Name) for e in target.elts):
            names = [e.id for e in target.elts]
            if len(set(names)) != len(names) or any(n in ctx.declared or n in CLASSNAMES for n in names):
                raise ctx.err(s, "tuple-unpacking target shape")
            t, ty = expr(ctx, env, s.value)
            if not (isinstance(ty, tuple) and len(ty) == len(names)):
                raise ctx.err(s, f"cannot unpack a {ty} into {len(names)} names")
            env2 = dict(env)
            for n, et in zip(names, ty):
                env2[n] = (mangle(ctx, s, n), et)
            return f"{p}let {pattern(ctx, s, names)} := {t} in (* L{s.lineno} *)\n" + block(ctx, env2, rest, ind)
        raise ctx.err(s, "assignment target is not a name or a tuple of names")
    if isinstance(s, ast.If) and ctx.kernel.elem_forms and not s.orelse and terminates(s.body):
        src = ast.unparse(s.test)
        for v, (cn, ty) in env.items():
            for form, fn in ELEM_TESTS.items():
                if ty == "elem" and fn in ELEM_UNTRANSLATED_TESTS and src == form.format(x=v):
                    ctx.note(s, f"NOT TRANSLATED: the branch `if {src}:` (lines {s.lineno}-{s.end_lineno}, "
                                f"{ELEM_UNTRANSLATED_TESTS[fn]}); its value is the parameter el_untranslated")
                    if ctx.finish is not None:
                        raise ctx.err(s, "untranslated branch inside a loop body / joined branch")
                    return (f"{p}if ({fn} (el_obs {cn})) (* L{s.lineno} *)\n{p}then\n{pad(ind + 1)}(el_untranslated {cn}) "
                            f"(* L{s.lineno}-{s.end_lineno} branch NOT translated: {ELEM_UNTRANSLATED_TESTS[fn]} *)\n"
                            f"{p}else\n" + block(ctx, env, rest, ind + 1))
    if isinstance(s, ast.If):
        cond = Cond(ctx, env, s.test)
        if cond.kind == "static":
            live = s.body if cond.swap else s.orelse
            return block(ctx, env, list(live) + list(rest), ind)
        env_t, env_e = cond.envs(env)
        if not has_exit([s]):
            # pure conditional assignment: join the assigned variables
            names = assigned([s])
            if not names:
                raise ctx.err(s, "`if` without effect")
            saved = ctx.finish
            seen = []
            ctx.finish = lambda e: (seen.append(e), "_")[1]
            block(ctx, env_t, s.body, 0)
            block(ctx, env_e, s.orelse, 0)
            types = []
            for n in names:
                tys = []
                for e in seen:
                    if n not in e:
                        raise ctx.err(s, f"variable {n!r} is not bound on every path through this `if`")
                    tys.append(e[n][1])
                d = ctx.declared.get(n)
                if d is not None:
                    types.append(d)
                elif len(set(tys)) == 1:
                    types.append(tys[0])
                elif set(tys) == {"kind", "cls"}:
                    types.append("cls")
                else:
                    raise ctx.err(s, f"variable {n!r} gets different types {sorted(set(map(str, tys)))} on different paths")
            ctx.finish = lambda e: tuple_text(ctx, s, e, names, types)
            a = block(ctx, env_t, s.body, ind + 2)
            b = block(ctx, env_e, s.orelse, ind + 2)
            ctx.finish = saved
            env2 = dict(env)
            for n, ty in zip(names, types):
                env2[n] = (mangle(ctx, s, n), ty)
            return (f"{p}let {pattern(ctx, s, names)} :=\n{pad(ind + 1)}" + cond.emit(a, b, ind + 1, s.lineno) +
                    f"\n{p}in\n" + block(ctx, env2, rest, ind))
        a = block(ctx, env_t, list(s.body) + ([] if terminates(s.body) else list(rest)), ind + 1)
        b = block(ctx, env_e, list(s.orelse) + ([] if terminates(s.orelse) else list(rest)), ind + 1)
        return p + cond.emit(a, b, ind, s.lineno)
    if ctx.kernel.name_forms and isinstance(s, ast.While):
        r = probe_loop(ctx, env, s)
        if r is None:
            raise ctx.err(s, "`while` other than the name probe `while f\"{base}{i}\" in <set>: i += 1`")
        line, env2 = bind(ctx, env, s, r[0], r[1], "nat")
        return f"{p}{line} (* L{s.lineno} while *)\n" + block(ctx, env2, rest, ind)
    if (ctx.kernel.name_forms and isinstance(s, ast.Expr) and isinstance(s.value, ast.Call)
            and isinstance(s.value.func, ast.Attribute) and s.value.func.attr == "add"
            and isinstance(s.value.func.value, ast.Name) and env.get(s.value.func.value.id, ("", ""))[1] == "lstr"
            and len(s.value.args) == 1 and not s.value.keywords):
        U = s.value.func.value.id
        t, ty = expr(ctx, env, s.value.args[0])
        t = coerce(ctx, s, t, ty, "str")
        line, env2 = bind(ctx, env, s, U, f"({t} :: {env[U][0]})", "lstr")
        return f"{p}{line} (* L{s.lineno} {U}.add(...) *)\n" + block(ctx, env2, rest, ind)
    if isinstance(s, ast.FunctionDef) and ctx.kernel.sort_forms:
        return local_key_function(ctx, env, s, rest, ind)
    if (ctx.kernel.sort_forms and isinstance(s, ast.Expr) and isinstance(s.value, ast.Call)
            and isinstance(s.value.func, ast.Attribute) and s.value.func.attr == "sort"
            and isinstance(s.value.func.value, ast.Name) and not s.value.args):
        x = s.value.func.value.id
        if x not in env:
            raise ctx.err(s, f"{x}.sort(): unknown name")
        t, ty = sort_call_pysort(ctx, env, s.value, s.value.func.value, {k.arg: k.value for k in s.value.keywords})
        line, env2 = bind(ctx, env, s, x, t, ty)
        return f"{p}{line} (* L{s.lineno} {x}.sort(...) in place *)\n" + block(ctx, env2, rest, ind)
    if isinstance(s, ast.For):
        return for_loop(ctx, env, s, rest, ind)
    raise ctx.err(s, f"statement form {type(s).__name__} is not on the allow-list")


def local_key_function(ctx, env, s, rest, ind):
    """`def key_fn(i, a=a, b=b): ...` inside a sort_by: a key function used by the sort call that FOLLOWS IT IMMEDIATELY.
    Parameters after the first must have defaults that are plain names (bound when the def runs); other free names
    are read from the enclosing scope — the same values, because the only call is the sort in the next statement."""
    a = s.args
    if (s.decorator_list or a.vararg or a.kwarg or a.kwonlyargs or a.posonlyargs or not a.args
            or len(a.defaults) != len(a.args) - 1 or s.name in env or s.name in ctx.localfns):
        raise ctx.err(s, "local function shape (need def f(x, n1=n1, ...) with one argument and name defaults)")
    nxt = rest[0] if rest else None
    uses = [n for r in rest for n in ast.walk(r) if isinstance(n, ast.Name) and n.id == s.name]
    if not (nxt is not None and isinstance(nxt, ast.Expr) and isinstance(nxt.value, ast.Call)
            and any(k.arg == "key" and isinstance(k.value, ast.Name) and k.value.id == s.name for k in nxt.value.keywords)
            and len(uses) == 1):
        raise ctx.err(s, f"{s.name} must be used exactly once, as key= of the sort call in the next statement")
    argty = getattr(ctx.kernel, "keyfn_arg", "nat")
    fenv = dict(env)
    for prm, d in zip(a.args[1:], a.defaults):
        if not isinstance(d, ast.Name) or d.id not in env:
            raise ctx.err(s, f"default of {prm.arg} is not a bound plain name")
        fenv[prm.arg] = env[d.id]
    x = a.args[0].arg
    if x in env:
        raise ctx.err(s, f"parameter {x!r} shadows another name")
    fenv[x] = (mangle(ctx, s, x), argty)
    saved = (ctx.ret, ctx.mode, ctx.finish, dict(ctx.declared))
    ctx.ret, ctx.mode, ctx.finish = SKEY, "value", None
    body = block(ctx, fenv, s.body, 1)
    ctx.ret, ctx.mode, ctx.finish, ctx.declared = saved
    word = lambda cn: re.search(r"(?<![A-Za-z0-9_'])" + re.escape(cn) + r"(?![A-Za-z0-9_'])", body)
    # captured names: those of the enclosing scope (through a default or directly) that the body mentions;
    # canonical order: by Coq type (descending), then by name
    caps = {}
    for n, (cn, ty) in fenv.items():
        if n != x and word(cn):
            src = next((d.id for prm, d in zip(a.args[1:], a.defaults) if prm.arg == n), n)
            caps[src] = (cn, ty)
    order = sorted(caps, key=lambda n: (coqty(caps[n][1]), n))
    order.sort(key=lambda n: coqty(caps[n][1]), reverse=True)
    cn = f"{ctx.kernel.coq}_{s.name}"
    params = "".join(f" ({caps[n][0]} : {coqty(caps[n][1])})" for n in order)
    cp = ctx.kernel.ctxp[0]
    ctx.aux.append((cn, f"(* {Path(ctx.file).name}:{s.lineno}-{s.end_lineno} local function {s.name} of {ctx.kernel.py}; "
                        f"captured: {', '.join(order)} *)\n"
                        f"Definition {cn}{' ' + cp if cp else ''}{params} ({fenv[x][0]} : {coqty(argty)}) : {coqty(SKEY)} :=\n{body}.\n"))
    ctx.localfns[s.name] = (cn, order, argty)
    return block(ctx, env, rest, ind)


def for_loop(ctx, env, s, rest, ind):
    p = pad(ind)
    tgt_ok = isinstance(s.target, ast.Name) or (isinstance(s.target, ast.Tuple) and s.target.elts
                                                 and all(isinstance(e, ast.Name) for e in s.target.elts))
    iter_ok = isinstance(s.iter, (ast.Name, ast.Attribute)) or (ctx.kernel.sort_forms and isinstance(s.iter, ast.Call))
    if s.orelse or not tgt_ok or not iter_ok:
        raise ctx.err(s, "`for` shape (need `for x in <name or self attribute>:` without else)")
    if ctx.finish is not None:
        raise ctx.err(s, "nested loop / loop inside a joined branch")
    iter_src = ast.unparse(s.iter)
    iter_text, iter_ty = expr(ctx, env, s.iter)
    if iter_ty not in ELEM:
        raise ctx.err(s, f"`for` over {iter_src!r}, which is not a list parameter")
    iter_names = {n.id for n in ast.walk(s.iter) if isinstance(n, ast.Name)}
    if has_exit(s.body) or any(isinstance(n, (ast.Break, ast.Continue, ast.For, ast.While)) for b in s.body for n in ast.walk(b)):
        raise ctx.err(s, "loop body with return/raise/break/continue/nested loop")
    xs = [s.target.id] if isinstance(s.target, ast.Name) else [e.id for e in s.target.elts]
    ety = ELEM[iter_ty]
    etys = [ety] if isinstance(s.target, ast.Name) else list(ety) if isinstance(ety, tuple) else None
    if etys is None or len(etys) != len(xs) or len(set(xs)) != len(xs) or (isinstance(s.target, ast.Name) and isinstance(ety, tuple)):
        raise ctx.err(s, f"loop target does not match the element type {ety}")
    x = ", ".join(xs)
    if any(v in env or v in CLASSNAMES for v in xs):
        raise ctx.err(s, f"loop variable {x!r} shadows another name")
    body_assigned = assigned(s.body)
    if any(v in body_assigned for v in xs):
        raise ctx.err(s, "loop variable assigned in the body")
    # loop state: canonical order = by Coq type (descending), ties in declaration order — so that renaming a
    # variable or swapping two initialisations does not change the type of the generated loop body
    carried = [n for n in env if n in body_assigned]
    carried.sort(key=lambda n: coqty(ctx.declared.get(n, env[n][1])), reverse=True)
    # names first bound inside the body are loop-local temporaries: allowed when nothing after the loop reads them
    # (a read before the assignment inside the body is an unknown name there, so it fails closed)
    missing = [n for n in body_assigned if n not in env]
    after = {n.id for r in rest for n in ast.walk(r) if isinstance(n, ast.Name)}
    if any(n in after or n in ctx.declared for n in missing):
        raise ctx.err(s, f"variables {missing} assigned in the loop are not initialised before it but used after it")
    if any(n in iter_names for n in body_assigned):
        raise ctx.err(s, "the loop body assigns a name the iterated expression depends on")
    if not carried:
        raise ctx.err(s, "loop without loop-carried state")
    if any(isinstance(n, ast.Name) and n.id in xs for r in rest for n in ast.walk(r)):
        raise ctx.err(s, "loop variable used after the loop")
    ctypes = []
    for n in carried:
        ty = ctx.declared.get(n, env[n][1])
        ctx.declared[n] = ty                                   # loop-carried: fixed type from here on
        ctypes.append(ty)
    used = {n.id for b in s.body for n in ast.walk(b) if isinstance(n, ast.Name)}
    extra = [n for n in env if n in used and n not in carried and not (isinstance(s.iter, ast.Name) and n == s.iter.id)]
    if isinstance(s.iter, ast.Name) and s.iter.id in used:
        raise ctx.err(s, "the iterated list is used inside the loop body")
    if any(env[n][1] == "vecself" for n in extra) and any(
            isinstance(n, ast.Attribute) and n.attr == "_underlying" for b in s.body for n in ast.walk(b)):
        raise ctx.err(s, "the iterated storage is used inside the loop body")
    ctx.nloops += 1
    lname = f"{ctx.kernel.coq}_loop" + ("" if ctx.nloops == 1 else str(ctx.nloops))
    benv = {n: env[n] for n in extra}
    for n, ty in zip(carried, ctypes):
        benv[n] = (mangle(ctx, s, n), ty)
    for v, t in zip(xs, etys):
        benv[v] = (mangle(ctx, s, v), t)
    ctx.finish = lambda e: tuple_text(ctx, s, e, carried, ctypes) + " (* next loop state *)"
    body = block(ctx, benv, s.body, 1)
    ctx.finish = None
    # an outer name the body mentions only as the receiver of a static method / class constant emits nothing
    extra = [n for n in extra if re.search(r"(?<![A-Za-z0-9_'])" + re.escape(env[n][0]) + r"(?![A-Za-z0-9_'])", body)]
    st_ty = tuple(ctypes) if len(ctypes) > 1 else ctypes[0]
    params = "".join(f" ({env[n][0]} : {coqty(env[n][1])})" for n in extra)
    cp, ca = ctx.kernel.ctxp
    params = (" " + cp if cp else "") + params
    head = (f"(* {Path(ctx.file).name}:{s.lineno}-{s.end_lineno} body of `for {x} in {iter_src}` of {ctx.kernel.py}; "
            f"state = ({', '.join(carried)}) *)\n"
            f"Definition {lname}{params} (st : {coqty(st_ty)}) "
            f"({'elem__' if len(xs) > 1 else mangle(ctx, s, xs[0])} : {coqty(ety)}) : {coqty(st_ty)} :=\n"
            f"  let {pattern(ctx, s, carried)} := st in\n"
            + (f"  let {pattern(ctx, s, xs)} := elem__ in\n" if len(xs) > 1 else "") + f"{body}.\n")
    ctx.aux.append((lname, head))
    init = tuple_text(ctx, s, env, carried, ctypes)
    env2 = dict(env)
    for n, ty in zip(carried, ctypes):
        env2[n] = (mangle(ctx, s, n), ty)
    args = (" " + ca if ca else "") + "".join(" " + env[n][0] for n in extra)
    return (f"{p}let {pattern(ctx, s, carried)} := fold_left ({lname}{args}) {iter_text} {init} in "
            f"(* L{s.lineno} for *)\n" + block(ctx, env2, rest, ind))


# --------------------------------------------------------------------------- functions and files

def find_function(file, tree, k):
    scope = tree.body
    if k.cls is not None:
        cs = [n for n in tree.body if isinstance(n, ast.ClassDef) and n.name == k.cls]
        if len(cs) != 1:
            raise TranslationError(file, 0, f"class {k.cls}: found {len(cs)} definitions")
        scope = cs[0].body
    fs = [n for n in scope if isinstance(n, (ast.FunctionDef, ast.AsyncFunctionDef)) and n.name == k.py]
    if len(fs) != 1 or not isinstance(fs[0], ast.FunctionDef):
        raise TranslationError(file, 0, f"function {(k.cls + '.') if k.cls else ''}{k.py}: found {len(fs)} definitions")
    f = fs[0]
    # no second definition hidden in an `if`/`try`/nested scope, no re-binding of the name by assignment/import
    root = cs[0] if k.cls is not None else tree
    for n in ast.walk(root):
        if n is f:
            continue
        rebinds = (
            (isinstance(n, (ast.FunctionDef, ast.AsyncFunctionDef, ast.ClassDef)) and n.name == k.py
             and (k.cls is not None or not any(n in c.body for c in ast.walk(tree) if isinstance(c, ast.ClassDef)))) or
            (isinstance(n, ast.Name) and n.id == k.py and isinstance(n.ctx, (ast.Store, ast.Del))
             and (k.cls is None or n in [t for st in cs[0].body if isinstance(st, (ast.Assign, ast.AnnAssign))
                                         for t in ast.walk(st)])) or
            (isinstance(n, ast.Attribute) and n.attr == k.py and isinstance(n.ctx, (ast.Store, ast.Del))) or
            (isinstance(n, ast.alias) and (n.asname or n.name) == k.py))
        if rebinds:
            raise TranslationError(file, getattr(n, "lineno", 0), f"{k.py}: the name is bound a second time")
    if k.cls is not None:
        for n in ast.walk(tree):
            if isinstance(n, ast.Attribute) and n.attr == k.py and isinstance(n.ctx, (ast.Store, ast.Del)):
                raise TranslationError(file, n.lineno, f"{k.cls}.{k.py} is re-bound by an attribute assignment")
            if isinstance(n, ast.Name) and n.id == k.cls and isinstance(n.ctx, (ast.Store, ast.Del)):
                raise TranslationError(file, n.lineno, f"class name {k.cls} is re-bound")
    decos = [ast.unparse(d) for d in f.decorator_list]
    want_decos = ["property"] if k.prop else (["staticmethod"] if k.static else [])
    if decos != want_decos:
        raise TranslationError(file, f.lineno, f"{k.py}: decorators {decos} (expected {want_decos})")
    a = f.args
    if a.vararg or a.kwarg or a.kwonlyargs or a.posonlyargs or a.defaults or a.kw_defaults:
        raise TranslationError(file, f.lineno, f"{k.py}: parameter list with defaults/*args/**kwargs/keyword-only")
    if len(a.args) != len(k.params):
        raise TranslationError(file, f.lineno, f"{k.py}: {len(a.args)} parameters, the interface has {len(k.params)}")
    return f


def check_module(file, tree, need_imports):
    """the builtin class names must mean the builtins / datetime classes in this module"""
    bound = {}
    for n in tree.body:
        if isinstance(n, (ast.FunctionDef, ast.AsyncFunctionDef, ast.ClassDef)):
            bound.setdefault(n.name, []).append(("def", n.lineno))
        elif isinstance(n, (ast.Import, ast.ImportFrom)):
            for al in n.names:
                nm = (al.asname or al.name).split(".")[0]
                src = (n.module if isinstance(n, ast.ImportFrom) else None, al.name)
                bound.setdefault(nm, []).append((src, n.lineno))
        elif isinstance(n, (ast.Assign, ast.AnnAssign, ast.AugAssign)):
            for t in (n.targets if isinstance(n, ast.Assign) else [n.target]):
                for x in ast.walk(t):
                    if isinstance(x, ast.Name):
                        bound.setdefault(x.id, []).append(("assign", n.lineno))
    for nm in list(CLASSNAMES) + ["isinstance", "issubclass", "type", "max", "min", "TypeError", "ValueError"]:
        got = bound.get(nm, [])
        if nm in ("date", "datetime"):
            if nm in need_imports and [g[0] for g in got] != [("datetime", nm)]:
                raise TranslationError(file, got[0][1] if got else 0,
                                       f"name {nm!r} must be bound exactly once, by `from datetime import {nm}`")
        elif got:
            raise TranslationError(file, got[0][1], f"module rebinds the builtin name {nm!r}")


def translate_function(file, k, table, notes, consts=None):
    f = k.node
    ctx = Ctx(file, k, table, notes)
    ctx.consts = consts or {}
    env = {}
    for a, ty in zip(f.args.args, k.params):
        if a.arg in CLASSNAMES or a.arg in BUILTIN_FUNCS:
            raise ctx.err(f, f"parameter {a.arg!r} shadows a builtin name")
        env[a.arg] = (mangle(ctx, f, a.arg), ty)
        ctx.declared[a.arg] = ty
    if k.params and k.params[0] == "vinfo":
        notes.append(f"{Path(file).name}:{f.lineno} {k.py}: ASSUMPTION: translated on its non-None domain "
                     f"({f.args.args[0].arg} : vinfo)")
    body = block(ctx, env, f.body, 1)
    params = " ".join(([k.ctxp[0]] if k.ctxp[0] else []) +
                      [f"({env[a.arg][0]} : {coqty(ty)})" for a, ty in zip(f.args.args, k.params)])
    qual = (k.cls + "." if k.cls else "") + k.py
    name = k.coq + ("_cls" if k.wrap_kind else "")
    out = "".join(h + "\n" for _, h in ctx.aux)
    out += (f"(* {Path(file).name}:{f.lineno}-{f.end_lineno} {qual}"
            f"{'  [true = returns, false = raises TypeError]' if k.mode == 'accept' else ''} *)\n"
            f"Definition {name} {params} : {coqty(k.ret)} :=\n{body}.\n")
    out = LET_ID.sub(r"\1\3 (* L\4 *)", out)
    while LET_ID2.search(out):
        out = LET_ID2.sub(lambda m: m.group(3).rstrip("\n"), out)
    defs = [n for n, _ in ctx.aux] + [name]
    if k.wrap_kind:
        out += (f"\n(* {qual} as a kind: see as_kind in Base/GenPrelude.v and EqTyping.gen_{k.coq}_in_range *)\n"
                f"Definition {k.coq} {params} : kind := as_kind ({name} {' '.join(env[a.arg][0] for a in f.args.args)}).\n")
        defs.append(k.coq)
    return out, defs, (f.lineno, f.end_lineno)


IS_HASHABLE_SRC = "def _is_hashable(x: Any) -> bool:\n    try:\n        hash(x)\n        return True\n    except Exception:\n        return False"


def check_fp_helpers(file, tree):
    """what the element observations of _hash_element rely on: `math` is the math module, `_is_hashable(x)` is
    "hash(x) does not raise" (its body must be exactly that), hasattr/callable/getattr/hash/repr/int are builtins"""
    tops = [n for n in tree.body if isinstance(n, (ast.Import, ast.ImportFrom, ast.FunctionDef, ast.ClassDef, ast.Assign,
                                                   ast.AnnAssign, ast.AugAssign))]
    def binders(name):
        out = []
        for n in tops:
            if isinstance(n, (ast.Import, ast.ImportFrom)):
                out += [n for al in n.names if (al.asname or al.name).split(".")[0] == name]
            elif isinstance(n, (ast.FunctionDef, ast.ClassDef)):
                out += [n] if n.name == name else []
            else:
                out += [n for t in (n.targets if isinstance(n, ast.Assign) else [n.target])
                        for x in ast.walk(t) if isinstance(x, ast.Name) and x.id == name]
        return out
    m = binders("math")
    if len(m) != 1 or ast.unparse(m[0]) != "import math":
        raise TranslationError(file, m[0].lineno if m else 0, "`math` must be bound exactly once, by `import math`")
    h = binders("_is_hashable")
    if len(h) != 1 or not isinstance(h[0], ast.FunctionDef) or ast.unparse(h[0]) != IS_HASHABLE_SRC:
        raise TranslationError(file, h[0].lineno if h else 0,
                               "_is_hashable must be defined exactly once, as `try: hash(x); return True / except Exception: return False`")
    for nm in ("hasattr", "callable", "getattr", "hash", "repr", "int", "float", "set"):
        b = binders(nm)
        if b:
            raise TranslationError(file, b[0].lineno, f"module rebinds the builtin name {nm!r}")
    for n in ast.walk(tree):
        if isinstance(n, ast.Name) and n.id in ("math", "_is_hashable", "hash") and isinstance(n.ctx, (ast.Store, ast.Del)):
            raise TranslationError(file, n.lineno, f"{n.id!r} is re-bound")


def class_constants(file, tree, cls, consts, notes):
    """class-level integer constants `NAME = <int expression>` (exactly one binding in the whole module)"""
    cs = [n for n in tree.body if isinstance(n, ast.ClassDef) and n.name == cls]
    if len(cs) != 1:
        raise TranslationError(file, 0, f"class {cls}: found {len(cs)} definitions")
    out, mapping, lines = [], {}, {}
    for py, coq in consts:
        here = [st for st in cs[0].body if isinstance(st, ast.Assign) and len(st.targets) == 1
                and isinstance(st.targets[0], ast.Name) and st.targets[0].id == py]
        stores = [n for n in ast.walk(tree)
                  if (isinstance(n, ast.Name) and n.id == py and isinstance(n.ctx, (ast.Store, ast.Del)))
                  or (isinstance(n, ast.Attribute) and n.attr == py and isinstance(n.ctx, (ast.Store, ast.Del)))
                  or (isinstance(n, ast.Call) and isinstance(n.func, ast.Name) and n.func.id in ("setattr", "delattr")
                      and any(isinstance(a, ast.Constant) and a.value == py for a in n.args))]
        if len(here) != 1 or len(stores) != 1:
            raise TranslationError(file, here[0].lineno if here else 0,
                                   f"{cls}.{py}: expected exactly one class-level assignment and no other binding "
                                   f"(found {len(here)} / {len(stores)})")
        k = Kernel(f"{cls}.{py}", coq, [], "Z", cls=cls)
        k.node = here[0]
        ctx = Ctx(file, k, {}, notes)
        t, ty = expr(ctx, {}, here[0].value)
        if ty != "Z":
            raise ctx.err(here[0], f"constant of type {ty}")
        out.append(f"(* {Path(file).name}:{here[0].lineno} {cls}.{py} = {ast.unparse(here[0].value)} *)\n"
                   f"Definition {coq} : Z := {t}.\n")
        mapping[py] = coq
        lines[coq] = [here[0].lineno, here[0].lineno]
    return "\n".join(out), mapping, lines


def translate_file(pyfile: Path, kernels, modname, imports, need_imports=(), consts=(), fp_helpers=False):
    try:
        src = pyfile.read_text()
    except OSError as e:
        raise TranslationError(pyfile, 0, f"cannot read: {e}")
    try:
        tree = ast.parse(src, filename=str(pyfile))
    except SyntaxError as e:
        raise TranslationError(pyfile, e.lineno or 0, f"syntax error: {e.msg}")
    check_module(pyfile, tree, need_imports)
    if fp_helpers:
        check_fp_helpers(pyfile, tree)
    table = {}
    for k in kernels:
        k.node = find_function(pyfile, tree, k)
        table[(k.cls, k.py)] = k
    notes, parts, defs, lines = [], [], [], {}
    cmap = {}
    if consts:
        text, cmap, clines = class_constants(pyfile, tree, kernels[0].cls, consts, notes)
        parts.append(text)
        lines.update(clines)
    for k in kernels:
        text, ds, span = translate_function(pyfile, k, table, notes, cmap)
        parts.append(text)
        defs += ds
        lines[k.coq] = list(span)
    head = (f"(* {modname}.v — GENERATED by harness/translate.py from {pyfile.name}; do not edit.\n"
            f"   source sha1 {hashlib.sha1(src.encode()).hexdigest()}\n"
            + "".join(f"   {n}\n" for n in notes).replace("*)", "* )") +
            "*)\n" + imports + "\n")
    return head + "\n".join(parts), {"definitions": defs, "lines": lines, "notes": notes}


# ---- statement-level fragments: which uniqueness checks the three joins run for which `expect` ----------

JOIN_FUNCS = [("inner_join", "inner_join"), ("join", "left_join"), ("full_join", "full_join")]
JOIN_FLAGS = ["check_right_unique", "check_left_unique"]


def translate_joins(pyfile: Path):
    """From Table.inner_join / join / full_join: the `if expect not in (...): raise` guard, the two assignments
    `check_right_unique = <expr over expect>` / `check_left_unique = ...`, and the default of `expect`.  Fail-closed:
    `expect` must be a parameter that is never assigned, the three statements must be TOP-LEVEL statements of the
    function, the guard must come first, each flag must be assigned exactly once in the whole function, and every
    other use of `expect` must be inside an f-string (error messages)."""
    src = pyfile.read_text()
    tree = ast.parse(src, filename=str(pyfile))
    check_module(pyfile, tree, ())
    cs = [n for n in tree.body if isinstance(n, ast.ClassDef) and n.name == "Table"]
    if len(cs) != 1:
        raise TranslationError(pyfile, 0, f"class Table: found {len(cs)} definitions")
    notes, parts, lines = [], [], {}
    for py, coq in JOIN_FUNCS:
        fs = [n for n in cs[0].body if isinstance(n, (ast.FunctionDef, ast.AsyncFunctionDef)) and n.name == py]
        if len(fs) != 1 or not isinstance(fs[0], ast.FunctionDef) or fs[0].decorator_list:
            raise TranslationError(pyfile, 0, f"method Table.{py}: found {len(fs)} plain definitions")
        f = fs[0]
        k = Kernel(f"Table.{py}", coq, ["string"], "bool")
        k.node = f
        ctx = Ctx(pyfile, k, {}, notes)
        a = f.args
        if a.vararg or a.kwarg or a.kwonlyargs or a.posonlyargs:
            raise ctx.err(f, "parameter list with *args/**kwargs/keyword-only")
        names = [x.arg for x in a.args]
        if names.count("expect") != 1:
            raise ctx.err(f, "no parameter named `expect`")
        di = names.index("expect") - (len(names) - len(a.defaults))
        dflt = a.defaults[di] if di >= 0 else None
        if not (isinstance(dflt, ast.Constant) and isinstance(dflt.value, str)):
            raise ctx.err(f, "`expect` has no string default")
        env = {"expect": ("py_expect", "string")}
        for n in ast.walk(f):
            if isinstance(n, ast.Name) and n.id == "expect" and not isinstance(n.ctx, ast.Load):
                raise ctx.err(n, "`expect` is assigned")
            if isinstance(n, ast.arg) and n.arg == "expect" and n is not a.args[names.index("expect")]:
                raise ctx.err(n, "`expect` is re-bound by a nested function")
            if isinstance(n, (ast.Global, ast.Nonlocal)):
                raise ctx.err(n, "global/nonlocal")
        for fl in JOIN_FLAGS:
            stores = [n for n in ast.walk(f) if isinstance(n, ast.Name) and n.id == fl and isinstance(n.ctx, ast.Store)]
            if len(stores) != 1:
                raise ctx.err(f, f"`{fl}` is assigned {len(stores)} times (expected exactly once)")

        def uses_expect(stmt):
            inside = {id(x) for j in ast.walk(stmt) if isinstance(j, ast.JoinedStr) for x in ast.walk(j)}
            return any(isinstance(n, ast.Name) and n.id == "expect" and id(n) not in inside for n in ast.walk(stmt))

        guard, flags = None, {}
        for i, st in enumerate(f.body):
            if isinstance(st, ast.Assign) and len(st.targets) == 1 and isinstance(st.targets[0], ast.Name) \
                    and st.targets[0].id in JOIN_FLAGS:
                if guard is None:
                    raise ctx.err(st, "a uniqueness flag is computed before `expect` is validated")
                t, ty = expr(ctx, env, st.value)
                flags[st.targets[0].id] = (coerce(ctx, st, t, ty, "bool"), st.lineno)
                continue
            if not uses_expect(st):
                continue
            if (guard is None and isinstance(st, ast.If) and not st.orelse and len(st.body) == 1
                    and isinstance(st.body[0], ast.Raise)):
                t, ty = expr(ctx, env, st.test)
                guard = (coerce(ctx, st, t, ty, "bool"), st.lineno)
                exc = st.body[0].exc
                notes.append(f"{pyfile.name}:{st.lineno} Table.{py}: guard raises "
                             f"{ast.unparse(exc.func) if isinstance(exc, ast.Call) else ast.unparse(exc)}")
                continue
            raise ctx.err(st, "`expect` is used (outside an f-string) by a statement that is neither the validation guard "
                              "nor a check_*_unique assignment")
        if guard is None or set(flags) != set(JOIN_FLAGS):
            raise ctx.err(f, "validation guard / check_right_unique / check_left_unique not found as top-level statements")
        parts.append(
            f"(* {pyfile.name}:{f.lineno} Table.{py}: default of `expect` *)\n"
            f"Definition {coq}_expect_default : string := {expr(ctx, env, dflt, 'string')[0]}.\n\n"
            f"(* {pyfile.name}:{guard[1]} Table.{py}: `if <this>: raise ...` — true = the expect value is rejected *)\n"
            f"Definition {coq}_expect_rejected (py_expect : string) : bool :=\n  {guard[0]}.\n\n" +
            "".join(f"(* {pyfile.name}:{flags[fl][1]} Table.{py}: {fl} = ... *)\n"
                    f"Definition {coq}_{fl} (py_expect : string) : bool :=\n  {flags[fl][0]}.\n\n" for fl in JOIN_FLAGS))
        lines[coq] = [guard[1], flags[JOIN_FLAGS[0]][1], flags[JOIN_FLAGS[1]][1]]
    head = (f"(* GenJoin.v — GENERATED by harness/translate.py from {pyfile.name}; do not edit.\n"
            f"   source sha1 {hashlib.sha1(src.encode()).hexdigest()}\n"
            "   statement-level fragments of the three joins: what `expect` decides\n"
            + "".join(f"   {n}\n" for n in notes).replace("*)", "* )") + "*)\n"
            "From Coq Require Import List Bool String.\nOpen Scope string_scope.\n\n")
    return head + "".join(parts), {"lines": lines, "notes": notes}


IMPORTS_TYPING = ("From Coq Require Import List Bool Arith.\n"
                  "From Serif Require Import Base.PyVal Base.GenPrelude.\nImport ListNotations.\n")
IMPORTS_SLICE = ("From Coq Require Import List Bool ZArith.\n"
                 "From Serif Require Import Base.PyVal Base.GenPrelude.\nLocal Open Scope Z_scope.\n")
# ---- the memo protocol of fingerprint(): Vector.fingerprint and Table.fingerprint ---------------------------
# The object is seen through its attribute `_fp` (Optional[int]) only; `self._compute_fingerprint_full()` is the
# parameter fp_full (the fingerprint of the CURRENT contents).  The functions return (new self._fp, returned value).

class _MemoRewrite(ast.NodeTransformer):
    """self._fp -> the local self__fp;  self._compute_fingerprint_full() -> fp_full;
    `if <test over self._fp_powers / len / self._underlying>: self._ensure_fp_powers()` -> dropped (noted);
    super().fingerprint() -> vector_fingerprint(self__fp, fp_full);  return e -> return (self__fp, e)"""

    def __init__(self, file, fname, notes, in_table):
        self.file, self.fname, self.notes, self.in_table = file, fname, notes, in_table

    def bad(self, node, what):
        return TranslationError(self.file, getattr(node, "lineno", 0), f"{self.fname}: {what}")

    def visit_Attribute(self, node):
        if isinstance(node.value, ast.Name) and node.value.id == "self" and node.attr == "_fp":
            return ast.copy_location(ast.Name(id="self__fp", ctx=node.ctx), node)
        return self.generic_visit(node)

    def visit_Call(self, node):
        f = node.func
        if (isinstance(f, ast.Attribute) and isinstance(f.value, ast.Name) and f.value.id == "self"
                and f.attr == "_compute_fingerprint_full" and not node.args and not node.keywords):
            return ast.copy_location(ast.Name(id="fp_full", ctx=ast.Load()), node)
        if (self.in_table and isinstance(f, ast.Attribute) and f.attr == "fingerprint" and not node.args
                and not node.keywords and ast.unparse(f.value) == "super()"):
            if not getattr(self, "_in_return", False):
                raise self.bad(node, "super().fingerprint() somewhere else than `return super().fingerprint()`")
            return ast.copy_location(ast.Call(func=ast.Name(id="vector_fingerprint", ctx=ast.Load()),
                                              args=[ast.Name(id="self__fp", ctx=ast.Load()),
                                                    ast.Name(id="fp_full", ctx=ast.Load()),
                                                    ast.Constant(value=False)], keywords=[]), node)
        return self.generic_visit(node)

    def visit_If(self, node):
        if (not node.orelse and len(node.body) == 1 and isinstance(node.body[0], ast.Expr)
                and ast.unparse(node.body[0].value) == "self._ensure_fp_powers()"):
            for n in ast.walk(node.test):
                ok = (isinstance(n, (ast.BoolOp, ast.And, ast.Or, ast.Compare, ast.Is, ast.IsNot, ast.Eq, ast.NotEq,
                                     ast.Load, ast.Constant))
                      or (isinstance(n, ast.Name) and n.id in ("self", "len"))
                      or (isinstance(n, ast.Attribute) and n.attr in ("_fp_powers", "_underlying"))
                      or (isinstance(n, ast.Call) and isinstance(n.func, ast.Name) and n.func.id == "len"))
                if not ok:
                    raise self.bad(node, f"test of the _ensure_fp_powers() guard reads something else: {ast.unparse(node.test)}")
            self.notes.append(f"{Path(self.file).name}:{node.lineno} {self.fname}: ASSUMPTION: "
                              f"`if {ast.unparse(node.test)}: self._ensure_fp_powers()` skipped (it only maintains the "
                              f"derived cache self._fp_powers; checked: _ensure_fp_powers assigns no other attribute)")
            return ast.copy_location(ast.Pass(), node)
        return self.generic_visit(node)

    def visit_Return(self, node):
        if node.value is None:
            raise self.bad(node, "bare return")
        if self.in_table and ast.unparse(node.value) == "super().fingerprint()":
            self._in_return = True        # the call updates self._fp itself: its (state, value) pair IS the result
            v = self.visit(node.value)
            self._in_return = False
            return ast.copy_location(ast.Return(value=v), node)
        v = self.visit(node.value)
        return ast.copy_location(ast.Return(value=ast.Tuple(elts=[ast.Name(id="self__fp", ctx=ast.Load()), v],
                                                            ctx=ast.Load())), node)


def _method(file, tree, cls, name):
    cs = [n for n in tree.body if isinstance(n, ast.ClassDef) and n.name == cls]
    if len(cs) != 1:
        raise TranslationError(file, 0, f"class {cls}: found {len(cs)} definitions")
    fs = [n for n in ast.walk(cs[0]) if isinstance(n, (ast.FunctionDef, ast.AsyncFunctionDef)) and n.name == name]
    if len(fs) != 1 or fs[0] not in cs[0].body or not isinstance(fs[0], ast.FunctionDef) or fs[0].decorator_list:
        raise TranslationError(file, 0, f"method {cls}.{name}: found {len(fs)} plain definitions")
    a = fs[0].args
    if [x.arg for x in a.args] != ["self"] or a.vararg or a.kwarg or a.kwonlyargs or a.posonlyargs:
        raise TranslationError(file, fs[0].lineno, f"{cls}.{name}: parameters other than (self)")
    for n in ast.walk(tree):
        if isinstance(n, ast.Attribute) and n.attr == name and isinstance(n.ctx, (ast.Store, ast.Del)):
            raise TranslationError(file, n.lineno, f"{cls}.{name} is re-bound by an attribute assignment")
    return cs[0], fs[0]


def translate_fp_memo(vector_py: Path, table_py: Path):
    notes, parts, lines = [], [], {}
    vt = ast.parse(vector_py.read_text(), filename=str(vector_py))
    tt = ast.parse(table_py.read_text(), filename=str(table_py))
    vcls, vf = _method(vector_py, vt, "Vector", "fingerprint")
    _, ens = _method(vector_py, vt, "Vector", "_ensure_fp_powers")
    for n in ast.walk(ens):       # _ensure_fp_powers may only maintain self._fp_powers
        if isinstance(n, ast.Attribute) and isinstance(n.ctx, (ast.Store, ast.Del)) and n.attr != "_fp_powers":
            raise TranslationError(vector_py, n.lineno, f"_ensure_fp_powers assigns self.{n.attr}")
        if isinstance(n, ast.Call) and not (isinstance(n.func, ast.Name) and n.func.id in ("len", "range")):
            raise TranslationError(vector_py, n.lineno, f"_ensure_fp_powers calls {ast.unparse(n.func)}")
        if isinstance(n, (ast.Global, ast.Nonlocal, ast.Delete)):
            raise TranslationError(vector_py, n.lineno, "_ensure_fp_powers: global/nonlocal/del")
    tcls, tf = _method(table_py, tt, "Table", "fingerprint")
    if [ast.unparse(b) for b in tcls.bases] != ["Vector"] or tcls.keywords:
        raise TranslationError(table_py, tcls.lineno, "class Table must have the single base Vector")
    imp = [n for n in tt.body if isinstance(n, ast.ImportFrom) and any((al.asname or al.name) == "Vector" for al in n.names)]
    if len(imp) != 1 or imp[0].module != "vector" or imp[0].level != 1:
        raise TranslationError(table_py, imp[0].lineno if imp else 0, "`Vector` must be bound by `from .vector import Vector`")
    for nm in ("_compute_fingerprint_full", "_hash_element", "_FP_P", "_FP_B", "_ensure_fp_powers"):
        for n in ast.walk(tt):
            if ((isinstance(n, (ast.FunctionDef, ast.AsyncFunctionDef)) and n.name == nm)
                    or (isinstance(n, ast.Name) and n.id == nm and isinstance(n.ctx, ast.Store))
                    or (isinstance(n, ast.Attribute) and n.attr == nm and isinstance(n.ctx, ast.Store))):
                raise TranslationError(table_py, n.lineno, f"table.py overrides / re-binds {nm}")
    ret = ("ofp", "ofp")
    kv = Kernel("fingerprint", "vector_fingerprint", ["ofp", "Z", "bool"], ret, cls="Vector")
    kt = Kernel("fingerprint", "table_fingerprint", ["ofp", "Z"], ret, cls="Table")
    for file, f, k, in_table in ((vector_py, vf, kv, False), (table_py, tf, kt, True)):
        import copy
        f = copy.deepcopy(f)
        if not in_table:
            # since F49: `kind = <the dtype's kind or None>` and `if self._fp is not None and isinstance(kind, type) and
            # issubclass(kind, Vector): self._fp = None` - "the elements are vectors" is the bool parameter `nested`
            b = [st for st in f.body if not (isinstance(st, ast.Expr) and isinstance(st.value, ast.Constant))]
            pre = ["kind = self._dtype.kind if self._dtype is not None else None",
                   "if self._fp is not None and isinstance(kind, type) and issubclass(kind, Vector):\n    self._fp = None"]
            if len(b) < 2 or [ast.unparse(x) for x in b[:2]] != pre:
                raise TranslationError(file, f.lineno, "Vector.fingerprint does not start with the nested-vectors test "
                                                       f"(`{pre[0]}` / `{pre[1].splitlines()[0]}`)")
            repl = ast.parse("if self._fp is not None and nested:\n    self._fp = None").body[0]
            ast.copy_location(repl, b[1])
            f.body = [repl] + b[2:]
            notes.append(f"{Path(file).name}:{b[0].lineno} Vector.fingerprint: ASSUMPTION: `isinstance(kind, type) and issubclass(kind, "
                         f"Vector)` for the dtype's kind is the parameter `nested` (the vector's elements are vectors)")
        g = _MemoRewrite(file, f"{k.cls}.fingerprint", notes, in_table).visit(f)
        ast.fix_missing_locations(g)
        g.args.args = [ast.arg(arg="self__fp"), ast.arg(arg="fp_full")] + ([] if in_table else [ast.arg(arg="nested")])
        k.node = g
        text, _, _ = translate_function(file, k, {(None, "vector_fingerprint"): kv} if in_table else {}, notes)
        parts.append(text.replace(f"{k.cls}.fingerprint *)", f"{k.cls}.fingerprint as (self._fp before, fingerprint of the "
                                  f"current contents) -> (self._fp after, returned value) *)", 1))
        lines[k.coq] = [f.lineno, f.end_lineno]
    return "\n".join(parts), {"lines": lines, "notes": notes}


# ---- the operator dispatch of the arithmetic dunders (vector.py, table.py) ----------------------------------

BOPS = [("add", "Add", ast.Add, "+"), ("sub", "Sub", ast.Sub, "-"), ("mul", "Mul", ast.Mult, "*"),
        ("truediv", "TrueDiv", ast.Div, "/"), ("floordiv", "FloorDiv", ast.FloorDiv, "//"),
        ("mod", "Mod", ast.Mod, "%"), ("pow", "Pow", ast.Pow, "**")]
DISPATCH = [("Vector", "vector.py", "_elementwise_operation", "vector_dispatch"),
            ("Table", "table.py", "_table_elementwise_operation", "table_dispatch")]


def _coq_string(file, node, v):
    if not (isinstance(v, str) and all(32 <= ord(c) < 127 and c != '"' for c in v)):
        raise TranslationError(file, node.lineno, f"label {v!r} is not a plain printable ASCII string")
    return f'"{v}"'


def _binop_of(file, fn, where, args, body):
    """`<p> OP <q>` over exactly the two parameters -> (Coq bop, swapped)"""
    if not (isinstance(body, ast.BinOp) and isinstance(body.left, ast.Name) and isinstance(body.right, ast.Name)):
        raise TranslationError(file, where.lineno, f"{fn}: body is not `<param> OP <param>`")
    a = args
    if (a.vararg or a.kwarg or a.kwonlyargs or a.posonlyargs or a.defaults or a.kw_defaults or len(a.args) != 2
            or a.args[0].arg == a.args[1].arg):
        raise TranslationError(file, where.lineno, f"{fn}: needs exactly two plain parameters")
    p, q = a.args[0].arg, a.args[1].arg
    ops = [b for b in BOPS if isinstance(body.op, b[2])]
    if not ops or {body.left.id, body.right.id} != {p, q}:
        raise TranslationError(file, where.lineno, f"{fn}: body `{ast.unparse(body)}` is not one of + - * / // % ** "
                                                   f"over its two parameters")
    return ops[0][1], body.left.id == q        # f(p, q) = q OP p  ->  swapped


def translate_dispatch(repo_src: Path):
    """Which operator and which operand order each arithmetic dunder of Vector / Table hands to
    _elementwise_operation / _table_elementwise_operation, read off the one-line method bodies."""
    notes, parts, lines = [], [], {}
    for cls, fname, via, coqname in DISPATCH:
        file = repo_src / fname
        try:
            tree = ast.parse(file.read_text(), filename=str(file))
        except (OSError, SyntaxError) as e:
            raise TranslationError(file, getattr(e, "lineno", 0) or 0, f"cannot parse: {e}")
        cs = [n for n in tree.body if isinstance(n, ast.ClassDef) and n.name == cls]
        if len(cs) != 1:
            raise TranslationError(file, 0, f"class {cls}: found {len(cs)} definitions")
        ops_imp = [n for n in tree.body for al in getattr(n, "names", []) if isinstance(n, (ast.Import, ast.ImportFrom))
                   and (al.asname or al.name).split(".")[0] == "operator"]
        if len(ops_imp) != 1 or ast.unparse(ops_imp[0]) != "import operator":
            raise TranslationError(file, 0, "`operator` must be bound exactly once, by `import operator`")
        for n in ast.walk(tree):
            if isinstance(n, ast.Name) and n.id == "operator" and isinstance(n.ctx, (ast.Store, ast.Del)):
                raise TranslationError(file, n.lineno, "`operator` is re-bound")
            if isinstance(n, ast.Attribute) and isinstance(n.ctx, (ast.Store, ast.Del)) and (
                    n.attr == via or (n.attr.startswith("__") and n.attr.strip("_").lstrip("r") in [b[0] for b in BOPS])):
                raise TranslationError(file, n.lineno, f".{n.attr} is re-bound by an attribute assignment")
        vias = [n for n in ast.walk(cs[0]) if isinstance(n, (ast.FunctionDef, ast.AsyncFunctionDef)) and n.name == via]
        if len(vias) != 1 or vias[0] not in cs[0].body:
            raise TranslationError(file, 0, f"{cls}.{via}: found {len(vias)} definitions")
        vp = [a.arg for a in vias[0].args.args]
        if len(vp) != 5 or vias[0].args.vararg or vias[0].args.kwarg or vias[0].args.kwonlyargs or vias[0].args.defaults:
            raise TranslationError(file, vias[0].lineno, f"{cls}.{via}: expected (self, other, op_func, op_name, op_symbol)")
        rows = []
        for refl in (False, True):
            for pyop, coqop, _, _ in BOPS:
                dname = f"__{'r' if refl else ''}{pyop}__"
                d = f"({'Refl' if refl else 'Plain'} {coqop})"
                fs = [n for n in ast.walk(cs[0]) if isinstance(n, (ast.FunctionDef, ast.AsyncFunctionDef)) and n.name == dname]
                binds = [n for n in ast.walk(cs[0]) if isinstance(n, ast.Name) and n.id == dname and isinstance(n.ctx, ast.Store)]
                if len(fs) != 1 or fs[0] not in cs[0].body or not isinstance(fs[0], ast.FunctionDef) or binds:
                    raise TranslationError(file, 0, f"{cls}.{dname}: found {len(fs)} definitions / {len(binds)} assignments")
                f = fs[0]
                a = f.args
                if (f.decorator_list or a.vararg or a.kwarg or a.kwonlyargs or a.posonlyargs or a.defaults
                        or len(a.args) != 2):
                    raise TranslationError(file, f.lineno, f"{cls}.{dname}: expected plain (self, other)")
                me, other = a.args[0].arg, a.args[1].arg
                body = [st for st in f.body if not is_docstring(st)]
                route = None
                if len(body) == 1 and isinstance(body[0], ast.Return) and isinstance(body[0].value, ast.Call):
                    c = body[0].value
                    fn = c.func
                    recv = isinstance(fn, ast.Attribute) and isinstance(fn.value, ast.Name) and fn.value.id == me
                    plain = not c.keywords and not any(isinstance(x, ast.Starred) for x in c.args)
                    if recv and plain and fn.attr == via and len(c.args) == 4 and isinstance(c.args[0], ast.Name) \
                            and c.args[0].id == other and all(isinstance(x, ast.Constant) for x in c.args[2:]):
                        g = c.args[1]
                        if isinstance(g, ast.Attribute) and isinstance(g.value, ast.Name) and g.value.id == "operator" \
                                and g.attr in [b[0] for b in BOPS] and "operator" not in (me, other):
                            o, sw = [b[1] for b in BOPS if b[0] == g.attr][0], False      # operator.sub(a, b) = a - b
                        elif isinstance(g, ast.Lambda):
                            o, sw = _binop_of(file, f"lambda in {cls}.{dname}", g, g.args, g.body)
                        elif isinstance(g, ast.Name) and g.id not in (me, other):
                            hs = [n for n in ast.walk(tree) if isinstance(n, (ast.FunctionDef, ast.AsyncFunctionDef, ast.ClassDef))
                                  and n.name == g.id]
                            st = [n for n in ast.walk(tree) if isinstance(n, ast.Name) and n.id == g.id
                                  and isinstance(n.ctx, (ast.Store, ast.Del))]
                            if len(hs) != 1 or hs[0] not in tree.body or not isinstance(hs[0], ast.FunctionDef) or st \
                                    or hs[0].decorator_list:
                                raise TranslationError(file, c.lineno, f"{cls}.{dname}: helper {g.id} must be ONE plain "
                                                                       f"module-level function (found {len(hs)} defs, {len(st)} assignments)")
                            hb = [x for x in hs[0].body if not is_docstring(x)]
                            if len(hb) != 1 or not isinstance(hb[0], ast.Return) or hb[0].value is None:
                                raise TranslationError(file, hs[0].lineno, f"{g.id}: body is not a single return")
                            o, sw = _binop_of(file, g.id, hs[0], hs[0].args, hb[0].value)
                        else:
                            raise TranslationError(file, c.lineno, f"{cls}.{dname}: op_func `{ast.unparse(g)}` is not "
                                                                   f"operator.<op>, a module-level helper or a lambda")
                        route = (f"GVia {o} {'true' if sw else 'false'} {_coq_string(file, c, c.args[2].value)} "
                                 f"{_coq_string(file, c, c.args[3].value)}")
                    elif recv and plain and len(c.args) == 1 and isinstance(c.args[0], ast.Name) and c.args[0].id == other:
                        tgt = [(r2, b) for r2 in (False, True) for b in BOPS if fn.attr == f"__{'r' if r2 else ''}{b[0]}__"]
                        if tgt:
                            route = f"GDelegate ({'Refl' if tgt[0][0] else 'Plain'} {tgt[0][1][1]})"
                if route is None:
                    route = "GOwnBody"
                    notes.append(f"{fname}:{f.lineno} {cls}.{dname}: has its own body (lines {f.lineno}-{f.end_lineno}), NOT translated")
                rows.append(f"    ({d}, {route})  (* {fname}:{f.lineno} {dname} *)")
                lines[f"{coqname}.{dname}"] = [f.lineno, f.end_lineno]
        body = ";\n".join([r.split("  (* ")[0] for r in rows])
        cmts = "\n".join("   " + r.split("  (* ")[1].replace(" *)", "") for r in rows)
        parts.append(f"(* {fname}: class {cls}; rows (source lines):\n{cmts} *)\n"
                     f"Definition {coqname} : list (dunder * groute) :=\n  [\n{body} ].\n")
    head = ("(* GenDispatch.v — GENERATED by harness/translate.py from vector.py and table.py; do not edit.\n"
            "   one row per arithmetic dunder: GVia o swapped name symbol  =  return self._elementwise_operation(other, f, name,\n"
            "   symbol) with f(a, b) = a <o> b (swapped = false) or b <o> a (swapped = true); see Base/GenPrelude.v.\n"
            "   NOT translated: how _elementwise_operation applies op_func to (element of self, element of other) — that is\n"
            "   Model/Elementwise.elementwise_operation, tied by the correspondence check of C05.\n"
            + "".join(f"   {n}\n" for n in notes).replace("*)", "* )") + "*)\n"
            "From Coq Require Import List String.\nFrom Serif Require Import Model.Elementwise Base.GenPrelude.\n"
            "Import ListNotations.\nOpen Scope string_scope.\n\n")
    return head + "\n".join(parts), {"lines": lines, "notes": notes}


# ---- sort_by: the key functions, the passes and their order (table.py step 5, vector.py) ----------------------

SORT_CTXP = ("(V : Type) (vleb : V -> V -> bool)", "V vleb")
IMPORTS_SORT = ("From Coq Require Import List Bool Arith.\nFrom Serif Require Import Base.PyVal Base.GenPrelude Model.Sort.\n"
                "Import ListNotations.\n")


def _sort_method(file, tree, cls):
    cs = [n for n in tree.body if isinstance(n, ast.ClassDef) and n.name == cls]
    if len(cs) != 1:
        raise TranslationError(file, 0, f"class {cls}: found {len(cs)} definitions")
    fs = [n for n in ast.walk(cs[0]) if isinstance(n, (ast.FunctionDef, ast.AsyncFunctionDef)) and n.name == "sort_by"]
    if len(fs) != 1 or fs[0] not in cs[0].body or not isinstance(fs[0], ast.FunctionDef) or fs[0].decorator_list:
        raise TranslationError(file, 0, f"method {cls}.sort_by: found {len(fs)} plain definitions")
    f = fs[0]
    a = f.args
    if a.vararg or a.kwarg or a.kwonlyargs or a.posonlyargs:
        raise TranslationError(file, f.lineno, f"{cls}.sort_by: *args / **kwargs / keyword-only parameters")
    for n in ast.walk(tree):
        if isinstance(n, ast.Attribute) and n.attr == "sort_by" and isinstance(n.ctx, (ast.Store, ast.Del)):
            raise TranslationError(file, n.lineno, f"{cls}.sort_by is re-bound by an attribute assignment")
        if isinstance(n, ast.Name) and n.id in ("sorted", "zip", "reversed", "range", "list", "tuple") \
                and isinstance(n.ctx, (ast.Store, ast.Del)):
            raise TranslationError(file, n.lineno, f"builtin {n.id} is re-bound")
    return f


def _stores(node, name):
    """assignments to `name` (a parameter of a nested key function that shadows it is handled by the translation)"""
    return [n for n in ast.walk(node) if isinstance(n, ast.Name) and n.id == name and isinstance(n.ctx, (ast.Store, ast.Del))]


def translate_sort(repo_src: Path):
    notes, parts, lines = [], [], {}
    # ---- Table.sort_by, step 5: indices = list(range(nrows)); for col, rev in reversed(list(zip(resolved, rev_flags))): ...
    file = repo_src / "table.py"
    tree = ast.parse(file.read_text(), filename=str(file))
    f = _sort_method(file, tree, "Table")
    names = [x.arg for x in f.args.args]
    if "na_last" not in names or _stores(f, "na_last"):
        raise TranslationError(file, f.lineno, "Table.sort_by: `na_last` must be a parameter that is never assigned")
    loops = [st for st in f.body if isinstance(st, ast.For)
             and any(isinstance(n, ast.Call) and isinstance(n.func, ast.Name) and n.func.id == "zip" for n in ast.walk(st.iter))]
    inner = [n for n in ast.walk(f) if isinstance(n, ast.Call) and isinstance(n.func, ast.Attribute) and n.func.attr == "sort"]
    if len(loops) != 1 or len(inner) != 1 or inner[0] not in list(ast.walk(loops[0])):
        raise TranslationError(file, f.lineno, f"Table.sort_by: expected ONE top-level `for ... in ...zip(..)...` loop holding the "
                                               f"one .sort() call (found {len(loops)} loops, {len(inner)} sort calls)")
    L = loops[0]
    i = f.body.index(L)
    prev = f.body[i - 1] if i > 0 else None
    zips = [n for n in ast.walk(L.iter) if isinstance(n, ast.Call) and isinstance(n.func, ast.Name) and n.func.id == "zip"]
    if (len(zips) != 1 or len(zips[0].args) != 2 or zips[0].keywords or not all(isinstance(x, ast.Name) for x in zips[0].args)
            or not (isinstance(prev, ast.Assign) and len(prev.targets) == 1 and isinstance(prev.targets[0], ast.Name))):
        raise TranslationError(file, L.lineno, "Table.sort_by: need `I = list(range(N))` directly before the loop and zip(A, B) of two names")
    A, B = zips[0].args[0].id, zips[0].args[1].id
    I = prev.targets[0].id
    rng = [n for n in ast.walk(prev.value) if isinstance(n, ast.Call) and isinstance(n.func, ast.Name) and n.func.id == "range"]
    if len(rng) != 1 or len(rng[0].args) != 1 or not isinstance(rng[0].args[0], ast.Name):
        raise TranslationError(file, prev.lineno, "Table.sort_by: the index list is not built from range(<name>)")
    N = rng[0].args[0].id
    if len({A, B, N, I, "na_last"}) != 5:
        raise TranslationError(file, L.lineno, "Table.sort_by: the names of the fragment are not distinct")
    for nm in (A, B, N, "na_last"):
        if _stores(L, nm):
            raise TranslationError(file, L.lineno, f"Table.sort_by: {nm} is assigned inside the sort loop")
    after_uses = [st for st in f.body[i + 1:] for n in ast.walk(st) if isinstance(n, ast.Name) and n.id == I
                  and isinstance(n.ctx, (ast.Store, ast.Del))]
    if after_uses:
        raise TranslationError(file, after_uses[0].lineno, f"Table.sort_by: {I} is re-assigned after the sort loop")
    syn = ast.FunctionDef(name="sort_by", args=ast.arguments(posonlyargs=[], args=[ast.arg(arg=x) for x in (A, B, "na_last", N)],
                                                           kwonlyargs=[], kw_defaults=[], defaults=[]),
                          body=[prev, L, ast.Return(value=ast.Name(id=I, ctx=ast.Load()))], decorator_list=[])
    ast.copy_location(syn, f)
    syn.end_lineno = L.end_lineno
    ast.fix_missing_locations(syn)
    syn.body[2].lineno = L.end_lineno
    k = Kernel("sort_by", "table_sort_indices", ["lscol", "lbool", "bool", "nat"], "lnat", cls="Table", ctxp=SORT_CTXP,
               sort_forms=True)
    k.node, k.keyfn_arg = syn, "nat"
    notes.append(f"table.py:{prev.lineno}-{L.end_lineno} Table.sort_by: ONLY step 5 is translated, as a function of "
                 f"({A}, {B}, na_last, {N}) returning {I}; steps 1-4 (normalising by/reverse, resolving the key columns, the "
                 f"empty table) and step 6 (gathering the rows) are Model/Sort.resolve_keys / gather (correspondence check)")
    text, _, _ = translate_function(file, k, {}, notes)
    parts.append(text)
    lines["table_sort_indices"] = [prev.lineno, L.end_lineno]
    # ---- Vector.sort_by: the two key lambdas and sorted(...)
    file = repo_src / "vector.py"
    tree = ast.parse(file.read_text(), filename=str(file))
    f = _sort_method(file, tree, "Vector")
    if len(f.args.args) != 3:
        raise TranslationError(file, f.lineno, "Vector.sort_by: expected (self, reverse, na_last)")
    me = f.args.args[0].arg
    for prm in f.args.args[1:]:
        if _stores(f, prm.arg):
            raise TranslationError(file, f.lineno, f"Vector.sort_by: parameter {prm.arg} is assigned")
    body = [st for st in f.body if not is_docstring(st)]
    srt = [st for st in body if isinstance(st, ast.Assign) and any(
        isinstance(n, ast.Call) and isinstance(n.func, ast.Name) and n.func.id == "sorted" for n in ast.walk(st.value))]
    allsorted = [n for n in ast.walk(f) if isinstance(n, ast.Call) and (
        (isinstance(n.func, ast.Name) and n.func.id == "sorted") or (isinstance(n.func, ast.Attribute) and n.func.attr == "sort"))]
    if len(srt) != 1 or len(allsorted) != 1 or len(srt[0].targets) != 1 or not isinstance(srt[0].targets[0], ast.Name):
        raise TranslationError(file, f.lineno, f"Vector.sort_by: expected ONE `X = ...sorted(...)` statement (found {len(srt)} / {len(allsorted)})")
    j = body.index(srt[0])
    T = srt[0].targets[0].id
    tail = body[j + 1:]
    ok_tail = (len(tail) == 2 and isinstance(tail[0], ast.Assign) and len(tail[0].targets) == 1
               and isinstance(tail[0].targets[0], ast.Name) and isinstance(tail[0].value, ast.Call)
               and isinstance(tail[0].value.func, ast.Name) and tail[0].value.func.id == "Vector"
               and len(tail[0].value.args) == 1 and isinstance(tail[0].value.args[0], ast.Name) and tail[0].value.args[0].id == T
               and isinstance(tail[1], ast.Return) and isinstance(tail[1].value, ast.Name)
               and tail[1].value.id == tail[0].targets[0].id)
    if not ok_tail:
        raise TranslationError(file, srt[0].lineno, f"Vector.sort_by: after the sort, expected `W = Vector({T}, ...)` and `return W`")
    syn = ast.FunctionDef(name="sort_by", args=ast.arguments(posonlyargs=[], args=list(f.args.args), kwonlyargs=[],
                                                           kw_defaults=[], defaults=[]),
                          body=body[:j + 1] + [ast.Return(value=ast.Name(id=T, ctx=ast.Load()))], decorator_list=[])
    ast.copy_location(syn, f)
    syn.end_lineno = srt[0].end_lineno
    ast.fix_missing_locations(syn)
    syn.body[-1].lineno = srt[0].end_lineno
    k = Kernel("sort_by", "vector_sort_by", ["svec", "bool", "bool"], "lscell", cls="Vector", ctxp=SORT_CTXP, sort_forms=True)
    k.node, k.keyfn_arg = syn, "scell"
    notes.append(f"vector.py:{f.lineno}-{srt[0].end_lineno} Vector.sort_by: translated up to `{T} = ...sorted(...)`, as a function of "
                 f"({me}._underlying, {f.args.args[1].arg}, {f.args.args[2].arg}) returning {T}; the wrapping "
                 f"`Vector({T}, dtype=..., name=...)` is not translated (shape checked)")
    text, _, _ = translate_function(file, k, {}, notes)
    parts.append(text)
    lines["vector_sort_by"] = [f.lineno, srt[0].end_lineno]
    head = ("(* GenSort.v — GENERATED by harness/translate.py from table.py (Table.sort_by, step 5) and vector.py\n"
            "   (Vector.sort_by); do not edit.  list.sort / sorted with key= and reverse= is Model/Sort.pysort on the keys\n"
            "   (flag, value) compared by Model/Sort.key_leb (the flag first; False < True; values by vleb).\n"
            + "".join(f"   {n}\n" for n in dict.fromkeys(notes)).replace("*)", "* )") + "*)\n" + IMPORTS_SORT + "\n")
    return head + "\n".join(parts), {"lines": lines, "notes": list(dict.fromkeys(notes))}


# ---- aggregate / window: the output-name helpers (table.py) ---------------------------------------------------

IMPORTS_AGGNAMES = ("From Coq Require Import List Bool Arith Ascii String.\n"
                    "From Serif Require Import Base.PyVal Base.GenPrelude Model.Naming.\nImport ListNotations.\n")


class _ReturnWithState(ast.NodeTransformer):
    """return e  ->  return (e, <set>) : the helper's effect on the enclosing used-name set made explicit"""

    def __init__(self, U):
        self.U = U

    def visit_Return(self, node):
        return ast.copy_location(ast.Return(value=ast.Tuple(elts=[node.value, ast.Name(id=self.U, ctx=ast.Load())],
                                                            ctx=ast.Load())), node)

    def visit_FunctionDef(self, node):      # only the helper itself
        node.body = [self.visit(b) for b in node.body]
        return node


def translate_aggnames(table_py: Path):
    import copy
    notes, parts, lines = [], [], {}
    tree = ast.parse(table_py.read_text(), filename=str(table_py))
    cs = [n for n in tree.body if isinstance(n, ast.ClassDef) and n.name == "Table"]
    if len(cs) != 1:
        raise TranslationError(table_py, 0, f"class Table: found {len(cs)} definitions")
    sans = [n for n in tree.body if isinstance(n, (ast.Import, ast.ImportFrom))
            and any((al.asname or al.name) == "_sanitize_user_name" for al in n.names)]
    if len(sans) != 1 or ast.unparse(sans[0]) != "from .naming import _sanitize_user_name":
        raise TranslationError(table_py, 0, "`_sanitize_user_name` must be bound once, by `from .naming import _sanitize_user_name`")
    for meth in ("aggregate", "window"):
        ms = [n for n in ast.walk(cs[0]) if isinstance(n, (ast.FunctionDef, ast.AsyncFunctionDef)) and n.name == meth]
        if len(ms) != 1 or ms[0] not in cs[0].body or ms[0].decorator_list:
            raise TranslationError(table_py, 0, f"method Table.{meth}: found {len(ms)} plain definitions")
        M = ms[0]
        err = lambda node, what: TranslationError(table_py, getattr(node, "lineno", M.lineno), f"Table.{meth}: {what}")
        if any(isinstance(n, ast.Name) and n.id == "_sanitize_user_name" and isinstance(n.ctx, ast.Store) for n in ast.walk(M)):
            raise err(M, "_sanitize_user_name is re-bound")
        nested = [n for n in M.body if isinstance(n, ast.FunctionDef)]
        uq = [n for n in ast.walk(M) if isinstance(n, ast.FunctionDef) and n.name == "uniquify"]
        mk = [n for n in nested if any(isinstance(c, ast.Call) and isinstance(c.func, ast.Name)
                                       and c.func.id == "_sanitize_user_name" for c in ast.walk(n))]
        allsan = [c for c in ast.walk(M) if isinstance(c, ast.Call) and isinstance(c.func, ast.Name) and c.func.id == "_sanitize_user_name"]
        if len(uq) != 1 or uq[0] not in nested or len(mk) != 1 or mk[0] is uq[0] \
                or any(c not in list(ast.walk(mk[0])) for c in allsan):
            raise err(M, f"expected ONE nested `uniquify` and ONE nested name builder holding every _sanitize_user_name call "
                         f"(found {len(uq)} / {len(mk)})")
        UQ, MK = uq[0], mk[0]
        for fn in (UQ, MK):
            a = fn.args
            if fn.decorator_list or a.vararg or a.kwarg or a.kwonlyargs or a.posonlyargs or a.defaults:
                raise err(fn, f"{fn.name}: decorators / defaults / *args")
            if sum(1 for n in ast.walk(M) if isinstance(n, ast.Name) and n.id == fn.name and isinstance(n.ctx, ast.Store)) \
                    or sum(1 for n in ast.walk(M) if isinstance(n, ast.FunctionDef) and n.name == fn.name) != 1:
                raise err(fn, f"{fn.name} is bound more than once")
        if len(UQ.args.args) != 1 or len(MK.args.args) != 2:
            raise err(UQ, "uniquify(name) / name builder (col, suffix): unexpected parameter lists")
        # the used-name set: the one free name of uniquify that is a `X = set()` of the method
        local = {a.arg for a in UQ.args.args} | set(assigned(UQ.body))
        free = sorted({n.id for n in ast.walk(UQ) if isinstance(n, ast.Name) and isinstance(n.ctx, ast.Load)} - local)
        if len(free) != 1:
            raise err(UQ, f"uniquify must read exactly one name of the enclosing method (the used-name set); it reads {free}")
        U = free[0]
        inits = [st for st in M.body if isinstance(st, ast.Assign) and len(st.targets) == 1 and isinstance(st.targets[0], ast.Name)
                 and st.targets[0].id == U]
        if len(inits) != 1 or ast.unparse(inits[0].value) != "set()" or M.body.index(inits[0]) > M.body.index(UQ):
            raise err(UQ, f"{U} must be initialised once, by `{U} = set()`, before uniquify is defined")
        inside = {id(n) for n in ast.walk(UQ)}
        for n in ast.walk(M):
            if isinstance(n, ast.Name) and n.id == U and id(n) not in inside and n is not inits[0].targets[0]:
                raise err(n, f"the used-name set {U} is touched outside uniquify")
            if isinstance(n, (ast.Global, ast.Nonlocal)):
                raise err(n, "global / nonlocal")
        # uniquify as (set, name) -> (result, set)
        g = _ReturnWithState(U).visit(copy.deepcopy(UQ))
        g.args.args = [ast.arg(arg=U), UQ.args.args[0]]
        ast.fix_missing_locations(g)
        k = Kernel("uniquify", f"{meth}_uniquify", ["lstr", "str"], ("str", "lstr"), cls="Table", name_forms=True)
        k.node = g
        text, _, _ = translate_function(table_py, k, {}, notes)
        parts.append(text.replace(f"Table.uniquify *)", f"Table.{meth}: uniquify as ({U} before, name) -> (result, {U} after); "
                                                          f"{U}.add(x) is x :: {U} *)", 1))
        lines[f"{meth}_uniquify"] = [UQ.lineno, UQ.end_lineno]
        # the name builder
        k = Kernel(MK.name, f"{meth}_make_name", ["ncol", "str"], "str", cls="Table", name_forms=True,
                   ctxp=("(san : str -> option str)", "san"))
        k.node = copy.deepcopy(MK)
        text, _, _ = translate_function(table_py, k, {}, notes)
        parts.append(text)
        lines[f"{meth}_make_name"] = [MK.lineno, MK.end_lineno]
        # the call sites of uniquify: key names `X._name or "<lit>"`, built names, given names
        sites = [c for c in ast.walk(M) if isinstance(c, ast.Call) and isinstance(c.func, ast.Name) and c.func.id == "uniquify"
                 and id(c) not in inside]
        keysites = []
        for c in sites:
            if len(c.args) != 1 or c.keywords:
                raise err(c, "uniquify call shape")
            a = c.args[0]
            if isinstance(a, ast.Name):
                continue                                                     # a name given by the caller (apply=...)
            if isinstance(a, ast.Call) and isinstance(a.func, ast.Name) and a.func.id == MK.name:
                continue
            if (isinstance(a, ast.BoolOp) and isinstance(a.op, ast.Or) and len(a.values) == 2
                    and isinstance(a.values[0], ast.Attribute) and isinstance(a.values[0].value, ast.Name)
                    and a.values[0].attr == "_name"):
                keysites.append(a)
                continue
            if (isinstance(a, ast.IfExp) and isinstance(a.body, ast.Constant) and isinstance(a.orelse, ast.Attribute)
                    and isinstance(a.orelse.value, ast.Name) and a.orelse.attr == "_name"):
                keysites.append(a)
                continue
            raise err(c, f"uniquify is called on `{ast.unparse(a)}`: not a key name, a built name or a given name")
        _lit = lambda a: ast.unparse(a.values[1] if isinstance(a, ast.BoolOp) else a.body)
        _col = lambda a: (a.values[0] if isinstance(a, ast.BoolOp) else a.orelse).value.id
        if not keysites or len({_lit(a) for a in keysites}) != 1 or len({type(a) for a in keysites}) != 1:
            raise err(M, f"expected the key columns to be named `col._name or <one literal>` (found {len(keysites)} sites)")
        a = keysites[0]
        k = Kernel(f"{meth} key name", f"{meth}_key_name", ["ncol"], "str", cls="Table", name_forms=True)
        k.node = M
        ctx = Ctx(table_py, k, {}, notes)
        col = _col(a)
        t, ty = expr(ctx, {col: (mangle(ctx, a, col), "ncol")}, a)
        parts.append(f"(* table.py:{a.lineno} Table.{meth}: the name of a key column, `{ast.unparse(a)}` *)\n"
                     f"Definition {meth}_key_name ({mangle(ctx, a, col)} : option str) : str :=\n  {coerce(ctx, a, t, ty, 'str')}.\n")
        lines[f"{meth}_key_name"] = [a.lineno, a.lineno]
    head = ("(* GenAggNames.v — GENERATED by harness/translate.py from table.py (Table.aggregate, Table.window); do not edit.\n"
            "   The output-name helpers only: uniquify (with the enclosing used-name set as explicit state), the name builder\n"
            "   <sanitised column name or \"col\">_<suffix> (_sanitize_user_name is the parameter san) and the key-name rule.\n"
            "   NOT translated: in which order the methods call them (keys, then sum/mean/min/max/count/stdev, then apply) —\n"
            "   Model/Names.agg_bases, tied by the correspondence check of C18.\n"
            + "".join(f"   {n}\n" for n in dict.fromkeys(notes)).replace("*)", "* )") + "*)\n" + IMPORTS_AGGNAMES + "\n")
    return head + "\n".join(parts), {"lines": lines, "notes": list(dict.fromkeys(notes))}


IMPORTS_CSV = ("From Coq Require Import List Bool.\nFrom Serif Require Import Base.PyVal Base.GenPrelude.\n")
IMPORTS_FP = ("From Coq Require Import List Bool ZArith.\n"
              "From Serif Require Import Base.PyVal Base.GenPrelude.\nLocal Open Scope Z_scope.\n")
IMPORTS_NAMES = ("From Coq Require Import List Bool String.\n"
                 "From Serif Require Import Base.PyVal Base.GenPrelude.\n")


LET_ID = re.compile(r"^(\s*)let (py_\w+) := (.*) in \(\* L(\d+) \*\)\n\s*\2$", re.M)   # let x := e in x  ==  e


LET_ID2 = re.compile(r"^( *)let (py_\w+) :=\n((?:.*\n)*?)\1in\n *\2$", re.M)                  # the same, over a joined `if`


def fresh(kernels):
    return [Kernel(k.py, k.coq, list(k.params), k.ret, k.cls, k.mode, k.prop, k.wrap_kind, k.static, k.elem_forms, k.ctxp,
                   k.sort_forms, k.name_forms) for k in kernels]


def _gen_fingerprint(repo_src):
    text, meta = translate_file(repo_src / "vector.py", fresh(FP_KERNELS), "GenFingerprint", IMPORTS_FP, (), FP_CONSTS, True)
    text2, meta2 = translate_fp_memo(repo_src / "vector.py", repo_src / "table.py")
    text += ("\n(* ---- the memo protocol of fingerprint() (vector.py, table.py) ---- *)\n" +
             "".join("(* " + n.replace("*)", "* )") + " *)\n" for n in meta2["notes"]) + text2)
    meta["lines"].update(meta2["lines"])
    meta["notes"] += meta2["notes"]
    return text, meta


# generated file -> how it is produced from the package directory
GENERATORS = {
    "GenTyping.v": lambda src: translate_file(src / "typing.py", fresh(TYPING_KERNELS), "GenTyping", IMPORTS_TYPING,
                                              ("date", "datetime")),
    "GenSlice.v": lambda src: translate_file(src / "typeutils.py", fresh(SLICE_KERNELS), "GenSlice", IMPORTS_SLICE),
    "GenNames.v": lambda src: translate_file(src / "table.py", fresh(NAMES_KERNELS), "GenNames", IMPORTS_NAMES),
    "GenJoin.v": lambda src: translate_joins(src / "table.py"),
    "GenFingerprint.v": _gen_fingerprint,
    "GenDispatch.v": translate_dispatch,
    "GenSort.v": translate_sort,
    "GenAggNames.v": lambda src: translate_aggnames(src / "table.py"),
    "GenCsv.v": lambda src: translate_file(src / "csv.py", fresh(CSV_KERNELS), "GenCsv", IMPORTS_CSV),
    "GenReduce.v": lambda src: __import__("harness.translate_reduce", fromlist=["translate_reduce"]).translate_reduce(src),
    "GenPartition.v": lambda src: __import__("harness.translate_partition", fromlist=["translate_partition"]).translate_partition(src),
    "GenJoinIndex.v": lambda src: __import__("harness.translate_partition", fromlist=["translate_join_index"]).translate_join_index(src),
    "GenSanitize.v": lambda src: __import__("harness.translate_sanitize", fromlist=["translate_sanitize"]).translate_sanitize(src),
    "GenNa.v": lambda src: __import__("harness.translate_reduce", fromlist=["translate_na"]).translate_na(src),
    "GenAlias.v": lambda src: __import__("harness.translate_alias", fromlist=["translate_alias"]).translate_alias(src),
    "GenRect.v": lambda src: __import__("harness.translate_rect", fromlist=["translate_rect"]).translate_rect(src),
    "GenRepr.v": lambda src: __import__("harness.translate_repr", fromlist=["translate_repr"]).translate_repr(src),
    "GenCsvReader.v": lambda src: __import__("harness.translate_csvreader", fromlist=["translate_csv_reader"]).translate_csv_reader(src),
}


def translate_each(repo_src: Path, outdir: Path, only=None):
    """Every generated file independently: -> (info, {generated file: TranslationError}).  A file whose source does
    not translate is simply not written (its proof scripts are then not checkable: fail closed)."""
    repo_src, outdir = Path(repo_src), Path(outdir)
    outdir.mkdir(parents=True, exist_ok=True)
    info, failed = {"files": {}, "functions": {}, "notes": []}, {}
    for gf, make in GENERATORS.items():
        if only is not None and gf not in only:
            continue
        try:
            text, meta = make(repo_src)
        except TranslationError as e:
            failed[gf] = e
            continue
        except Exception as e:                               # noqa: BLE001
            if type(e).__name__ != "TranslationError" and not isinstance(e, (OSError, SyntaxError, RecursionError)):
                raise
            if type(e).__name__ == "TranslationError":       # raised by a sibling translator module
                failed[gf] = TranslationError(e.file, e.lineno, e.what)
                continue
            failed[gf] = TranslationError(repo_src, getattr(e, "lineno", 0) or 0, f"{type(e).__name__}: {e}")
            continue
        except (OSError, SyntaxError, RecursionError) as e:
            failed[gf] = TranslationError(repo_src, getattr(e, "lineno", 0) or 0, f"{type(e).__name__}: {e}")
            continue
        (outdir / gf).write_text(text)
        info["files"][gf] = hashlib.sha1(text.encode()).hexdigest()
        info["functions"][gf[:-2]] = meta["lines"]
        info["notes"] += meta["notes"]
    return info, failed


def translate(repo_src: Path, outdir: Path) -> dict:
    """Translate the kernels of the checkout whose package directory is `repo_src`
    (…/src/serif) into outdir/Gen*.v.  Raises TranslationError; never guesses."""
    info, failed = translate_each(repo_src, outdir)
    for e in failed.values():
        raise e
    return info


# --------------------------------------------------------------------------- the per-run re-check

SCRIPTS = [            # (committed proof script, generated modules it needs)
    ("EqTyping.v", ["GenTyping.v"]),
    ("EqSlice.v", ["GenSlice.v"]),
    ("EqNames.v", ["GenNames.v"]),
    ("EqJoin.v", ["GenJoin.v"]),
    ("EqFingerprint.v", ["GenFingerprint.v"]),
    ("EqDispatch.v", ["GenDispatch.v"]),
    ("EqCsv.v", ["GenCsv.v"]),
    ("EqSort.v", ["GenSort.v"]),
    ("EqAggNames.v", ["GenAggNames.v"]),
    ("EqReduce.v", ["GenReduce.v"]),
    ("EqPartition.v", ["GenPartition.v"]),
    ("EqJoinIndex.v", ["GenJoinIndex.v"]),
    ("EqSanitize.v", ["GenSanitize.v"]),
    ("EqNa.v", ["GenNa.v"]),
    ("EqCsvReader.v", ["GenCsvReader.v"]),
    ("EqAlias.v", ["GenAlias.v"]),
    ("EqRepr.v", ["GenRepr.v"]),
    ("EqRect.v", ["GenRect.v"]),
]
NEEDED_VO = ["Base/GenPrelude", "Props/C04", "Props/C07", "Props/C18", "Props/C11", "Props/C16", "Props/C05", "Props/C19", "Props/C14", "Props/C06", "Props/C12", "Props/C09", "Props/C17", "Props/C15", "Props/C03", "Props/C20"]
BUDGET = float(__import__("os").environ.get("SERIF_TRANSLATE_BUDGET", "28"))   # seconds for one run()

HARD_TIMEOUT = 120.0   # seconds for one coqc that MUST run (generated file, first pass over a proof script)

UNIT = re.compile(r"^(Theorem|Lemma)\s+([A-Za-z0-9_']+)", re.M)


def _units(text):
    """[(kind, name, first line, last line (of its Qed), start offset of `Proof.`, end offset of `Qed.`)]"""
    out = []
    for m in UNIT.finditer(text):
        q = re.compile(r"\bQed\.").search(text, m.end())
        pr = re.compile(r"\bProof\.").search(text, m.end())
        if not q or not pr or pr.start() > q.start():
            continue
        out.append((m.group(1), m.group(2), text.count("\n", 0, m.start()) + 1,
                    text.count("\n", 0, q.end()) + 1, pr.start(), q.end()))
    return out


def script_obligations(proofdir: Path):
    from harness import core
    obs = {}
    for name, _ in SCRIPTS:
        text = core._strip_comments((proofdir / name).read_text())
        obs[name] = [n for kind, n, *_ in _units(text) if kind == "Theorem"]
    return obs


def _coqc(vfile: Path, gen: Path, timeout: float):
    from harness import core
    try:
        return subprocess.run(["coqc", "-q", "-R", str(core.THEORIES), "Serif", "-R", str(gen), "SerifGen", str(vfile)],
                              capture_output=True, text=True, timeout=max(1.0, timeout), cwd=str(vfile.parent))
    except subprocess.TimeoutExpired as e:
        return subprocess.CompletedProcess(e.cmd, 124, (e.stdout or b"").decode() if isinstance(e.stdout, bytes) else (e.stdout or ""),
                                           f"coqc timed out after {timeout:.0f}s")


def ensure_theories(timeout=900):
    """The compiled model (Props/C04, C07, C18, Base/GenPrelude) must be there and fresh; builds ONLY
    those targets (and what they depend on) under the tree's exclusive lock when they are not."""
    import fcntl
    from harness import core
    def stale():
        out = []
        for t in NEEDED_VO:
            v, vo = core.THEORIES / f"{t}.v", core.THEORIES / f"{t}.vo"
            if not vo.exists() or vo.stat().st_mtime < v.stat().st_mtime:
                out.append(t)
        return out
    if not stale():
        return None
    with open(core.COQ / ".lock", "a") as lock:
        fcntl.flock(lock, fcntl.LOCK_EX)
        try:
            files = sorted(str(p.relative_to(core.COQ)) for p in core.THEORIES.rglob("*.v"))
            proj = "-R theories Serif\n" + "\n".join(files) + "\n"
            pf = core.COQ / "_CoqProject"
            if not pf.exists() or pf.read_text() != proj or not (core.COQ / "Makefile").exists():
                pf.write_text(proj)
                subprocess.run(["coq_makefile", "-f", "_CoqProject", "-o", "Makefile"], cwd=core.COQ, check=True,
                               stdout=subprocess.DEVNULL, stderr=subprocess.DEVNULL)
            try:
                r = subprocess.run(["make", f"-j{core.NCPU}"] + [f"theories/{t}.vo" for t in NEEDED_VO], cwd=core.COQ,
                                   capture_output=True, text=True, timeout=timeout)
            except subprocess.TimeoutExpired:
                return "building the model timed out"
            if r.returncode != 0:
                return "building the model failed: " + (r.stdout[-800:] + r.stderr[-800:])
        finally:
            fcntl.flock(lock, fcntl.LOCK_UN)
    return None


def _check_script(src: Path, dst: Path, gen: Path, deadline: float):
    """Compile one proof script (a scratch copy with a marker in front of every Print Assumptions).
    When a proof fails, the failing unit is named, closed with `Admitted` IN THE SCRATCH COPY ONLY and
    the compilation repeated, so that every broken theorem is reported (a theorem that merely uses a
    broken one shows it among its assumptions and is not discharged either)."""
    from harness import core
    text = src.read_text()
    bad = [m.group(0) for m in core.FORBIDDEN.finditer(core._strip_comments(text))]
    if bad:
        return {}, [f"{src.name}: forbidden vernacular {sorted(set(bad))}"], {}
    text = re.sub(r"^Print Assumptions ([A-Za-z0-9_']+)\.",
                  lambda m: f'Goal True. idtac "@@{m.group(1)}". exact I. Qed. Print Assumptions {m.group(1)}.',
                  text, flags=re.M)
    broken, errors = {}, []
    out = ""
    for _ in range(12):
        dst.write_text(text)
        # the first compilation always gets a generous timeout (a loaded machine must not look like a broken
        # proof); the diagnostic re-compilations only run while the time budget lasts
        r = _coqc(dst, gen, max(deadline - time.time(), HARD_TIMEOUT) if not broken else deadline - time.time())
        out = r.stdout
        if r.returncode == 0:
            break
        err = (r.stderr or r.stdout).strip()
        m = re.search(r'line (\d+), characters', err)
        msg = " ".join(err.split("Error:", 1)[-1].split())[:300]
        unit = None
        if m:
            ln = int(m.group(1))
            unit = next((u for u in _units(text) if u[2] <= ln <= u[3]), None)
        if unit is None:
            errors.append(f"{src.name}: {' '.join(err.split())[:400]}")
            break
        kind, name, l0, l1, a, b = unit
        if name in broken or ln <= text.count("\n", 0, a):      # not inside the proof: the STATEMENT does not typecheck
            broken[name] = "statement does not typecheck: " + msg
            errors.append(f"{src.name}: statement of {name} does not typecheck against the generated definitions "
                          f"(line {ln}): {msg}")
            break
        broken[name] = msg
        errors.append(f"{src.name}: proof of {name} FAILED (line {m.group(1)}): {msg}")
        if time.time() > deadline - 2:
            errors.append(f"{src.name}: time budget used up; the theorems after {name} were not checked")
            break
        text = text[:a] + "Admitted." + "\n" * text.count("\n", a, b) + text[b:]
    assum = {}
    chunks = re.split(r"^@@([A-Za-z0-9_']+)\s*$", out, flags=re.M)
    for i in range(1, len(chunks), 2):
        assum[chunks[i]] = chunks[i + 1].strip()
    return assum, errors, broken


def run(workdir: Path, repo: Path | None = None, scripts=None) -> dict:
    """Translate `repo`/src/serif, compile the generated files and the committed proof scripts
    against them.  Writes only under `workdir`.  `scripts` (e.g. ["EqFingerprint.v"]) restricts the run to those
    proof scripts and the generated files they need (default: all); the kernels of different generated files are
    independent, so an untranslatable source only fails the scripts that depend on it."""
    from harness import core
    t0 = time.time()
    deadline = t0 + BUDGET
    repo = Path(repo) if repo is not None else core.REPO
    workdir = Path(workdir)
    gen, scratch = workdir / "gen", workdir / "gen_proofs"
    for d in (gen, scratch):
        shutil.rmtree(d, ignore_errors=True)
        d.mkdir(parents=True)
    proofdir = core.COQ / "gen_proofs"
    obs = script_obligations(proofdir)
    SEL = [(s, d) for s, d in SCRIPTS if scripts is None or s in scripts]
    if scripts is not None and len(SEL) != len(set(scripts)):
        raise ValueError(f"unknown proof script in {scripts}; known: {[s for s, _ in SCRIPTS]}")
    res = {"ok": False, "repo": str(repo), "scripts": [s for s, _ in SEL],
           "obligations": [n for s, _ in SEL for n in obs[s]], "discharged": [],
           "broken": [], "errors": [], "generated": {}, "assumptions": {}, "notes": [], "abstraction_assumptions": ASSUMPTIONS,
           "proof_scripts": {s: hashlib.sha1((proofdir / s).read_bytes()).hexdigest() for s, _ in SEL},
           "by_script": {}, "translation_errors": {}}

    def done():
        res["seconds"] = round(time.time() - t0, 2)
        res["ok"] = not res["errors"] and sorted(res["discharged"]) == sorted(res["obligations"])
        return res

    info, failed = translate_each(repo / "src" / "serif", gen, only={g for _, d in SEL for g in d})
    for gf, e in failed.items():
        res["errors"].append(f"TranslationError ({gf}): {e}")
        res["translation_errors"][gf] = {"file": e.file, "lineno": e.lineno, "what": e.what}
    if failed:
        res["translation_error"] = next(iter(res["translation_errors"].values()))
    res["generated"], res["functions"] = info["files"], info["functions"]
    res["notes"] = list(dict.fromkeys(info["notes"]))
    why = ensure_theories()
    if why:
        res["errors"].append(why)
        return done()
    with core.coq_read_lock():
        with ThreadPoolExecutor(max_workers=max(1, len(res["generated"]))) as ex:
            rs = dict(zip(res["generated"], ex.map(lambda f: _coqc(gen / f, gen, HARD_TIMEOUT), res["generated"])))
        genbad = {f for f, r in rs.items() if r.returncode != 0}
        for f in sorted(genbad):
            res["errors"].append(f"generated {f} does not compile: " + " ".join((rs[f].stderr or rs[f].stdout).split())[:400])
        genbad |= set(failed)
        todo = [(s, deps) for s, deps in SEL if not (set(deps) & genbad)]
        with ThreadPoolExecutor(max_workers=max(1, len(todo))) as ex:
            outs = list(ex.map(lambda sd: _check_script(proofdir / sd[0], scratch / sd[0], gen, deadline), todo))
    for (s, _), (assum, errors, broken) in zip(todo, outs):
        res["errors"] += errors
        res["by_script"][s] = {"errors": errors, "broken": [n for n in obs[s] if n in broken]}
        res["broken"] += [n for n in obs[s] if n in broken]
        for n in obs[s]:
            a = assum.get(n)
            if n in broken:
                res["assumptions"][n] = "FAILED: " + broken[n]
            elif a is None:
                res["assumptions"][n] = "NOT CHECKED"
                if not errors:
                    res["errors"].append(f"{s}: no Print Assumptions output for {n}")
            else:
                res["assumptions"][n] = a
                if a.startswith("Closed under the global context"):
                    res["discharged"].append(n)
                elif not errors:
                    res["errors"].append(f"{s}: {n} is not closed: {' '.join(a.split())[:200]}")
    for s, deps in SEL:
        if set(deps) & genbad:
            why = "; ".join(str(failed[g]) if g in failed else f"{g} does not compile" for g in deps if g in genbad)
            res["by_script"][s] = {"errors": [why], "broken": []}
            for n in obs[s]:
                res["assumptions"][n] = f"NOT CHECKED ({why})"[:300]
    for s, _ in SEL:
        res["by_script"][s]["ok"] = not res["by_script"][s]["errors"] and all(n in res["discharged"] for n in obs[s])
    return done()


def main(argv=None):
    from harness import core
    ap = argparse.ArgumentParser(description="translate serif's decision kernels to Gallina and re-check the model against them")
    ap.add_argument("--repo", type=Path, default=None, help="checkout to translate (default: $SERIF_REPO or /repo)")
    ap.add_argument("--workdir", type=Path, default=None, help="scratch directory (default: work/translate-<pid>, removed afterwards)")
    ap.add_argument("--keep", action="store_true", help="keep the scratch directory")
    ap.add_argument("--scripts", nargs="+", default=None, help="only these proof scripts (e.g. EqFingerprint.v)")
    ap.add_argument("--brief", action="store_true", help="print only ok / errors / undischarged obligations")
    ap.add_argument("--line", metavar="LABEL", default=None, help="print a one-line verdict (plus the errors) instead of JSON")
    a = ap.parse_args(argv)
    import os
    wd = a.workdir or (core.WORK / f"translate-{os.getpid()}")
    try:
        res = run(wd, a.repo, a.scripts)
    finally:
        if a.workdir is None and not a.keep:
            shutil.rmtree(wd, ignore_errors=True)
    if a.line is not None:
        und = [n for n in res["obligations"] if n not in res["discharged"]]
        print(f"{a.line}: {'PASS' if res['ok'] else 'FAIL'} {res.get('seconds')}s discharged={len(res['discharged'])}/"
              f"{len(res['obligations'])} broken={res['broken']} (+{len(und) - len(res['broken'])} not discharged because they depend on them)")
        for e in res["errors"]:
            print("    " + e[:260])
        return 0 if res["ok"] else 1
    if a.brief:
        res = {"ok": res["ok"], "seconds": res.get("seconds"), "errors": res["errors"], "broken": res["broken"],
               "undischarged": [n for n in res["obligations"] if n not in res["discharged"]],
               "n_obligations": len(res["obligations"]), "n_discharged": len(res["discharged"])}
    print(json.dumps(res, indent=1))
    return 0 if res["ok"] else 1


if __name__ == "__main__":
    sys.exit(main())
