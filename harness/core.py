"""Core of the /verif check harness (DESIGN.md §2).

One entry point, `run_property(mod, tier, seed)`, used by /verif/check for every
property.  A property module (harness/props/cXX.py) supplies generators, the
implementation-side observer, the Coq emitter and an independent Python oracle; this
file owns: building the Coq development, collecting `Print Assumptions`, running the
implementation in a fresh subprocess against /repo's current working tree, evaluating
case files inside coqc, deciding the verdict, writing replay and evidence files.
"""
from __future__ import annotations

import concurrent.futures as cf
import fcntl
import hashlib
import json
import os
import random
import re
import shutil
import subprocess
import sys
import time
from pathlib import Path

VERIF = Path(__file__).resolve().parent.parent
COQ = VERIF / "coq"
THEORIES = COQ / "theories"
WORK = VERIF / "work"
REPO = Path(os.environ.get("SERIF_REPO", "/repo"))
PY = os.environ.get("SERIF_PY", "/venv/bin/python")
NCPU = max(2, min(16, os.cpu_count() or 4))
GUARD = "SERIF_VERIF"

FORBIDDEN = re.compile(
    r"\b(Admitted|admit|Axiom|Axioms|Parameter|Parameters|Conjecture|Admit Obligations)\b"
    r"|Unset\s+Guard|Unset\s+Positivity|Unset\s+Universe|bypass_check|type-in-type|impredicative-set"
)
# axioms the brief allows when they come from the standard library (none is used so far)
ALLOWED_AXIOMS = {
    "functional_extensionality_dep", "classic", "proof_irrelevance", "JMeq_eq",
    "Eqdep.Eq_rect_eq.eq_rect_eq", "eq_rect_eq", "propositional_extensionality",
}


# --------------------------------------------------------------------------- Coq build

def _strip_comments(text: str) -> str:
    out, depth, i = [], 0, 0
    while i < len(text):
        if text.startswith("(*", i):
            depth += 1
            i += 2
        elif text.startswith("*)", i) and depth:
            depth -= 1
            i += 2
        else:
            if not depth:
                out.append(text[i])
            i += 1
    return "".join(out)


def forbidden_scan() -> list[str]:
    bad = []
    for p in sorted(THEORIES.rglob("*.v")) + sorted((COQ / "gen_proofs").glob("*.v")):
        src = _strip_comments(p.read_text())
        for m in FORBIDDEN.finditer(src):
            bad.append(f"{p.relative_to(COQ)}: {m.group(0)}")
    return bad


def build_coq(pid: str | None = None, timeout: int = 1500) -> tuple[bool, str]:
    """(Re)build the development with a full .vo build (no-op when up to date).
    The whole tree is built with `make -k`; the verdict for property `pid` is whether ITS
    targets (Props/<pid>.vo and Corr/<pid>.vo with everything they depend on) build."""
    COQ.mkdir(exist_ok=True)
    lock = open(COQ / ".lock", "a")
    fcntl.flock(lock, fcntl.LOCK_EX)
    try:
        files = sorted(str(p.relative_to(COQ)) for p in THEORIES.rglob("*.v"))
        proj = "-R theories Serif\n" + "\n".join(files) + "\n"
        pf = COQ / "_CoqProject"
        if not pf.exists() or pf.read_text() != proj or not (COQ / "Makefile").exists():
            pf.write_text(proj)
            subprocess.run(["coq_makefile", "-f", "_CoqProject", "-o", "Makefile"], cwd=COQ,
                           check=True, stdout=subprocess.DEVNULL, stderr=subprocess.DEVNULL)
        try:
            r = subprocess.run(["make", "-k", f"-j{NCPU}"], cwd=COQ, capture_output=True, text=True,
                               timeout=timeout)
            if pid is None or r.returncode == 0:
                return r.returncode == 0, (r.stdout[-3000:] + r.stderr[-3000:])
            targets = [f"theories/{d}/{pid}.vo" for d in ("Props", "Corr")
                       if (THEORIES / d / f"{pid}.v").exists()]
            r2 = subprocess.run(["make", f"-j{NCPU}"] + targets, cwd=COQ, capture_output=True, text=True,
                                timeout=timeout)
            return r2.returncode == 0 and bool(targets), (r2.stdout[-3000:] + r2.stderr[-3000:])
        except subprocess.TimeoutExpired:
            return False, "make timed out"
    finally:
        fcntl.flock(lock, fcntl.LOCK_UN)
        lock.close()


class coq_read_lock:
    """Shared lock on the compiled tree: held while .vo files are read (Print Assumptions, case
    files), so that a concurrent check's `make` (exclusive lock) cannot rewrite them underneath."""

    def __enter__(self):
        COQ.mkdir(exist_ok=True)
        self.f = open(COQ / ".lock", "a")
        fcntl.flock(self.f, fcntl.LOCK_SH)
        return self

    def __exit__(self, *a):
        fcntl.flock(self.f, fcntl.LOCK_UN)
        self.f.close()


def theorem_names(pid: str) -> list[str]:
    src = _strip_comments((THEORIES / "Props" / f"{pid}.v").read_text())
    return re.findall(r"^\s*(?:Theorem|Corollary)\s+([A-Za-z0-9_']+)", src, flags=re.M)


def coqc(vfile: Path, timeout: int = 600) -> subprocess.CompletedProcess:
    return subprocess.run(
        ["coqc", "-R", str(THEORIES), "Serif", "-o", str(vfile.with_suffix(".vo")), str(vfile)],
        capture_output=True, text=True, timeout=timeout, cwd=vfile.parent)


def assumptions(pid: str, workdir: Path) -> dict[str, str]:
    """Print Assumptions of every theorem of Props/<pid>.v, freshly from the compiled .vo."""
    names = theorem_names(pid)
    lines = [f"From Serif Require Import Props.{pid}."]
    for n in names:
        lines.append(f'Goal True. idtac "@@{n}". exact I. Qed.')
        lines.append(f"Print Assumptions {n}.")
    f = workdir / f"assume_{pid}.v"
    f.write_text("\n".join(lines) + "\n")
    r = coqc(f)
    if r.returncode != 0:
        return {n: "ERROR: " + (r.stderr or r.stdout)[-500:] for n in names}
    out = {}
    chunks = re.split(r"^@@([A-Za-z0-9_']+)\s*$", r.stdout, flags=re.M)
    for i in range(1, len(chunks), 2):
        out[chunks[i]] = chunks[i + 1].strip()
    for n in names:
        out.setdefault(n, "ERROR: no output")
    return out


def coqchk(pid: str, timeout: int = 1500) -> dict:
    """Independent re-check of Props/<pid>.vo and everything it depends on (thorough tier)."""
    try:
        r = subprocess.run(["coqchk", "-o", "-silent", "-R", str(THEORIES), "Serif", f"Serif.Props.{pid}"],
                           capture_output=True, text=True, timeout=timeout, cwd=str(COQ))
    except subprocess.TimeoutExpired:
        return {"ok": False, "summary": "coqchk timed out"}
    out = r.stdout + r.stderr
    m = re.search(r"\* Axioms:(.*?)\n\s*\n\* Constants/Inductives relying on type-in-type:(.*?)\n\s*\n"
                  r"\* Constants/Inductives relying on unsafe \(co\)fixpoints:(.*?)\n\s*\n"
                  r"\* Inductives whose positivity is assumed:(.*?)\n", out, flags=re.S)
    if r.returncode != 0 or not m:
        return {"ok": False, "summary": out[-600:]}
    parts = [" ".join(x.split()) for x in m.groups()]
    ok = all(x == "<none>" for x in parts[1:]) and (parts[0] == "<none>" or all(
        n.split(".")[-1] in ALLOWED_AXIOMS for n in re.findall(r"[A-Za-z0-9_.']+", parts[0])))
    return {"ok": ok, "summary": f"axioms: {parts[0]}; type-in-type: {parts[1]}; unsafe fixpoints: {parts[2]}; "
                                 f"assumed positivity: {parts[3]}"}


def axioms_ok(text: str) -> bool:
    if text.startswith("Closed under the global context"):
        return True
    if text.startswith("ERROR") or not text.startswith("Axioms:"):
        return False
    # "Axioms:\nname : type\n  continued\nname2 : type" — accept only allow-listed std-lib axioms
    names = re.findall(r"^([A-Za-z0-9_.']+)\s*:", text.split("\n", 1)[1] if "\n" in text else "", flags=re.M)
    return bool(names) and all(n in ALLOWED_AXIOMS or n.split(".")[-1] in ALLOWED_AXIOMS for n in names)


# --------------------------------------------------------------------------- printers

def cz(n: int) -> str:
    return f"({n})%Z"


def cnat(n: int) -> str:
    assert 0 <= n < 5000, n
    return f"{n}"


def cbool(b) -> str:
    return "true" if b else "false"


def clist(items) -> str:
    return "[" + "; ".join(items) + "]"


def copt(x) -> str:
    return "None" if x is None else f"(Some {x})"


def cpair(a, b) -> str:
    return f"({a}, {b})"


def cstr(s: str) -> str:
    assert all(32 <= ord(ch) < 127 for ch in s), s
    return '"' + s.replace('"', '""') + '"'


# --------------------------------------------------------------------------- impl runner

def impl_env(hashseed: str = "0") -> dict:
    env = dict(os.environ)
    env["PYTHONPATH"] = f"{REPO / 'src'}:{VERIF}"
    env["PYTHONHASHSEED"] = str(hashseed)
    env[GUARD] = "1"
    env["PYTHONDONTWRITEBYTECODE"] = "1"
    env["PYTHONWARNINGS"] = "ignore"
    return env


def run_impl(modname: str, cases: list, hashseed: str = "0", batch: int = 2000, timeout: int = 1200) -> list:
    """Run mod.observe on every case against /repo's current tree, in fresh subprocesses."""
    if not cases:
        return []
    batches = [cases[i:i + batch] for i in range(0, len(cases), batch)]

    def one(b):
        r = subprocess.run([PY, "-m", "harness.implrun", modname], input=json.dumps(b),
                           capture_output=True, text=True, env=impl_env(hashseed), timeout=timeout,
                           cwd=str(VERIF))
        if r.returncode != 0:
            raise RuntimeError(f"impl runner failed: {r.stderr[-3000:]}")
        return json.loads(r.stdout)

    with cf.ThreadPoolExecutor(max_workers=NCPU) as ex:
        res = list(ex.map(one, batches))
    return [o for b in res for o in b]


ERR_ENUM = ("AliasError", "SerifTypeError", "SerifValueError", "SerifIndexError", "SerifKeyError")


def err_name(e: BaseException) -> str:
    n = type(e).__name__
    return n if n in ERR_ENUM else "OtherError"


# --------------------------------------------------------------------------- Coq evaluation

def coq_eval(workdir: Path, tag: str, prelude: str, failing_fn: str, terms: list[str],
             shard: int = 400) -> tuple[list[int], list[str]]:
    """Evaluate `failing_fn [terms]` inside coqc (vm_compute), sharded over the cores.
    Returns (indices of disagreeing cases, errors)."""
    if not terms:
        return [], []
    shards = [(i, terms[i:i + shard]) for i in range(0, len(terms), shard)]
    files = []
    for k, (off, ts) in enumerate(shards):
        f = workdir / f"cases_{tag}_{k}.v"
        body = ";\n  ".join(ts)
        f.write_text(f"{prelude}\nDefinition cs := [\n  {body}\n].\n"
                     f"Eval vm_compute in ({failing_fn} cs).\n")
        files.append((off, f))

    def one(item):
        off, f = item
        try:
            r = coqc(f, timeout=900)
        except subprocess.TimeoutExpired:
            return off, None, f"{f.name}: coqc timed out"
        if r.returncode != 0:
            return off, None, f"{f.name}: {(r.stderr or r.stdout)[-1500:]}"
        m = re.search(r"=\s*\[(.*?)\]\s*:\s*list nat", " ".join(r.stdout.split()))
        if not m:
            return off, None, f"{f.name}: unparsable output {r.stdout[-300:]!r}"
        body = m.group(1).strip()
        idx = [int(x) for x in re.findall(r"\d+", body)] if body else []
        return off, idx, None

    bad, errs = [], []
    with cf.ThreadPoolExecutor(max_workers=NCPU) as ex:
        for off, idx, err in ex.map(one, files):
            if err:
                errs.append(err)
            else:
                bad.extend(off + i for i in idx)
    return sorted(bad), errs


# --------------------------------------------------------------------------- findings

def load_known() -> list[dict]:
    """known_findings.json plus known_findings.d/*.json (committed; never written at run time)."""
    out = []
    p = VERIF / "known_findings.json"
    if p.exists():
        out.extend(json.loads(p.read_text()).get("entries", []))
    d = VERIF / "known_findings.d"
    if d.exists():
        for f in sorted(d.glob("*.json")):
            out.extend(json.loads(f.read_text()).get("entries", []))
    return out


def canon(case) -> str:
    return hashlib.sha1(json.dumps(case, sort_keys=True, default=str).encode()).hexdigest()


# --------------------------------------------------------------------------- the check

class Result:
    def __init__(self):
        self.violations = []      # (what, replay_path, found_input: bool)
        self.known = []           # (finding id, what)
        self.notes = []


def write_replay(pid: str, name: str, payload: dict) -> Path:
    d = WORK / "replay"
    d.mkdir(parents=True, exist_ok=True)
    p = d / f"{pid}-{os.getpid()}-{name}.json"
    p.write_text(json.dumps(payload, indent=1, default=str))
    return p


def run_property(mod, tier: str, seed: int, replay: str | None = None) -> int:
    t0 = time.time()
    pid = mod.PID
    modname = mod.__name__.split(".")[-1]
    run_id = f"{pid}-{tier}-{os.getpid()}"
    workdir = WORK / run_id
    if workdir.exists():
        shutil.rmtree(workdir)
    workdir.mkdir(parents=True)
    res = Result()
    rng = random.Random(seed)
    try:
        # ---- 1. proof obligations
        ok, log = build_coq(pid)
        forb = forbidden_scan()
        thms = theorem_names(pid)
        if ok:
            with coq_read_lock():
                assum = assumptions(pid, workdir)
        else:
            assum = {n: "ERROR: development does not build" for n in thms}
        discharged = [n for n in thms if axioms_ok(assum.get(n, "ERROR"))] if (ok and not forb) else []
        proof_broken = (not ok) or bool(forb) or len(discharged) != len(thms) or not thms
        chk = None
        if ok and tier == "thorough" and not replay:
            with coq_read_lock():
                chk = coqchk(pid)
            if not chk["ok"]:
                proof_broken = True
                res.notes.append("coqchk: " + chk["summary"])
        if not ok:
            res.notes.append("coq build failed: " + log[-1500:])
        if forb:
            res.notes.append("forbidden constructs: " + "; ".join(forb[:10]))

        # ---- 1b. translator tie (DESIGN.md §2.2b): for the small decision kernels the Gallina definitions are
        # REGENERATED from /repo's current source and the committed proof scripts coq/gen_proofs/*.v re-prove
        # "generated = model" and re-state the property theorems for the generated definitions
        tr, tr_mine, tr_done = None, [], []
        scripts = getattr(mod, "TRANSLATE", None)
        if scripts and ok:
            from harness import translate
            try:
                tr = translate.run(workdir / "translate", scripts=list(scripts))   # only what these scripts need
                by_script = translate.script_obligations(COQ / "gen_proofs")
                tr_mine = [n for sc in scripts for n in by_script.get(sc, [])]
                tr_done = [n for n in tr_mine if n in tr["discharged"]]
                if tr["errors"] or len(tr_done) != len(tr_mine) or not tr_mine:
                    proof_broken = True
                    res.notes.append("translator tie broken: " + "; ".join(
                        [e[:300] for e in tr["errors"][:3]] + [f"{n}: {tr['assumptions'].get(n, '?')[:200]}"
                                                               for n in tr_mine if n not in tr_done][:6]))
            except Exception as e:                                   # noqa: BLE001 - fail closed
                proof_broken = True
                tr = {"errors": [f"translate.run crashed: {type(e).__name__}: {e}"], "assumptions": {},
                      "generated": {}, "abstraction_assumptions": [], "seconds": 0}
                res.notes.append(tr["errors"][0][:400])

        # ---- 2. cases (corpus first, then generated streams) and implementation run
        hashseeds = getattr(mod, "HASHSEEDS", {"quick": ["0"], "thorough": ["0"]})[tier]
        streams = []
        if replay:
            rp = json.loads(Path(replay).read_text())
            streams.append(("replay", rp.get("cases") or [rp["case"]]))
        else:
            corpus_dir = VERIF / "corpus" / pid
            corpus = []
            if corpus_dir.exists():
                for p in sorted(corpus_dir.glob("*.json")):
                    c = json.loads(p.read_text())
                    corpus.extend(c.get("cases") or [c["case"]])
            if corpus:
                streams.append(("corpus", corpus))
            streams.extend(mod.streams(rng, tier))

        all_cases, all_obs, all_stream, all_hs = [], [], [], []
        for hs in hashseeds:
            for sname, cases in streams:
                if hs != hashseeds[0] and sname in getattr(mod, "HASH_INDEPENDENT_STREAMS", ()):
                    continue
                obs = run_impl(modname, cases, hashseed=hs, batch=getattr(mod, "IMPL_BATCH", 2000))
                assert len(obs) == len(cases), (sname, len(obs), len(cases))
                all_cases.extend(cases)
                all_obs.extend(obs)
                all_stream.extend([sname] * len(cases))
                all_hs.extend([hs] * len(cases))

        # ---- 3. independent Python oracle on the implementation's behaviour
        oracle_fail = {}
        for i, (c, o) in enumerate(zip(all_cases, all_obs)):
            why = mod.oracle(c, o)
            if why:
                oracle_fail[i] = why

        # ---- 4. correspondence: model (inside Coq) vs implementation
        terms = [mod.emit(c, o) for c, o in zip(all_cases, all_obs)]
        if ok:
            with coq_read_lock():
                disagree, errs = coq_eval(workdir, pid, mod.PRELUDE, mod.FAILING, terms,
                                          shard=getattr(mod, "SHARD", 400))
        else:
            disagree, errs = [], ["development does not build; correspondence not evaluated"]
        corr_broken = bool(errs)
        for e in errs:
            res.notes.append("coq_eval: " + e[-600:])

        # ---- 5. verdict
        known_entries = [e for e in load_known() if e.get("property") == pid and e.get("kind") == "finding"]
        seen_known = set()

        def classify(i, why):
            c, o = all_cases[i], all_obs[i]
            kid = mod.known(c, o, why) if hasattr(mod, "known") else None
            if kid and any(e["id"] == kid for e in known_entries):
                if kid not in seen_known:
                    seen_known.add(kid)
                    ent = next(e for e in known_entries if e["id"] == kid)
                    res.known.append((kid, ent["what"]))
                return True
            return False

        reported = set()
        for i, why in sorted(oracle_fail.items(), key=lambda kv: len(json.dumps(all_cases[kv[0]]))):
            if classify(i, why):
                continue
            key = why.split(":")[0]
            if key in reported or len(res.violations) >= 5:
                continue
            reported.add(key)
            c = all_cases[i]
            if hasattr(mod, "shrink"):
                c = shrink(mod, modname, c, all_hs[i], key)
            o = run_impl(modname, [c], hashseed=all_hs[i])[0]
            p = write_replay(pid, ("replayed-" if replay else "") + f"{len(res.violations)}", {
                "property": pid, "obligation": f"oracle({all_stream[i]})", "why": mod.oracle(c, o) or why,
                "case": c, "impl_observation": o, "hashseed": all_hs[i], "seed": seed,
                "model_disagrees": i in disagree})
            res.violations.append((why, p, True))

        unexplained = [i for i in disagree if i not in oracle_fail]
        if unexplained and not res.violations:
            # model and implementation differ, yet the oracle accepts the behaviour: search the
            # neighbourhood of the disagreeing cases for an input on which the property fails
            found = None
            if hasattr(mod, "neighbours"):
                for i in unexplained[:20]:
                    nb = mod.neighbours(all_cases[i], rng)
                    if not nb:
                        continue
                    nobs = run_impl(modname, nb, hashseed=all_hs[i])
                    for c2, o2 in zip(nb, nobs):
                        why2 = mod.oracle(c2, o2)
                        if why2 and not (hasattr(mod, "known") and mod.known(c2, o2, why2)):
                            found = (c2, o2, why2, all_hs[i])
                            break
                    if found:
                        break
            if found:
                c2, o2, why2, hs = found
                p = write_replay(pid, "search", {"property": pid, "obligation": "correspondence+search",
                                                 "why": why2, "case": c2, "impl_observation": o2,
                                                 "hashseed": hs, "seed": seed})
                res.violations.append((why2, p, True))
            else:
                i = min(unexplained, key=lambda j: len(json.dumps(all_cases[j])))
                p = write_replay(pid, "corr", {
                    "property": pid,
                    "obligation": f"correspondence {mod.FAILING} (stream {all_stream[i]}): the model's "
                                  f"observation differs from the implementation's on {len(unexplained)} case(s)",
                    "theorems_resting_on_it": thms,
                    "case": all_cases[i], "impl_observation": all_obs[i], "coq_term": terms[i],
                    "hashseed": all_hs[i], "seed": seed})
                res.violations.append((f"correspondence broken on {len(unexplained)} case(s)", p, False))
        if (proof_broken or corr_broken) and not res.violations:
            bad_thms = ([n for n in thms if n not in discharged] + [n for n in tr_mine if n not in tr_done]
                        or (["<translation of /repo/src/serif>"] if tr and tr["errors"] else ["<development>"]))
            p = write_replay(pid, "proof", {
                "property": pid, "obligation": "proof obligations / case evaluation",
                "failing": bad_thms, "assumptions": assum, "notes": res.notes})
            res.violations.append(("proof obligation no longer checks: " + ", ".join(bad_thms[:5]), p, False))

        # ---- 6. evidence
        nontriv = set()
        for c, o in zip(all_cases, all_obs):
            if mod.nontrivial(c, o):
                nontriv.add(canon(c))
        dist = {}
        if hasattr(mod, "describe"):
            for c, o, s in zip(all_cases, all_obs, all_stream):
                for k in mod.describe(c, o, s):
                    dist[k] = dist.get(k, 0) + 1
        stream_counts = {}
        for s in all_stream:
            stream_counts[s] = stream_counts.get(s, 0) + 1
        tb = sorted({f"{n}: " + " ".join(assum[n].split()) for n in thms if n in assum})
        samples = []
        step = max(1, len(all_cases) // 4)
        for i in range(0, len(all_cases), step):
            samples.append({"stream": all_stream[i], "case": all_cases[i], "impl_observation": all_obs[i],
                            "coq_term": terms[i][:400]})
            if len(samples) >= 5:
                break
        ev = {
            "property_id": pid, "tier": tier, "seed": seed, "level": "proof",
            "coverage": {
                "obligations": len(thms) + len(tr_mine), "discharged": len(discharged) + len(tr_done),
                "theorems": thms,
                "translated": ({"scripts": scripts, "obligations": tr_mine, "discharged": tr_done,
                                "generated_sha1": tr.get("generated"), "functions": tr.get("functions"),
                                "errors": tr["errors"], "seconds": tr.get("seconds"),
                                "assumptions_of_the_abstraction": tr.get("abstraction_assumptions")}
                               if tr else None),
                "checker_cmd": f"make -C coq -j{NCPU} (coqc 8.16.1, full .vo build) ; coqc Print Assumptions on Props/{pid}.v",
                "trusted_base": [
                    "Coq 8.16.1 kernel + vm_compute (no native_compute, no extraction)",
                    "hand-written Gallina model tied to /repo by the correspondence check below",
                    "harness: generators, impl observer, Coq term printers (harness/props/%s.py)" % modname,
                ] + (["translator harness/translate.py (fail-closed Python-ast -> Gallina for the decision kernels) and "
                      "its abstraction of Python values (Base/GenPrelude.v)"] if tr else [])
                + tb + [f"{n_}: " + " ".join(tr["assumptions"].get(n_, "?").split()) for n_ in tr_mine]
                + list(getattr(mod, "ASSUMED", [])),
                "coqchk": (chk["summary"] if chk else "not run in the quick tier"),
                "evaluations": len(all_cases),
                "distinct_nontrivial": len(nontriv),
                "rule": mod.RULE,
                "samples": samples,
                "traces_validated_against_impl": len(all_cases) if ok and not errs else 0,
                "model_impl_disagreements": len(disagree),
                "oracle_failures": len(oracle_fail),
                "streams": stream_counts,
                "exhaustive": bool(getattr(mod, "EXHAUSTIVE", {}).get(tier, False)),
                "exhaustive_note": getattr(mod, "EXHAUSTIVE_NOTE", ""),
                "distribution": dist,
                "hashseeds": hashseeds,
                "repo_head": subprocess.run(["git", "-C", str(REPO), "rev-parse", "--short", "HEAD"],
                                            capture_output=True, text=True).stdout.strip(),
                "repo_dirty": bool(subprocess.run(["git", "-C", str(REPO), "status", "--porcelain", "--", "src"],
                                                  capture_output=True, text=True).stdout.strip()),
                "known_findings_seen": [k for k, _ in res.known],
                "notes": res.notes,
            },
            "assumptions": list(getattr(mod, "ASSUMED", [])),
            "wall_s": round(time.time() - t0, 2),
            "violations": len(res.violations),
        }
        if not replay:
            # evidence is only ever written by runs against /repo itself (SERIF_REPO=<scratch worktree> is how
            # mutants are tried; those runs leave their numbers under work/)
            evdir = (VERIF / "evidence") if str(REPO) == "/repo" else (WORK / "evidence-other-tree")
            evdir.mkdir(parents=True, exist_ok=True)
            (evdir / f"{pid}.json").write_text(json.dumps(ev, indent=1, default=str))

        for kid, what in res.known:
            print(f"KNOWN-FINDING: property={pid} {kid}: {what}")
        for what, p, found in res.violations:
            tail = "" if found else " no-failing-input-found"
            print(f"# {pid}: {what}")
            print(f"VIOLATION property={pid} replay={p}{tail}")
        print(f"# {pid} {tier}: {len(all_cases)} cases, {len(nontriv)} distinct non-trivial, "
              f"{len(discharged) + len(tr_done)}/{len(thms) + len(tr_mine)} theorems, {len(disagree)} model/impl disagreements, "
              f"{len(oracle_fail)} oracle failures, {ev['wall_s']} s")
        return 1 if res.violations else 0
    finally:
        shutil.rmtree(workdir, ignore_errors=True)


def shrink(mod, modname, case, hs, key, budget: int | None = None):
    """Greedy delta debugging: keep a smaller case while the oracle still reports `key`.
    VERIF_SHRINK_BUDGET bounds the number of candidate executions (minimisation only: the verdict does not depend on it)."""
    if budget is None:
        budget = int(os.environ.get("VERIF_SHRINK_BUDGET", "900"))
    cur = case
    steps = 0
    improved = True
    while improved and steps < budget:
        improved = False
        cands = list(mod.shrink(cur))
        if not cands:
            break
        cands = cands[: max(1, budget - steps)]
        obs = run_impl(modname, cands, hashseed=hs)
        steps += len(cands)
        for c2, o2 in zip(cands, obs):
            why = mod.oracle(c2, o2)
            if why and why.split(":")[0] == key:
                cur = c2
                improved = True
                break
    return cur
