"""C11 — join cardinality expectations are enforced exactly.

Streams
  table    EXHAUSTIVE decision table: 3 joins x 9 expect values (the four valid ones, the
           function's default, and four invalid ones: 'bogus', '', 'ONE_TO_ONE', a non-string)
           x left keys {unique, duplicated among matched rows, duplicated among unmatched rows only}
           x right keys {the same three} x 6 realisations of the keys (int, str, int with a
           1 == True duplicate, None as the duplicated key, two-column composite keys that agree
           on one component, key by external Vector)
  random   random table pairs (as C09) x random join x random expect value
For every case the observer also calls the same join with expect='many_to_many'; when the
expectation holds the two results must be identical.
"""
from harness.props import _joins as J

PID = "C11"
TRANSLATE = ["EqJoin.v", "EqJoinIndex.v"]     # translator tie: coq/gen_proofs/EqJoin.v is re-proved against definitions regenerated from /repo
PRELUDE = J.PRELUDE_FMT % PID
FAILING = "C11.failing"
SHARD = 300
HASHSEEDS = {"quick": ["0"], "thorough": ["0", "1", "12345"]}
ASSUMED = J.ASSUMED
RULE = ("the full decision table join kind x expect value x left-key shape x right-key shape, each cell realised "
        "with 6 key realisations (duplicates among matched rows, and among unmatched rows only), plus random "
        "table pairs with random expect values. Distinct = canonical JSON; non-trivial = uniqueness fails on "
        "exactly one side.")
EXHAUSTIVE = {"quick": True, "thorough": True}
EXHAUSTIVE_NOTE = ("exhaustive over the decision table 3 joins x 9 expect values x 3 left shapes x 3 right shapes x "
                   "6 key realisations (1458 cases); arbitrary tables are the theorems' job, the random stream samples them")
DESIGN_REF = "DESIGN.md section 4, C09 / C10 / C11"
LEVEL_TEXT = ("theorems (all tables): for a valid expect and an accepted key specification each of the three joins "
              "raises SerifValueError iff a required uniqueness fails; any other expect value is rejected first; when "
              "the expectation holds the call equals the 'many_to_many' call")
LEVEL_NOTE = ("Trusted: Coq 8.16.1 kernel and vm_compute; the hand-written model Model/Join.v with each function's own "
              "expect tuples (tied to table.py by the correspondence check: the exhaustive decision table and random "
              "pairs); expect values are modelled as strings (a non-string value is shipped as a non-member string); "
              "the harness.")

INVALID = ["bogus", "", "ONE_TO_ONE", ["i", 3], ["N"]]
EXPECT_VALUES = J.EXPECTS + [None] + INVALID[:4]

# key realisations: A, B are matched on both sides, U occurs on the left only, W on the right only;
# A2 / U2 / W2 are values == A / U / W used for the duplicate (possibly of another class: True == 1)
REAL = {
    "int": dict(A=[["i", 1]], B=[["i", 2]], U=[["i", 7]], W=[["i", 8]]),
    "str": dict(A=[["s", "a"]], B=[["s", "b"]], U=[["s", "u"]], W=[["s", "w"]]),
    "booleq": dict(A=[["i", 1]], A2=[["b", True]], B=[["i", 2]], U=[["i", 0]], U2=[["b", False]], W=[["i", 8]]),
    "none": dict(A=[["N"]], B=[["i", 2]], U=[["i", 7]], W=[["i", 8]]),
    "composite": dict(A=[["i", 1], ["s", "x"]], B=[["i", 1], ["s", "y"]], U=[["i", 2], ["s", "x"]], W=[["i", 3], ["s", "y"]]),
    "vector": dict(A=[["d", 738000]], B=[["d", 738001]], U=[["d", 738002]], W=[["d", 738003]]),
}
SHAPES = ("unique", "dup-matched", "dup-unmatched")


def _side(real, side, shape):
    r = REAL[real]
    A, B = r["A"], r["B"]
    X = r["U"] if side == "L" else r["W"]
    A2 = r.get("A2", A)
    X2 = (r.get("U2", X) if side == "L" else X)
    if shape == "unique":
        rows = [A, B, X] if side == "L" else [B, X, A]
    elif shape == "dup-matched":
        rows = [A, B, A2, X] if side == "L" else [A, X, B, A2]
    else:
        rows = [X, A, B, X2] if side == "L" else [B, X, A, X2]
    return rows


def table_case(how, expect, real, lshape, rshape):
    lrows, rrows = _side(real, "L", lshape), _side(real, "R", rshape)
    nk = len(lrows[0])
    L = [[f"k{q}", [row[q] for row in lrows]] for q in range(nk)] + [["a", [["i", 100 + i] for i in range(len(lrows))]]]
    R = [["b", [["s", f"r{j}"] for j in range(len(rrows))]]] + [[f"k{q}", [row[q] for row in rrows]] for q in range(nk)]
    lon, ron = [["n", f"k{q}"] for q in range(nk)], [["n", f"k{q}"] for q in range(nk)]
    if real == "vector":
        L, lon = L[nk:], [["v", [row[q] for row in lrows]] for q in range(nk)]
    return {"how": how, "expect": expect, "L": L, "R": R, "lon": lon, "ron": ron, "single": nk == 1 and real == "str",
            "cell": [how, expect if not isinstance(expect, list) else str(expect), real, lshape, rshape]}


def streams(rng, tier):
    table = [table_case(h, e, real, ls, rs) for h in ("inner", "left", "full") for e in EXPECT_VALUES
             for real in REAL for ls in SHAPES for rs in SHAPES]
    rand = []
    for _ in range(1200 if tier == "quick" else 8000):
        c = J.gen_pair(rng)
        which = rng.random()                                 # random tables rarely have unique keys: help them
        if which < 0.3:
            c = J.dedupe_side(c, "L")
        elif which < 0.6:
            c = J.dedupe_side(c, "R")
        elif which < 0.75:
            c = J.dedupe_side(J.dedupe_side(c, "L"), "R")
        c["expect"] = rng.choice(J.EXPECTS * 4 + [None, None] + INVALID)
        rand.append(c)
    return [("table", table), ("random", rand)]


def observe(case):
    return J.observe_join(case, aux=(("m2m", case["how"], "many_to_many", False),))


def emit(case, obs):
    return J.emit_join(case, obs)


def oracle(case, obs):
    if "broken" in obs:
        return "observer: " + obs["broken"]
    why = J.judge_call(case, obs, obs["res"], case["how"], case["expect"])
    if why or not J.in_domain(case, obs):
        return why
    m2m = obs["aux"]["m2m"]
    if "exc" in m2m:
        return f"raises: expect='many_to_many' raised: {m2m['msg']}"
    if "exc" not in obs["res"] and obs["res"] != m2m:
        return (f"differs-from-many_to_many: with expect={case['expect']!r} (which holds) the result differs "
                f"from the many_to_many result")
    return J.inputs_unchanged(obs)


def nontrivial(case, obs):
    if "broken" in obs or not J.in_domain(case, obs):
        return False
    lk, rk = J.key_tuples(case)
    return J.unique(lk) != J.unique(rk)


def describe(case, obs, stream):
    if "broken" in obs:
        return [f"{stream}:observer-broken"]
    e = case["expect"]
    lab = "default" if e is None else (e if e in J.EXPECTS else "invalid")
    out = [f"{stream}:{case['how']}:{lab}"]
    if J.in_domain(case, obs):
        lk, rk = J.key_tuples(case)
        out.append(f"left-{'unique' if J.unique(lk) else 'dup'}/right-{'unique' if J.unique(rk) else 'dup'}")
    out.append("raised" if "exc" in obs["res"] else "returned")
    return out


def shrink(case):
    for c in J.shrink_join(case):
        c.pop("cell", None)
        yield c


def neighbours(case, rng):
    out = []
    for e in EXPECT_VALUES:
        for h in ("inner", "left", "full"):
            out.append(dict(case, expect=e, how=h))
    return out
