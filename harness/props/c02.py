"""C02 — tables stay rectangular; row views agree with column views."""
from harness.props import _heap as H

PID = "C02"
TRANSLATE = ["EqRect.v"]     # translator tie: the rectangularity guards regenerated from vector.py / table.py and re-proved
PRELUDE = H.PRELUDE
FAILING = H.FAILING
SHARD = 60
IMPL_BATCH = 125      # histories per implementation subprocess (each step scans gc.get_objects(): keep batches small)
RULE = ("random histories of 8-35 operations biased towards table construction (dict, vectors, >>, <<, selections, "
        "joins, sorts, transposes) and in-place updates (cell, row, column, region, attribute assignment, renames), "
        "including rejected ones (ragged input, wrong-length columns); after every step every live table is checked; "
        "distinct = canonical JSON of the program; non-trivial = >= 2 structural operations and (a rejected operation "
        "or a zero-row / zero-column table)")
ASSUMED = []
MIX = {"sel2d": 3, "window": 1, "vcat": 2, "newvec": 3, "newtab_dict": 6, "newtab_vecs": 4, "copy": 1, "slice": 3, "mask": 2, "rowidx": 3, "colview": 2, "selcols": 2,
       "stack": 5, "append": 3, "join": 2, "sort": 1, "transpose": 2, "math": 1, "setv": 3, "sett": 5, "setattr": 5,
       "rename": 1, "read": 2, "drop": 1}


# cell values of every kind the library treats as a scalar, iterable ones (str, bytes) included: the heap
# histories only move None / ints / integral floats around
CELLS = {
    "int": [["i", 1], ["i", -2], ["i", 7]], "float": [["f", (0.5).hex()], ["f", (2.0).hex()]],
    "str": [["s", "a"], ["s", "xyz"], ["s", ""]], "bytes": [["y", "7a"], ["y", "0001ff"], ["y", ""]],
    "bool": [["b", True], ["b", False]], "date": [["d", 738000], ["d", 738001]],
    "none": [["N"]],
}     # (tuples and lists are SEQUENCES for << - the library concatenates them - so they are not used as cells)


def rowappend_cases(rng, n):
    """t << row and t >> column on tables whose cells are scalars of every kind (pure oracle stream: there is
    nothing for the heap model to say about bytes or tuples)."""
    cs = []
    kinds = list(CELLS)
    for _ in range(n):
        w, h = rng.randint(1, 3), rng.randint(0, 3)
        ks = [rng.choice(kinds[:-1]) for _ in range(w)]
        cols = [[rng.choice(CELLS[k] + ([["N"]] if rng.random() < 0.2 else [])) for _ in range(h)] for k in ks]
        row = [rng.choice(CELLS[k]) for k in ks]
        if rng.random() < 0.25:
            # a cell of a WIDER kind than its column (a float under ints - one of them beyond 2**53 -, an int under bools): the
            # column is promoted, the cells that were there stay the very values they were
            for q, k in enumerate(ks):
                if k == "int" and h:
                    cols[q][rng.randrange(h)] = ["i", 2 ** 53 + 1]
                    row[q] = ["f", (2.5).hex()]
                elif k == "bool":
                    row[q] = ["i", 7]
        if rng.random() < 0.15:
            row = row[:-1] if rng.random() < 0.5 else row + [["i", 0]]          # wrong width: must be refused
        if w >= 2 and rng.random() < 0.12:
            # a BLOCK whose entries extend the columns by different amounts (a list of two cells next to a list of one, a tuple
            # next to a scalar): whatever << makes of it, it is not a table with columns of different lengths
            cs.append({"op": "rowappend", "cols": cols, "row": row, "block": [rng.choice([1, 2, 2, 3]) for _ in range(w - 1)] + [rng.choice([0, 1])],
                       "rowform": rng.choice(["list", "tuple"])})
            continue
        cs.append({"op": "rowappend", "cols": cols, "row": row,
                   # the row as a list, a tuple, or a one-shot iterable (a generator, an iterator): the same cells
                   "rowform": rng.choice(["list", "list", "tuple", "gen", "iter"])})
    # row views by position: t[i] is the i-th cell of every column for every i in range, an IndexError for every other i
    for n in (0, 1, 2, 3, 5):
        for i in range(-2 * n - 2, 2 * n + 3):
            cs.append({"op": "rowappend", "cols": [[["i", 10 * j + r] for r in range(n)] for j in range(2)], "row": [],
                       "rowindex": i})
    return cs


FORMS = ["dict", "vectors", "lists", "empty>>dict", "empty_dict>>dict", "t>>dict", "t>>vector", "t>>list", "t>>table",
         # one-shot iterables of columns, through both constructors (Vector(...) of equal-length vectors is a table)
         "Table(gen)", "Vector(gen)", "Vector(map)", "Vector(tuple)", "Table(iter)", "Vector(vectors)"]


def construct_cases(rng, n):
    """every way of building a table from columns, with column lengths that agree or do not (a zero-length
    column first, last, in the middle): the result is rectangular or the input is rejected (pure oracle stream)"""
    cs = []
    for form in FORMS:
        for lens in ([2, 2], [2, 3], [3, 2], [0, 2], [2, 0], [0, 0], [1, 1, 2], [0, 1, 1], [2, 2, 2], [1], [0], []):
            cs.append({"op": "construct", "form": form, "lens": lens})
    for _ in range(n):
        cs.append({"op": "construct", "form": rng.choice(FORMS),
                   "lens": [rng.choice([0, 1, 2, 2, 3]) for _ in range(rng.randint(1, 4))]})
    return cs


def streams(rng, tier):
    n = 500 if tier == "quick" else 4000
    return [("histories", [{"prog": H.gen_program(rng, rng.randint(8, 35), MIX)} for _ in range(n)]),
            ("rowappend", rowappend_cases(rng, 300 if tier == "quick" else 3000)),
            ("construct", construct_cases(rng, 150 if tier == "quick" else 1500))]


def _observe_construct(case):
    from serif import Table, Vector
    lens, form = case["lens"], case["form"]
    cols = [[10 * j + i for i in range(ln)] for j, ln in enumerate(lens)]
    names = [f"c{j}" for j in range(len(cols))]
    d = dict(zip(names, cols))
    import warnings
    try:
        with warnings.catch_warnings():
            warnings.simplefilter("ignore")
            if form == "dict":
                r = Table(d)
            elif form == "vectors":
                r = Table([Vector(c, name=nm) for nm, c in zip(names, cols)])
            elif form == "lists":
                r = Table([list(c) for c in cols])
            elif form == "Table(gen)":
                r = Table(Vector(c, name=nm) for nm, c in zip(names, cols))
            elif form == "Vector(gen)":
                r = Vector(Vector(c, name=nm) for nm, c in zip(names, cols))
            elif form == "Vector(map)":
                r = Vector(map(Vector, cols))
            elif form == "Vector(tuple)":
                r = Vector(tuple(Vector(c, name=nm) for nm, c in zip(names, cols)))
            elif form == "Table(iter)":
                r = Table(iter([Vector(c, name=nm) for nm, c in zip(names, cols)]))
            elif form == "Vector(vectors)":
                r = Vector([Vector(c, name=nm) for nm, c in zip(names, cols)])
            elif form == "empty>>dict":
                r = Table() >> d
            elif form == "empty_dict>>dict":
                r = Table({}) >> d
            else:
                if not cols:
                    return {"skip": "nothing to stack"}
                base = Table({names[0]: cols[0]})
                if form == "t>>dict":
                    r = base >> dict(zip(names[1:], cols[1:])) if len(cols) > 1 else base
                elif form == "t>>vector":
                    r = base
                    for nm, c in zip(names[1:], cols[1:]):
                        if not isinstance(r, Table):
                            return {"table": False}      # an earlier step was refused (not a table): stop there
                        r = r >> Vector(c, name=nm)
                elif form == "t>>list":
                    r = base
                    for c in cols[1:]:
                        if not isinstance(r, Table):
                            return {"table": False}
                        r = r >> list(c)
                else:
                    r = base >> Table(dict(zip(names[1:], cols[1:]))) if len(cols) > 1 else base
    except Exception as e:                                   # noqa: BLE001
        return {"exc": type(e).__name__, "msg": str(e)[:120]}
    if not isinstance(r, Table):
        return {"table": False}
    cl = [len(c) for c in r.cols()]
    o = {"table": True, "lens": cl, "len": len(r), "shape": [int(x) for x in r.shape]}
    try:
        o["rows"] = [[repr(x) for x in row] for row in r]
        o["colcells"] = [[repr(x) for x in c] for c in r.cols()]
    except Exception as e:                                   # noqa: BLE001
        o["iter_exc"] = f"{type(e).__name__}: {e}"[:120]
    return o


def _observe_rowappend(case):
    from harness import values as V
    from serif import Table, Vector
    cols = [[V.dec(x) for x in c] for c in case["cols"]]
    row = [V.dec(x) for x in case["row"]]
    t = Table([Vector(c, name=f"c{j}") for j, c in enumerate(cols)])
    if not isinstance(t, Table):
        return {"skip": "not a table"}
    if "rowindex" in case:
        i = case["rowindex"]
        want = None
        try:
            want = [repr(c[i]) for c in cols]
        except IndexError:
            pass
        got = {}
        for label, f in (("t[i]", lambda: [repr(x) for x in t[i]]), ("t[i, 0]", lambda: repr(t[i, 0])),
                         ("t[i, 'c1']", lambda: repr(t[i, "c1"]))):
            try:
                got[label] = f()
            except Exception as e:                           # noqa: BLE001
                got[label] = ["raises", type(e).__name__]
        return {"rowindex": i, "want": want, "got": got, "n": len(cols[0])}
    if case.get("block"):
        blk = [([x] * k if k else x) for x, k in zip(row, case["block"])]       # k cells for this column (0: the bare scalar)
        blk = tuple(tuple(e) if isinstance(e, list) else e for e in blk) if case.get("rowform") == "tuple" else blk
        try:
            out = t << blk
        except Exception as e:                               # noqa: BLE001
            return {"blockexc": type(e).__name__}
        if isinstance(out, Table):
            return {"block_table": [len(c) for c in out.cols()], "len": len(out), "shape": [int(x) for x in out.shape]}
        return {"block_table": None}
    before = [[repr(x) for x in r] for r in t] if cols and cols[0] else []
    form = case.get("rowform", "list")
    given = {"list": lambda: list(row), "tuple": lambda: tuple(row), "gen": lambda: (x for x in row),
             "iter": lambda: iter(list(row))}[form]()
    try:
        out = t << given
    except Exception as e:                                   # noqa: BLE001
        return {"exc": type(e).__name__, "msg": str(e)[:120], "width_ok": len(row) == len(cols)}
    o = {"width_ok": len(row) == len(cols), "is_table": isinstance(out, Table), "before": before,
         "row": [repr(x) for x in row], "h": len(cols[0]) if cols else 0}
    if isinstance(out, Table):
        o["lens"] = [len(c) for c in out.cols()]
        o["len"] = len(out)
        o["rows"] = [[repr(x) for x in r] for r in out]
        o["colcells"] = [[repr(x) for x in c] for c in out.cols()]
        # the cells of every row read LAZILY: the row's cell iterator is started (one cell taken) while the table iteration stands
        # on that row and finished only after the table iteration is over
        pend, none = [], object()
        for r in out:
            it = iter(r)
            pend.append((next(it, none), it))
        o["rows_lazy"] = [([] if first is none else [repr(first)] + [repr(x) for x in it]) for first, it in pend]
    else:
        o["lens"] = [len(c) if hasattr(c, "__len__") else None for c in out]
    o["src_after"] = [[repr(x) for x in r] for r in t] if cols and cols[0] else []
    return o


def observe(case):
    if case.get("op") == "construct":
        try:
            return _observe_construct(case)
        except Exception as e:                               # noqa: BLE001
            return {"broken": f"{type(e).__name__}: {e}"[:200]}
    if case.get("op") == "rowappend":
        try:
            return _observe_rowappend(case)
        except Exception as e:                               # noqa: BLE001
            return {"broken": f"{type(e).__name__}: {e}"[:200]}
    return H.observe_program(case)


def emit(case, obs):
    if case.get("op") in ("rowappend", "construct"):
        return "(@nil tstep)"                                # decided by the oracle alone
    return H.emit_trace(case, obs)


_heap_oracle = H.oracle_for(("C02",))


def _oracle_construct(case, obs):
    if "skip" in obs or "exc" in obs or not obs.get("table"):
        return None                                          # rejected, or not a table at all: nothing was stored
    if "broken" in obs:
        return f"construct-observer: {obs['broken']}"
    what = f"{case['form']} with column lengths {case['lens']}"
    lens = obs["lens"]
    if len(set(lens)) > 1:
        return f"construct-ragged: {what} stored a table whose columns have lengths {lens} (len(table) = {obs['len']})"
    n = lens[0] if lens else 0
    if obs["len"] != n:
        return f"construct-len: {what}: len(table) = {obs['len']} but the columns have {n} rows"
    if lens and obs["shape"] != [n, len(lens)]:
        return f"construct-shape: {what}: shape {obs['shape']} for {n} rows x {len(lens)} columns"
    if "iter_exc" in obs:
        return f"construct-rows-raise: {what}: iterating the rows raised {obs['iter_exc']}"
    if lens and [list(r) for r in zip(*obs["colcells"])] != obs["rows"]:
        return f"construct-rowview: {what}: rows {obs['rows']} disagree with columns {obs['colcells']}"
    return None


def oracle(case, obs):
    if case.get("op") == "construct":
        return _oracle_construct(case, obs)
    if case.get("op") != "rowappend":
        return _heap_oracle(case, obs)
    if "rowindex" in obs:
        i, want, got = obs["rowindex"], obs["want"], obs["got"]
        exp = {"t[i]": want, "t[i, 0]": None if want is None else want[0], "t[i, 'c1']": None if want is None else want[1]}
        for label, g in got.items():
            raised = isinstance(g, list) and g[:1] == ["raises"]
            if exp[label] is None and not raised:
                return (f"rowindex-out-of-range: {label} with i = {i} on a table of {obs['n']} rows gives {g}; the columns have no "
                        f"such row (an index outside -n .. n-1 is an error for every column)")
            if exp[label] is not None and (raised or g != exp[label]):
                return f"rowindex-rowview: {label} with i = {i} on a table of {obs['n']} rows gives {g}, the columns hold {exp[label]}"
        return None
    if "skip" in obs:
        return None
    if "broken" in obs:
        return f"rowappend-observer: {obs['broken']}"
    if case.get("block"):
        lens = obs.get("block_table")
        if lens and (len(set(lens)) > 1 or obs["len"] != lens[0]):
            return (f"rowappend-ragged-accepted: t << <a block extending the columns of {case['cols']} by {case['block']} cells (0 = a "
                    f"bare scalar)> is a Table with column lengths {lens}, len {obs['len']}, shape {obs['shape']}")
        return None
    what = f"t << {case['row']} ({case.get('rowform', 'list')}) on columns {case['cols']}"
    if not obs["width_ok"]:
        if "exc" not in obs and obs.get("is_table"):
            return (f"rowappend-ragged-accepted: {what}: a row of the wrong width was stored (columns of lengths "
                    f"{obs.get('lens')})")
        return None
    if "exc" in obs and case.get("rowform") in ("gen", "iter"):
        return None                   # a one-shot iterable may be refused outright (it has no length to check)
    if "exc" in obs:
        return f"rowappend-raises: {what} raised {obs['exc']}: {obs['msg']}"
    h = obs["h"]
    if not obs["is_table"] or obs["lens"] != [h + 1] * len(case["cols"]) or obs["len"] != h + 1:
        return (f"rowappend-ragged: {what}: << must append one cell to every column; result is "
                f"{'a table' if obs['is_table'] else 'not a table'} with column lengths {obs['lens']}")
    if obs["rows"][:-1] != obs["before"]:
        return f"rowappend-cells: {what}: existing rows changed: {obs['rows'][:-1]} vs {obs['before']}"
    if obs["rows"][-1] != obs["row"]:
        return f"rowappend-cells: {what}: the appended row reads back as {obs['rows'][-1]}"
    if [list(r) for r in zip(*obs["colcells"])] != obs["rows"]:
        return f"rowappend-rowview: {what}: rows {obs['rows']} disagree with columns {obs['colcells']}"
    if obs.get("rows_lazy") is not None and obs["rows_lazy"] != obs["rows"]:
        return (f"rowappend-rowview: {what}: the cells of the rows, each read through an iterator started on its own row and "
                f"finished after the table iteration, are {obs['rows_lazy']}; the rows are {obs['rows']}")
    if obs["src_after"] != obs["before"]:
        return f"rowappend-operand: {what}: the left operand changed"
    return None


def shrink(case):
    if case.get("op") in ("rowappend", "construct"):
        return []
    return H.shrink_program(case)


def nontrivial(case, obs):
    if case.get("op") == "construct":
        return len(set(case["lens"])) > 1 or 0 in case["lens"]
    if case.get("op") == "rowappend":
        return "skip" not in obs and "broken" not in obs
    st = obs.get("stats") or {}
    return st.get("tables", 0) >= 2 and (st.get("failed_ops", 0) >= 1 or st.get("zero_tables", 0) >= 1)


def describe(case, obs, stream):
    if case.get("op") == "construct":
        return ["construct:" + ("rejected" if ("exc" in obs or not obs.get("table")) else "table")]
    if case.get("op") == "rowappend":
        return ["rowappend:" + ("refused" if "exc" in obs else "ok")]
    st = obs.get("stats") or {}
    return [f"has:{k}" for k in ("tables", "failed_ops", "zero_tables", "writes_ok") if st.get(k)]
