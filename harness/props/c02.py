"""C02 — tables stay rectangular; row views agree with column views."""
from harness.props import _heap as H

PID = "C02"
PRELUDE = H.PRELUDE
FAILING = H.FAILING
SHARD = 60
RULE = ("random histories of 8-35 operations biased towards table construction (dict, vectors, >>, <<, selections, "
        "joins, sorts, transposes) and in-place updates (cell, row, column, region, attribute assignment, renames), "
        "including rejected ones (ragged input, wrong-length columns); after every step every live table is checked; "
        "distinct = canonical JSON of the program; non-trivial = >= 2 structural operations and (a rejected operation "
        "or a zero-row / zero-column table)")
ASSUMED = []
MIX = {"newvec": 3, "newtab_dict": 6, "newtab_vecs": 4, "copy": 1, "slice": 3, "mask": 2, "colview": 2, "selcols": 2,
       "stack": 5, "append": 3, "join": 2, "sort": 1, "transpose": 2, "math": 1, "setv": 3, "sett": 5, "setattr": 5,
       "rename": 1, "read": 2, "drop": 1}


def streams(rng, tier):
    n = 300 if tier == "quick" else 4000
    return [("histories", [{"prog": H.gen_program(rng, rng.randint(8, 35), MIX)} for _ in range(n)])]


def observe(case):
    return H.observe_program(case)


emit = H.emit_trace
oracle = H.oracle_for(("C02",))
shrink = H.shrink_program


def nontrivial(case, obs):
    st = obs.get("stats") or {}
    return st.get("tables", 0) >= 2 and (st.get("failed_ops", 0) >= 1 or st.get("zero_tables", 0) >= 1)


def describe(case, obs, stream):
    st = obs.get("stats") or {}
    return [f"has:{k}" for k in ("tables", "failed_ops", "zero_tables", "writes_ok") if st.get(k)]
