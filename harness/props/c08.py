"""C08 — in-place assignment matches list assignment, promotes or rejects, and is atomic.

Streams
  pairs    every column kind x every value class x key form (int, slice, mask, index list): the
           promote / accept / reject table, with the existing elements' conversions
  keys     key forms x value forms on int vectors of length 0..5: every int index, a slice sample, every
           mask (n <= 3), index lists / tuples / vectors, odd keys; scalar, right-length and wrong-length values
  faults   FAULT ENUMERATION, n = 1..4, for each multi-position key form: an iterable that raises after k
           items for every k, an invalid index at every position, an incompatible value / None / a promoting
           value at every position (also: promoting value first, incompatible value later), __len__ that
           raises, a generator, shared storage (AliasError), a conversion that fails during promotion; each
           with the fingerprint memo primed and not primed
  tset     table cell / row / column / region assignment (scalar, flat, per-column, Table values), incl. failing
  rename   rename_columns: chains, swaps, duplicates, a missing name at every position, length mismatch
"""
import itertools
import json

from harness import values as V
from harness.core import cbool, clist, cnat, copt, cz, err_name

PID = "C08"
TRANSLATE = ["EqTyping.v"]     # translator tie: coq/gen_proofs/EqTyping.v is re-proved against definitions regenerated from /repo
PRELUDE = ("From Coq Require Import List ZArith.\nImport ListNotations.\n"
           "From Serif Require Import Base.PyVal Base.StErr Spec.PySlice Model.SetItem Corr.C08.")
FAILING = "C08.failing"
SHARD = 700
RULE = ("pairs: the full (column kind, value class, key form) table; keys: enumerated keys x values on n <= 5; "
        "faults: every failure point of every multi-position key form on n <= 4; tset / rename: enumerated. "
        "Distinct = canonical JSON of the case; non-trivial = the write changes the dtype (promotion or "
        "nullability), or it fails after at least one valid (index, value) item was consumed, or (tset) it "
        "addresses more than one column, or (rename) it has a chain, a duplicate or a missing name.")
EXHAUSTIVE = {"quick": False, "thorough": False}
EXHAUSTIVE_NOTE = ("failure points are enumerated exhaustively for n <= 4 per key form (every k, every position); "
                   "the theorems (setitem_atomic etc.) cover all lengths and all values")
ASSUMED = [
    "int(x), float(x), complex(x), datetime.combine(x, min.time()) are Python's (shipped per element as a "
    "table; a conversion Python rejects is a failure point of the model)",
    "a value is seen by the typing code only through infer_kind(value) / type(value) (as in C04)",
    "an iterable value is described by len(value) (or its failure), the items it yields and whether it then "
    "raises; iterables that lie about their length are modelled (zip truncation) but not required of serif",
    "Table.__setitem__ resolves names through the sanitised column map: a parameter of the model; case files use "
    "plain distinct names",
    "a multi-column table assignment that fails in column j has already written columns < j (each column write "
    "is atomic; the table-level write is not): modelled as such, reported as an observation, not a violation",
]
HASH_INDEPENDENT_STREAMS = ("pairs", "keys", "faults", "tset", "rename")

BIG = 10 ** 400
COLUMNS = {
    "bool": [["b", True], ["b", False], ["b", True], ["b", True]],
    "int": [["i", 1], ["i", 2], ["i", 3], ["i", 4]],
    "float": [["f", (1.5).hex()], ["f", (2.0).hex()], ["f", (3.25).hex()], ["f", (0.0).hex()]],
    "complex": [["c", (1.0).hex(), (2.0).hex()], ["c", (0.0).hex(), (0.0).hex()], ["c", (3.0).hex(), (0.0).hex()],
                ["c", (1.0).hex(), (1.0).hex()]],
    "str": [["s", "p"], ["s", "q"], ["s", "r"], ["s", "t"]],
    "date": [["d", 738000], ["d", 738001], ["d", 738002], ["d", 738003]],
    "datetime": [["dt", 738000, 60], ["dt", 738001, 0], ["dt", 738002, 5], ["dt", 738003, 7]],
    "int?": [["i", 1], ["N"], ["i", 3], ["i", 4]],
    "bool?": [["b", True], ["N"], ["b", False], ["b", True]],
    "object": [["i", 1], ["s", "q"], ["N"], ["f", (2.5).hex()]],
    "Decimal": [["Dec", "1.5"], ["Dec", "2"], ["Dec", "3"], ["Dec", "4"]],
    "bigint": [["i", 1], ["i", BIG], ["i", 3], ["i", 4]],
    "intsub": [["i", 1], ["IE", 2], ["i", 3], ["I2", 4]],
}
VALUES = [["N"], ["b", True], ["i", 7], ["f", (2.5).hex()], ["c", (0.0).hex(), (1.0).hex()], ["s", "z"],
          ["y", "6162"], ["d", 738100], ["dt", 738100, 30], ["Dec", "9"], ["F", (4.0).hex()], ["IE", 3],
          ["S", "zz"], ["O"], ["Fr", 1, 3], ["i", BIG]]


def col(kind, n):
    return [list(x) for x in COLUMNS[kind][:n]]


def streams(rng, tier):
    out = []
    # ---- pairs
    pairs = []
    for kind in COLUMNS:
        for v in VALUES:
            base = {"op": "set", "vals": col(kind, 3), "name": "x", "prime": False, "shared": False}
            pairs.append(dict(base, key=["int", 1], value=["scalar", v]))
            pairs.append(dict(base, key=["slice", 0, 2, None], value=["list", [v, COLUMNS[kind][3]]], prime=True))
            pairs.append(dict(base, key=["maskv", [False, True, True]], value=["scalar", v]))
            pairs.append(dict(base, key=["list", [["i", -1], ["i", 0]]], value=["tuple", [COLUMNS[kind][3], v]]))
    out.append(("pairs", pairs))
    # ---- keys x values
    keys = []
    for n in range(0, 6):
        base = {"op": "set", "vals": col("int", 4)[:n] + ([["i", 50]] if n == 5 else []), "name": "x" if n % 2 else None,
                "prime": bool(n % 2), "shared": False}
        base["vals"] = [["i", 10 + j] for j in range(n)]
        for i in range(-n - 2, n + 2):
            keys.append(dict(base, key=["int", i], value=["scalar", ["i", 99]]))
        keys.append(dict(base, key=["bool", True], value=["scalar", ["i", 99]]))
        keys.append(dict(base, key=["int", 0], value=["list", [["i", 1], ["i", 2]]]))
        slices = [(None, None, None), (1, None, None), (None, -1, None), (None, None, -1), (None, None, 2), (5, 9, None),
                  (2, 2, None), (3, 0, -2), (-2, None, None), (0, 0, 0), (None, None, -3), (-9, 9, 3), (1, 4, 2)]
        for (a, b, s) in slices:
            try:
                L = len(range(*slice(a, b, s).indices(n)))
            except ValueError:
                L = 0
            keys.append(dict(base, key=["slice", a, b, s], value=["scalar", ["i", 99]]))
            for m in sorted({L, L + 1, max(0, L - 1), 0}):
                for form in ("list", "vector"):
                    keys.append(dict(base, key=["slice", a, b, s], value=[form, [["i", 70 + j] for j in range(m)]]))
        if n <= 3:
            for m in range(0, n + 2):
                for bits in itertools.product([False, True], repeat=m):
                    t = sum(bits)
                    for form in ("maskv", "list"):
                        k = ["maskv", list(bits)] if form == "maskv" else ["list", [["b", x] for x in bits]]
                        keys.append(dict(base, key=k, value=["scalar", ["i", 99]]))
                        for L in sorted({t, t + 1}):
                            keys.append(dict(base, key=k, value=["list", [["i", 70 + j] for j in range(L)]]))
        for ln in range(0, 3):
            for tup in itertools.product(range(-n - 1, n + 1), repeat=ln):
                if ln == 2 and rng.random() < 0.5:
                    continue
                form = rng.choice(["list", "tuple", "idxv"])
                k = ["idxv", list(tup)] if form == "idxv" else [form, [["i", i] for i in tup]]
                keys.append(dict(base, key=k, value=["scalar", ["i", 99]]))
                keys.append(dict(base, key=k, value=["list", [["i", 70 + j] for j in range(ln)]]))
                if ln:
                    keys.append(dict(base, key=k, value=["tuple", [["i", 70 + j] for j in range(ln - 1)]]))
        odd = [["list", [["i", 0], ["b", True]]], ["tuple", [["b", True], ["b", False]]], ["list", [["IE", 1], ["i", 0]]],
               ["list", [["i", 0], ["N"]]], ["list", [["s", "a"]]], ["tuple", []], ["list", []], ["bad", ["s", "a"]],
               ["bad", ["f", (1.0).hex()]], ["bad", ["N"]], ["maskv_null", [True, None]], ["emptyvec"],
               ["tuple", [["i", 0], ["f", (1.0).hex()]]]]
        for k in odd:
            keys.append(dict(base, key=k, value=["scalar", ["i", 99]]))
            keys.append(dict(base, key=k, value=["list", [["i", 70], ["i", 71]]]))
    out.append(("keys", keys))
    # ---- fault enumeration
    faults = []
    for n in range(1, 5):
        for kind in ("int", "bool", "float", "date", "int?", "str"):
            vals = col(kind, n)
            good = [COLUMNS[kind][(j + 1) % 4] for j in range(n)]
            good = [g if g != ["N"] else COLUMNS[kind][0] for g in good]
            wider = {"int": ["f", (0.5).hex()], "bool": ["i", 5], "float": ["c", (0.0).hex(), (1.0).hex()],
                     "date": ["dt", 738200, 9], "int?": ["f", (0.5).hex()], "str": None}[kind]
            bad = ["s", "bad"] if kind != "str" else ["i", 0]
            keyforms = [["slice", None, None, None], ["slice", None, None, -1], ["maskv", [True] * n],
                        ["list", [["b", True]] * n], ["list", [["i", j] for j in range(n)]],
                        ["tuple", [["i", -1 - j] for j in range(n)]], ["idxv", list(range(n))]]
            if kind not in ("int", "bool"):
                keyforms = keyforms[:1] + keyforms[4:5]
            for k in keyforms:
                for prime in (False, True):
                    base = {"op": "set", "vals": vals, "name": "x", "prime": prime, "shared": False, "key": k}
                    if prime and kind != "int":
                        continue
                    for j in range(0, n + 1):                       # iterable raising after j items
                        faults.append(dict(base, value=["flaky", good, j, n]))
                    faults.append(dict(base, value=["flaky", good, n - 1, n + 1]))
                    faults.append(dict(base, value=["badlen", good]))
                    faults.append(dict(base, value=["gen", good]))
                    faults.append(dict(base, value=["list", good], shared=True))
                    for j in range(n):                              # a bad value at every position
                        for repl in (bad, ["N"], wider):
                            if repl is None:
                                continue
                            vs = [list(g) for g in good]
                            vs[j] = repl
                            faults.append(dict(base, value=["list", vs]))
                            if repl is wider and j + 1 < n:         # promote first, reject later
                                vs2 = [list(x) for x in vs]
                                vs2[n - 1] = bad
                                faults.append(dict(base, value=["vector", vs2]))
                                faults.append(dict(base, value=["flaky", vs, j + 1, n]))
                    for j in range(n):                              # None (or a promoting value) AND a bad value
                        for q in range(n):
                            if q == j:
                                continue
                            for first in (["N"], wider):
                                if first is None:
                                    continue
                                vs = [list(g) for g in good]
                                vs[j], vs[q] = first, bad
                                faults.append(dict(base, value=["list", vs]))
                    if wider is not None:
                        for j in range(n):                          # None AND a promoting value in ONE valid write:
                            for q in range(n):                      # the column must come out wider AND nullable
                                if q != j:
                                    vs = [list(g) for g in good]
                                    vs[j], vs[q] = ["N"], wider
                                    faults.append(dict(base, value=["list", vs]))
                                    faults.append(dict(base, value=["list", vs], decl_null=True))
                    if k[0] in ("list", "tuple") and k[1] and k[1][0][0] == "i" or k[0] == "idxv":
                        for j in range(n):                          # an invalid index at every position
                            for badidx in (n, -n - 1):
                                if k[0] == "idxv":
                                    k2 = ["idxv", [badidx if q == j else x for q, x in enumerate(k[1])]]
                                else:
                                    k2 = [k[0], [["i", badidx] if q == j else x for q, x in enumerate(k[1])]]
                                faults.append(dict(base, key=k2, value=["list", good]))
                                faults.append(dict(base, key=k2, value=["scalar", good[0]]))
                                vs = [list(g) for g in good]
                                if wider:
                                    vs[0] = wider
                                    faults.append(dict(base, key=k2, value=["list", vs]))
        # a conversion that fails while promoting (float(10**400)), at every position of the big element
        for j in range(n):
            vals = [["i", q] for q in range(n)]
            vals[j] = ["i", BIG]
            for k in (["int", 0], ["slice", None, None, None], ["idxv", [n - 1]]):
                v = ["scalar", ["f", (0.5).hex()]] if k[0] != "slice" else ["list", [["f", (0.5).hex()]] * n]
                faults.append({"op": "set", "vals": vals, "name": "x", "prime": True, "shared": False, "key": k, "value": v})
            if n >= 2:
                faults.append({"op": "set", "vals": vals, "name": "x", "prime": False, "shared": False,
                               "key": ["slice", None, None, None],
                               "value": ["list", [["N"]] + [["f", (0.5).hex()]] * (n - 1)]})
    out.append(("faults", faults))
    out.append(("tset", tset_cases(rng, tier)))
    out.append(("rename", rename_cases(rng, tier)))
    out.append(("row-iter", trow_cases(rng, tier)))
    out.append(("rename-any", rename2_cases(rng, tier)))
    if tier == "thorough":
        out.append(("random", random_cases(rng, 6000)))
    else:
        out.append(("random", random_cases(rng, 300)))
    return out


def random_cases(rng, count):
    cs = []
    kinds = list(COLUMNS)
    for _ in range(count):
        kind = rng.choice(kinds)
        n = rng.randint(0, 4)
        vals = col(kind, n)
        pool = [COLUMNS[kind][rng.randrange(4)], rng.choice(VALUES), rng.choice(VALUES), COLUMNS[kind][0]]
        kf = rng.choice(["int", "slice", "maskv", "list", "idxv", "tuple", "blist"])
        if kf == "int":
            key, L = ["int", rng.randint(-n - 1, n)], None
        elif kf == "slice":
            a, b, s = rng.choice([None] + list(range(-5, 6))), rng.choice([None] + list(range(-5, 6))), rng.choice([None, 1, -1, 2, -2, 3])
            key, L = ["slice", a, b, s], len(range(*slice(a, b, s).indices(n)))
        elif kf in ("maskv", "blist"):
            m = [rng.random() < 0.5 for _ in range(n if rng.random() < 0.9 else n + 1)]
            key, L = (["maskv", m] if kf == "maskv" else ["list", [["b", x] for x in m]]), sum(m)
        else:
            idx = [rng.randint(-n - (rng.random() < 0.15), n - 1 + (rng.random() < 0.15)) if n else 0 for _ in range(rng.randint(0, 4))]
            key, L = (["idxv", idx] if kf == "idxv" else [kf, [["i", i] for i in idx]]), len(idx)
        vf = rng.choice(["scalar", "list", "tuple", "vector", "flaky", "gen"])
        if vf == "scalar" or L is None:
            value = ["scalar", rng.choice(pool)]
        else:
            m = L if rng.random() < 0.85 else max(0, L + rng.choice([-1, 1]))
            items = [rng.choice(pool) for _ in range(m)]
            value = [vf, items] if vf != "flaky" else ["flaky", items, rng.randint(0, m), m]
        cs.append({"op": "set", "vals": vals, "name": rng.choice([None, "x"]), "prime": rng.random() < 0.5,
                   "shared": rng.random() < 0.05, "key": key, "value": value})
        if rng.random() < 0.2 and not any(t[0] == "N" for t in vals):
            cs[-1]["decl_null"] = True
    return cs


def tset_cases(rng, tier):
    cs = []

    def tab(n):
        return [{"name": "a", "vals": col("int", n)}, {"name": "b", "vals": col("str", n)},
                {"name": "c", "vals": col("float", n)}, {"name": "d", "vals": col("bool", n)}]
    for n in (0, 1, 3):
        t = tab(n)
        rows = [["int", 0], ["int", -1], ["int", n], ["slice", None, None, None], ["slice", 1, None, None],
                ["slice", None, None, -1], ["maskv", [True] * n], ["maskv", [j == 0 for j in range(n)]],
                ["idxv", [0] if n else []], ["list", [["i", n - 1]]] if n else ["list", []], ["maskv", [True] * (n + 1)]]
        specs = [["all", False], ["all", True], ["int", 0], ["int", 2], ["int", 7], ["name", "a"], ["name", "c"],
                 ["name", "zz"], ["names", ["a", "c"]], ["names", ["c", "a"]], ["names", ["a", "zz"]],
                 ["names", ["d", "a", "c"]], ["names", []]]
        for r in rows:
            L = None
            if r[0] == "slice":
                L = len(range(*slice(r[1], r[2], r[3]).indices(n)))
            elif r[0] == "maskv":
                L = sum(r[1])
            elif r[0] in ("idxv", "list"):
                L = len(r[1])
            for sp in specs:
                ncols = {"all": 4, "int": 1, "name": 1}.get(sp[0], len(sp[1]) if sp[0] == "names" else 1)
                base = {"op": "tset", "cols": t, "rowkey": r, "colspec": sp}
                for x in (["i", 9], ["f", (0.5).hex()], ["N"], ["s", "w"]):
                    cs.append(dict(base, value=["scalar", x]))
                if r[0] == "int":
                    for m in sorted({ncols, ncols + 1, 0}):
                        cs.append(dict(base, value=["flat", "list", [["i", 5 + j] for j in range(m)]]))
                    cs.append(dict(base, value=["flat", "tuple", ([["i", 5], ["s", "w"], ["f", (0.5).hex()], ["b", False]] * 2)[:ncols]]))
                    cs.append(dict(base, value=["flat", "list", ([["f", (0.5).hex()], ["i", 7], ["s", "w"], ["i", 7]] * 2)[:ncols]]))
                else:
                    for m in sorted({L, L + 1}):
                        cs.append(dict(base, value=["flat", "list", [["i", 5 + j] for j in range(m)]]))
                    for form in ("cols", "table"):
                        for w in sorted({ncols, ncols + 1}):
                            if form == "table" and (w == 0 or L == 0):
                                continue
                            cs.append(dict(base, value=[form, [[["i", 10 * q + j] for j in range(L)] for q in range(w)]]))
                    if ncols >= 2:
                        # second column's values are incompatible: column 0 is written, column 1 fails
                        colsv = [[["i", 10 * q + j] for j in range(L)] for q in range(ncols)]
                        if L:
                            colsv[1] = [["s", "w"]] * L
                            cs.append(dict(base, value=["cols", colsv]))
                            colsv2 = [list(c) for c in colsv]
                            colsv2[1] = [["i", 1]] * (L + 1)
                            cs.append(dict(base, value=["cols", colsv2]))
    # the table got its column names through LIVE COLUMN VIEWS (t.cols()[j].name = ...) after its name lookups had been
    # used: a name-addressed write goes to the column that carries the name NOW (a swap a <-> c, a fresh name)
    named = [c for c in cs if c["op"] == "tset" and c["colspec"][0] in ("name", "names") and len(c["cols"]) == 4
             and len(c["cols"][0]["vals"]) > 0]
    for c in rng.sample(named, min(len(named), 120 if tier == "quick" else 1200)):
        cs.append(dict(c, via_rename=rng.choice([[[0, "c"], [2, "a"]], [[0, "old"]], [[2, "a_"], [0, "c_"]], [[2, "zz"]]])))
    # the row key is a LIVE COLUMN of the table being assigned to (t[t.flag, :] = 0; t[t.idx, 'x'] = [..]): the
    # addressed cells are the ones the key names when the assignment starts, whichever column is written first
    for n in (3, 4):
        for kind in ("mask", "idx"):
            for _ in range(12 if tier == "quick" else 60):
                if kind == "mask":
                    kv = [rng.random() < 0.6 for _ in range(n)]
                    if not any(kv):
                        kv[0] = True
                    keycol = {"name": "m", "vals": [["b", x] for x in kv]}
                    rowkey, L = ["maskv", kv], sum(kv)
                else:
                    kv = rng.sample(range(n), rng.randint(1, n))
                    kv = kv + [0] * (n - len(kv))                      # a column needs n cells; extra zeros repeat row 0
                    keycol = {"name": "k", "vals": [["i", x] for x in kv]}
                    rowkey, L = ["idxv", kv], len(kv)
                t = [keycol] + tab(n)[:2]
                sp = rng.choice([["all", False], ["all", True], ["names", [keycol["name"], "a"]], ["names", ["a", keycol["name"]]],
                                 ["name", "a"], ["int", 0]])
                ncols = {"all": 3, "int": 1, "name": 1}.get(sp[0], len(sp[1]) if sp[0] == "names" else 1)
                base = {"op": "tset", "cols": t, "rowkey": rowkey, "colspec": sp, "selfkey": 0}
                cs.append(dict(base, value=["scalar", rng.choice([["b", False], ["i", 0], ["i", 1], ["b", True]])]))
                cs.append(dict(base, value=["cols", [[["i", (q + j) % n] for j in range(L)] for q in range(ncols)]]))
    return cs


def rename_cases(rng, tier):
    cs = []
    tables = [["a", "b", "c"], ["a", "a", "b"], ["a"], [], ["a", None, "b"]]
    for names in tables:
        pool = ["a", "b", "c", "q"]
        for ln in range(0, 4):
            for olds in itertools.product(pool, repeat=ln):
                if ln == 3 and rng.random() < (0.8 if tier == "quick" else 0.3):
                    continue
                news = [rng.choice(["a", "b", "z", "y", "c"]) for _ in range(ln)]
                cs.append({"op": "rename", "names": names, "olds": list(olds), "news": news})
        cs.append({"op": "rename", "names": names, "olds": ["a", "b"], "news": ["b", "a"]})       # swap = chain
        cs.append({"op": "rename", "names": names, "olds": ["a", "b"], "news": ["z"]})
        cs.append({"op": "rename", "names": names, "olds": ["a"], "news": ["z", "y"]})
        cs.append({"op": "rename", "names": names, "olds": ["a", "z", "q"], "news": ["z", "y", "w"]})
    return cs


def trow_cases(rng, tier):
    """t[i, cols] = <one-shot iterable>: the value is consumed BEFORE anything is written, as list assignment does - a
    generator that reads the row being written sees the old cells; one that raises, or yields too few / too many items,
    leaves the table as it was (decided by the oracle alone: the model's row assignment takes a sized value)"""
    cs = []
    for w in (1, 2, 3, 4):
        for n in (1, 3):
            for i in sorted({0, n - 1, -1}):
                specs = [["all", True], ["all", False]] + ([["names", ["c1", "c0"]]] if w >= 2 else []) + ([["names", ["c0", "c2", "c1"]]] if w >= 3 else [])
                for sp in specs:
                    k = w if sp[0] == "all" else len(sp[1])
                    base = {"op": "trow", "w": w, "n": n, "row": i, "colspec": sp}
                    for kind in ("gen", "map", "iter", "short", "long", "rot", "rot2"):
                        cs.append(dict(base, kind=kind))
                    for at in range(0, k + 1):
                        cs.append(dict(base, kind="raise", at=at))
    return cs if tier == "thorough" else rng.sample(cs, min(len(cs), 260))


def rename2_cases(rng, tier):
    """rename_columns with new names of ANY type (ints, tuples, None, unhashable lists / dicts) at every position: the call
    either renames every column it names or leaves every name as it was"""
    cs = []
    odd = [["i", 7], ["t", [["i", 1]]], ["N"], ["l", [["i", 1]]], ["D", []], ["f", (0.5).hex()], ["s", "z"]]
    for names in (["a", "b", "c"], ["a", "b"], ["a", "a", "b"]):
        for ln in (1, 2, 3):
            for pos in range(ln):
                for x in odd:
                    olds = (["a", "b", "c"] * 2)[:ln]
                    news = [["s", f"n{q}"] for q in range(ln)]
                    news[pos] = x
                    cs.append({"op": "rename2", "names": names, "olds": olds, "news": news})
                    cs.append({"op": "rename2", "names": names, "olds": list(reversed(olds)), "news": news})
    return cs if tier == "thorough" else rng.sample(cs, min(len(cs), 150))


# ------------------------------------------------------------------ implementation side

class Flaky:
    """len() == n; iteration yields the first k items, then raises"""

    def __init__(self, items, k, n):
        self.items, self.k, self.n = items, k, n

    def __len__(self):
        return self.n

    def __iter__(self):
        for i, x in enumerate(self.items):
            if i >= self.k:
                break
            yield x
        raise RuntimeError("value iterable failed")


class BadLen:
    def __init__(self, items):
        self.items = items

    def __len__(self):
        raise RuntimeError("len failed")

    def __iter__(self):
        return iter(self.items)


def _mk_key(K):
    from serif import Vector
    from serif.typing import DataType
    t = K[0]
    if t == "int":
        return K[1]
    if t == "bool":
        return bool(K[1])
    if t == "slice":
        return slice(K[1], K[2], K[3])
    if t == "maskv":
        return Vector(list(K[1])) if K[1] else Vector([], dtype=DataType(bool, nullable=False))
    if t == "maskv_null":
        return Vector(list(K[1]), dtype=DataType(bool, nullable=True))
    if t == "list":
        return [V.dec(e) for e in K[1]]
    if t == "tuple":
        return tuple(V.dec(e) for e in K[1])
    if t == "idxv":
        return Vector(list(K[1])) if K[1] else Vector([], dtype=DataType(int, nullable=False))
    if t == "bad":
        return V.dec(K[1])
    if t == "emptyvec":
        return Vector([])
    raise ValueError(K)


def _mk_value(VAL):
    from serif import Vector
    form = VAL[0]
    if form == "scalar":
        return V.dec(VAL[1])
    items = [V.dec(t) for t in VAL[1]]
    if form == "list":
        return items
    if form == "tuple":
        return tuple(items)
    if form == "vector":
        return Vector(items)
    if form == "flaky":
        return Flaky(items, VAL[2], VAL[3])
    if form == "gen":
        return (x for x in items)
    if form == "badlen":
        return BadLen(items)
    raise ValueError(VAL)


def _state(v):
    from serif.alias_tracker import _ALIAS_TRACKER
    refs = _ALIAS_TRACKER._registry.get(id(v._underlying), [])
    owners = sum(1 for r in refs if r() is not None)
    return {"vals": [V.enc(x) for x in v._underlying], "dt": V.schema_obs(v.schema()), "name": v._name,
            "fp": v._fp, "shared": owners > 1}


def _fresh_fp(v):
    from serif import Vector
    vals = list(v._underlying)
    if vals and all(isinstance(x, Vector) for x in vals):
        return None
    return Vector(vals).fingerprint()


def _conv_table(tags):
    import datetime as dt
    out, seen = [], set()
    for t in tags:
        k = json.dumps(t)
        if t[0] == "N" or k in seen:
            continue
        seen.add(k)
        x = V.dec(t)
        for tok, f in (("KInt", int), ("KFloat", float), ("KComplex", complex),
                       ("KDateTime", lambda d: dt.datetime.combine(d, dt.datetime.min.time()))):
            try:
                out.append([tok, t, V.enc(f(x))])
            except Exception:
                pass
    return out


def _exc(e):
    return {"exc": err_name(e), "cls": type(e).__name__, "msg": f"{type(e).__name__}: {e}"[:120]}


def observe(case):
    from serif import Vector, Table
    op = case["op"]
    try:
        if op == "set":
            vals = tuple(V.dec(x) for x in case["vals"])
            if vals and all(isinstance(x, Vector) for x in vals):
                return {"skip": "vector of vectors"}
            v = Vector(vals, name=case["name"])
            if case.get("decl_null") and v.schema() is not None and not v.schema().nullable:
                # a vector whose schema says nullable although it holds no None right now (what is left after
                # v[i] = None; v[i] = 5): the flag must survive every later write, promotions included
                from serif.typing import DataType
                v = Vector(vals, dtype=DataType(v.schema().kind, nullable=True), name=case["name"])
            keep = Vector(vals) if case["shared"] else None        # a second live owner of the same tuple
            fp0 = v.fingerprint() if case["prime"] else None
            key, value = _mk_key(case["key"]), _mk_value(case["value"])
            if isinstance(key, list):
                # the program keeps its index list and used it before, on a LONGER vector: an assignment reads its key, it does
                # not rewrite it (negative positions count from the end of the vector being written, every time)
                try:
                    twin = Vector(vals + vals[:1] * 2 + vals)
                    twin[key] = _mk_value(case["value"])
                except Exception:                            # noqa: BLE001
                    pass
            before = _state(v)
            conv = _conv_table(case["vals"])
            exc = None
            try:
                v[key] = value
            except Exception as e:
                exc = _exc(e)
            after = _state(v)
            fp1 = v.fingerprint()
            return {"before": before, "after": after, "exc": exc, "fp0": fp0, "fp1": fp1, "fresh": _fresh_fp(v),
                    "conv": conv, "kept": keep is not None}
        if op == "tset":
            t = Table([Vector([V.dec(x) for x in c["vals"]], name=c["name"]) for c in case["cols"]])
            if case.get("via_rename"):
                olds = dict((j, o) for j, o in case["via_rename"])
                t = Table([Vector([V.dec(x) for x in c["vals"]], name=olds.get(q, c["name"])) for q, c in enumerate(case["cols"])])
                for probe in (lambda: t.column_names(), lambda: dir(t), lambda: [t[nm] for nm in t.column_names()],
                              lambda: [getattr(t, nm) for nm in ("a", "b", "c", "d", "old", "zz") if hasattr(t, nm)],
                              lambda: repr(t)):
                    try:
                        probe()
                    except Exception:                        # noqa: BLE001
                        pass
                for j, _ in case["via_rename"]:
                    t.cols()[j].name = case["cols"][j]["name"]
            rows = _mk_key(case["rowkey"])
            if case.get("selfkey") is not None:
                rows = t._underlying[case["selfkey"]]        # the live column object (what t.m / t.k returns)
            sp = case["colspec"]
            if sp[0] == "all":
                key = (rows, slice(None)) if sp[1] else rows
            elif sp[0] == "int":
                key = (rows, sp[1])
            elif sp[0] == "name":
                key = (rows, sp[1])
            else:
                key = (rows, tuple(sp[1]) if len(sp[1]) % 2 else list(sp[1]))
            val = case["value"]
            if val[0] == "scalar":
                value = V.dec(val[1])
            elif val[0] == "flat":
                value = [V.dec(x) for x in val[2]]
                value = tuple(value) if val[1] == "tuple" else value
            elif val[0] == "cols":
                value = [[V.dec(x) for x in c] for c in val[1]]
            else:
                value = Table([Vector([V.dec(x) for x in c], name=f"v{q}") for q, c in enumerate(val[1])])
            before = [_state(c) for c in t._underlying]
            conv = _conv_table([x for c in case["cols"] for x in c["vals"]])
            exc = None
            try:
                t[key] = value
            except Exception as e:
                exc = _exc(e)
            after = [_state(c) for c in t._underlying]
            return {"before": before, "after": after, "exc": exc, "conv": conv, "len": len(t)}
        if op == "trow":
            w, n, i = case["w"], case["n"], case["row"]
            t = Table([Vector([100 * q + r for r in range(n)], name=f"c{q}") for q in range(w)])
            sp = case["colspec"]
            key = ((i, slice(None)) if sp[1] else i) if sp[0] == "all" else (i, tuple(sp[1]))
            targets = list(range(w)) if sp[0] == "all" else [int(nm[1:]) for nm in sp[1]]
            k, kind = len(targets), case["kind"]
            items = [7000 + q for q in range(k)]

            def raising(at):
                for q, x in enumerate(items):
                    if q == at:
                        raise RuntimeError("value iterable failed")
                    yield x
                if at >= len(items):
                    raise RuntimeError("value iterable failed")
            if kind == "gen":
                value, want = (x for x in items), items
            elif kind == "map":
                value, want = map(lambda x: x, items), items
            elif kind == "iter":
                value, want = iter(items), items
            elif kind == "short":
                value, want = (x for x in items[:-1]), None
            elif kind == "long":
                value, want = (x for x in items + [1]), None
            elif kind == "raise":
                value, want = raising(case["at"]), None
            else:
                # the generator reads the row being written, one cell per item, as it is consumed
                sh = 1 if kind == "rot" else k - 1
                value = (t._underlying[targets[(q + sh) % k]]._underlying[i] for q in range(k))
                want = [100 * targets[(q + sh) % k] + (i % n) for q in range(k)]
            before = [[V.enc(x) for x in c._underlying] for c in t._underlying]
            exc = None
            try:
                t[key] = value
            except Exception as e:
                exc = _exc(e)
            after = [[V.enc(x) for x in c._underlying] for c in t._underlying]
            return {"before": before, "after": after, "exc": exc, "targets": targets, "want": want,
                    "dts": [V.schema_obs(c.schema()) for c in t._underlying]}
        if op == "rename2":
            t = Table([Vector([1, 2], name=nm) for nm in case["names"]])
            news = [V.dec(x) for x in case["news"]]
            exc = None
            try:
                t.rename_columns(list(case["olds"]), news)
            except Exception as e:
                exc = _exc(e)
            return {"after": [V.enc(c._name) for c in t._underlying], "exc": exc}
        if op == "rename":
            t = Table([Vector([1, 2], name=nm) for nm in case["names"]])
            exc = None
            try:
                t.rename_columns(case["olds"], case["news"])
            except Exception as e:
                exc = _exc(e)
            return {"after": t.column_names(), "exc": exc}
    except Exception as e:
        return {"setup": _exc(e)}
    return {"setup": {"exc": "OtherError", "msg": "unknown op"}}


# ------------------------------------------------------------------ Coq emitter

ERR = {"AliasError": "EAlias", "SerifTypeError": "EType", "SerifValueError": "EValue", "SerifIndexError": "EIndex",
       "SerifKeyError": "EKey", "OtherError": "EOther"}
NAMES = ["a", "b", "c", "d", "x", "z", "y", "q", "w", "zz", "v0", "v1", "v2", "m", "k"]


class Ids:
    def __init__(self):
        self.d = {}

    def i(self, tag):
        k = json.dumps(tag)
        if k not in self.d:
            self.d[k] = len(self.d)
        return self.d[k]

    def e(self, tag):
        if tag[0] == "N":
            return "None"
        if tag[0] == "?":
            return f"(Some (mkV (KOther 77) true, {cz(self.i(tag))}))"
        k, ex = V._TAG_KIND[tag[0]]
        return f"(Some (mkV {k} {cbool(ex)}, {cz(self.i(tag))}))"


def _nm(s):
    if s is None:
        return "None"
    return f"(Some {NAMES.index(s) if s in NAMES else 99})"


def _cdt(o):
    return "None" if o is None else f"(Some {V.coq_dtype(o)})"


def _oz(x):
    return "None" if x is None else f"(Some {cz(x)})"


def _lelt(e):
    if e[0] == "b":
        return f"LB {cbool(e[1])}"
    if e[0] == "i":
        return f"LI {cz(e[1])}"
    if e[0] in ("IE", "I2"):
        return f"LJ {cz(e[1])}"
    return "LX"


def coq_skey(K):
    t = K[0]
    if t == "int":
        return f"(SKInt {cz(K[1])})"
    if t == "bool":
        return f"(SKInt {cz(1 if K[1] else 0)})"
    if t == "slice":
        return f"(SKSlice {_oz(K[1])} {_oz(K[2])} {_oz(K[3])})"
    if t == "maskv":
        return f"(SKMaskV {clist(cbool(b) for b in K[1])})"
    if t in ("list", "tuple"):
        return f"(SKList {cbool(t == 'tuple')} {clist(_lelt(e) for e in K[1])})"
    if t == "idxv":
        return f"(SKIdxV {clist(cz(i) for i in K[1])})"
    if t == "emptyvec":
        return "SKUntypedV"
    return "SKBad"


SELF = {"list": "(Some (mkV KList true, (900)%Z))", "tuple": "(Some (mkV KTuple true, (901)%Z))"}


def coq_value(ids, VAL):
    form = VAL[0]
    if form == "scalar":
        return f"(VScalar {ids.e(VAL[1])})"
    self = SELF.get(form, "(Some (mkV (KOther 50) true, (902)%Z))")
    items = VAL[1]
    if form in ("list", "tuple", "vector"):
        return f"(VSeq {self} (Some {len(items)}) {clist(ids.e(t) for t in items)} false)"
    if form == "flaky":
        return f"(VSeq {self} (Some {VAL[3]}) {clist(ids.e(t) for t in items[:VAL[2]])} true)"
    return f"(VSeq {self} None {clist(ids.e(t) for t in items)} false)"


def _cstate(ids, st, memo):
    return (f"(mkS {clist(ids.e(t) for t in st['vals'])} {_cdt(st['dt'])} {_nm(st['name'])} {memo} "
            f"{cbool(st['shared'])})")


def _memo(ids, st, known):
    """the memo as 'the storage it was computed from': known = [(fp number, vals tags), ...]"""
    if st["fp"] is None:
        return "None"
    for num, vals in known:
        if num is not None and num == st["fp"]:
            return f"(Some {clist(ids.e(t) for t in vals)})"
    return "(Some [Some (mkV (KOther 99) true, (-7)%Z)])"          # a number that belongs to no known storage


def _ctbl(ids, conv):
    return clist(f"({k}, {cz(ids.i(t))}, {ids.e(r)})" for k, t, r in conv)


def _cerr(exc):
    return "None" if exc is None else f"(Some {ERR[exc['exc']]})"


def emit(case, obs):
    op = case["op"]
    if "skip" in obs:
        return "CSkip"
    if "setup" in obs:
        return "CBad"
    if op in ("trow", "rename2"):
        return "CSkip"                       # decided by the oracle alone
    ids = Ids()
    if op == "set":
        b, a = obs["before"], obs["after"]
        if case["key"][0] == "int" and case["value"][0] not in ("scalar", "list", "tuple"):
            return "CSkip"
        known = [(obs["fp0"], b["vals"]), (obs["fresh"] if a["fp"] is not None else None, a["vals"])]
        s0 = _cstate(ids, b, _memo(ids, b, [(obs["fp0"], b["vals"])]))
        s1 = _cstate(ids, a, _memo(ids, a, known))
        return (f"CSet {s0} {coq_skey(case['key'])} {coq_value(ids, case['value'])} {_ctbl(ids, obs['conv'])} "
                f"{_cerr(obs['exc'])} {s1}")
    if op == "tset":
        b, a = obs["before"], obs["after"]
        c0 = clist(_cstate(ids, s, "None") for s in b)
        # column fingerprints are not primed in table cases; a memo that appears is spelled as bogus
        c1 = clist(_cstate(ids, s, "None" if s["fp"] is None else _memo(ids, s, [])) for s in a)
        sp = case["colspec"]
        if sp[0] == "all":
            cs = "CSAll"
        elif sp[0] == "int":
            cs = f"(CSInt {cz(sp[1])})"
        elif sp[0] == "name":
            cs = f"(CSName {NAMES.index(sp[1])})"
        else:
            cs = f"(CSNames {clist(str(NAMES.index(s)) for s in sp[1])})"
        val = case["value"]
        if val[0] == "scalar":
            tv = f"(TVScalar {ids.e(val[1])})"
        elif val[0] == "flat":
            tv = f"(TVFlat (Some {len(val[2])}) {SELF[val[1]]} {clist(ids.e(t) for t in val[2])})"
        else:
            form = "list" if val[0] == "cols" else "vector"
            tv = f"(TVCols {cbool(val[0] == 'table')} {clist(coq_value(ids, [form, c]) for c in val[1])})"
        row_int = case["rowkey"][0] in ("int", "bool")
        return (f"CTSet {c0} {cbool(row_int)} {coq_skey(case['rowkey'])} {cs} {tv} {_ctbl(ids, obs['conv'])} "
                f"{_cerr(obs['exc'])} {c1}")
    if op == "rename":
        f = lambda l: clist(_nm(s) for s in l)
        return f"CRename {f(case['names'])} {f(case['olds'])} {f(case['news'])} {_cerr(obs['exc'])} {f(obs['after'])}"
    return "CBad"


# ------------------------------------------------------------------ independent oracle

def _positions(K, n):
    """positions the key addresses, in write order / 'err' / None (the property does not define this key)"""
    t = K[0]
    if t in ("int", "bool"):
        i = int(K[1])
        i = i + n if i < 0 else i
        return [i] if 0 <= i < n else "err"
    if t == "slice":
        if K[3] == 0:
            return "err"
        return list(range(*slice(K[1], K[2], K[3]).indices(n)))
    if t == "maskv" or (t == "list" and K[1] and all(e[0] == "b" for e in K[1])):
        m = K[1] if t == "maskv" else [e[1] for e in K[1]]
        return [i for i, f in enumerate(m) if f] if len(m) == n else "err"
    if t == "idxv" or (t in ("list", "tuple") and K[1] and all(e[0] == "i" for e in K[1])):
        idx = K[1] if t == "idxv" else [e[1] for e in K[1]]
        out = []
        for i in idx:
            i = i + n if i < 0 else i
            if not 0 <= i < n:
                return "err"
            out.append(i)
        return out
    return None


def _items(VAL, L, single):
    """the L values the assignment supplies / 'err' / None (no opinion)"""
    form = VAL[0]
    if form == "scalar":
        return [VAL[1]] * L
    if single:
        return None                      # v[i] = <sequence>: stores the object itself; not the property's subject
    items = VAL[1]
    if form in ("list", "tuple", "vector"):
        return list(items) if len(items) == L else "err"
    if form == "flaky":
        if VAL[3] != L or VAL[2] < L:
            return "err"
        return list(items[:L])
    return None                          # generators / failing __len__: only atomicity is required


def _same_value(old, new, promoted):
    if old == new:
        return True
    if not promoted or old[0] == "N" or new[0] == "N":
        return False
    if old[0] == "d" and new[0] in ("dt", "DT2"):
        return old[1] == new[1] and new[2] == 0          # date -> datetime at midnight
    try:
        return V.dec(old) == V.dec(new)
    except Exception:
        return False


def _expect_dtype(dt0, items):
    """(kind, nullable) the column must have after writing items / 'reject'"""
    kind, nullable = dt0
    for t in items:
        if t[0] == "N":
            nullable = True
            continue
        if kind == "KObject":
            continue
        j = V.join_kind(kind, V.tag_kind(t))
        if j == "KObject":
            return "reject"
        kind = j
    return [kind, nullable]


def _check_column(what, b, a, exc, K, VAL, fp_info=None, shared=False):
    """one vector assignment: b / a = state before / after, exc = the exception observation or None"""
    n = len(b["vals"])
    same = (a["vals"] == b["vals"] and a["dt"] == b["dt"] and a["name"] == b["name"])
    if exc is not None and not same:
        return (f"{what}-atomic: the assignment raised {exc['cls']} but the vector changed: "
                f"{b['vals']} {b['dt']} -> {a['vals']} {a['dt']}")
    if fp_info:
        fp0, fp1, fresh = fp_info
        if exc is not None and fp0 is not None and fp1 != fp0:
            return f"{what}-atomic-fp: the assignment raised {exc['cls']} but the fingerprint changed"
        if fresh is not None and fp1 != fresh:
            return f"{what}-fp-stale: fingerprint() after the assignment differs from a fresh vector of the same values"
    if len(a["vals"]) != n or a["name"] != b["name"]:
        return f"{what}-shape: length/name changed: {n} {b['name']!r} -> {len(a['vals'])} {a['name']!r}"
    pos = _positions(K, n)
    if pos is None or shared:
        return None
    if pos == "err":
        return None if exc is not None else f"{what}-badkey: an invalid key was accepted"
    items = _items(VAL, len(pos), K[0] in ("int", "bool"))
    if items is None:
        return None
    if items == "err":
        return None if exc is not None else f"{what}-badvalue: a value of the wrong length / a failing iterable was accepted"
    if b["dt"] is None:
        return None
    want = _expect_dtype(b["dt"], items) if items else b["dt"]
    if want == "reject":
        if exc is None:
            return f"{what}-accepts: an incompatible value was accepted into {b['dt']}: {items}"
        if exc["exc"] != "SerifTypeError":
            return f"{what}-rejectclass: incompatible value rejected with {exc['cls']}, SerifTypeError required"
        return None
    promoted = want[0] != b["dt"][0]
    if exc is not None:
        if promoted and any(t[0] == "i" and abs(t[1]) > 2 ** 1000 for t in b["vals"]):
            return None                  # the conversion of an existing element fails in Python itself
        return f"{what}-rejects: a valid assignment raised {exc['msg']}"
    exp = list(b["vals"])
    written = set()
    for p, x in zip(pos, items):
        exp[p] = x
        written.add(p)
    for p in range(n):
        if p in written:
            if a["vals"][p] != exp[p]:
                return f"{what}-contents: position {p} holds {a['vals'][p]}, list assignment gives {exp[p]}"
        else:
            if not _same_value(exp[p], a["vals"][p], promoted):
                return f"{what}-contents: untouched position {p} changed from {exp[p]} to {a['vals'][p]}"
            if promoted and a["vals"][p][0] != "N" and V.tag_kind(a["vals"][p]) != want[0]:
                return f"{what}-convert: existing element {a['vals'][p]} was not converted to {want[0]}"
    if a["dt"] != want:
        return f"{what}-dtype: dtype {b['dt']} became {a['dt']} after writing {items}, expected {want}"
    return None


def oracle(case, obs):
    op = case["op"]
    if "skip" in obs:
        return None
    if "setup" in obs:
        return f"{op}-setup-raises: {obs['setup']['msg']}"
    if op == "set":
        return _check_column("set", obs["before"], obs["after"], obs["exc"], case["key"], case["value"],
                             (obs["fp0"], obs["fp1"], obs["fresh"]), case["shared"])
    if op == "tset":
        b, a, exc = obs["before"], obs["after"], obs["exc"]
        if len(a) != len(b):
            return "tset-shape: number of columns changed"
        names = [c["name"] for c in case["cols"]]
        sp = case["colspec"]
        if sp[0] == "all":
            targets = list(range(len(b)))
        elif sp[0] == "int":
            targets = [sp[1]] if sp[1] < len(b) else "err"
        elif sp[0] == "name":
            targets = [names.index(sp[1])] if sp[1] in names else "err"
        else:
            targets = [names.index(s) for s in sp[1]] if all(s in names for s in sp[1]) else "err"
        for j, (cb, ca) in enumerate(zip(b, a)):
            if len(ca["vals"]) != len(cb["vals"]) or ca["name"] != cb["name"]:
                return f"tset-shape: column {j} changed length or name"
            if (targets == "err" or j not in targets) and (ca["vals"] != cb["vals"] or ca["dt"] != cb["dt"]):
                return f"tset-addressed: column {j} is not addressed but changed {cb['vals']} -> {ca['vals']}"
        if targets == "err":
            return None if exc is not None else "tset-badcol: a column that does not exist was accepted"
        if not targets or len(set(targets)) < len(targets):
            return None
        val, K = case["value"], case["rowkey"]
        row_int = K[0] in ("int", "bool")
        # the per-column value each addressed column receives
        if val[0] == "scalar":
            per = [["scalar", val[1]]] * len(targets)
        elif val[0] == "flat" and (row_int or len(targets) > 1):
            if len(val[2]) != len(targets):
                return None if exc is not None else "tset-badvalue: wrong number of items accepted"
            per = [["scalar", x] for x in val[2]]
        elif val[0] == "flat":
            per = [["list", val[2]]]
        elif row_int:
            return None
        else:
            if len(val[1]) != len(targets):
                return None if exc is not None else "tset-badvalue: wrong number of columns accepted"
            per = [["list", c] for c in val[1]]
        failed = False
        for j, v in zip(targets, per):
            # each column write is atomic: the column is either fully assigned or untouched
            ok_why = _check_column(f"tset-col{j}", b[j], a[j], None, K, v)
            unchanged = (a[j]["vals"] == b[j]["vals"] and a[j]["dt"] == b[j]["dt"])
            if exc is None:
                if ok_why:
                    return ok_why
            else:
                if not unchanged and ok_why:
                    return f"tset-col-atomic: column {j} is neither untouched nor fully assigned ({ok_why})"
        return None
    if op == "trow":
        b, a, exc, want = obs["before"], obs["after"], obs["exc"], obs["want"]
        i = case["row"] % case["n"]
        if want is None:
            if exc is None:
                return f"trow-accepts: a row value of the wrong length, or one that raises while consumed ({case['kind']}), was accepted"
            if a != b:
                return (f"trow-atomic: the row assignment raised {exc['cls']} while its value was consumed / counted, but the "
                        f"table changed: {b} -> {a}")
            return None
        if exc is not None:
            return f"trow-rejects: a one-shot iterable of the right length was refused: {exc['msg']}"
        exp = [list(c) for c in b]
        for q, x in zip(obs["targets"], want):
            exp[q][i] = ["i", x]
        if a != exp:
            return (f"trow-cells: t[{case['row']}, {case['colspec']}] = <{case['kind']}> over columns {b}: list assignment "
                    f"consumes the value first and gives {exp}, the table holds {a}")
        return None
    if op == "rename2":
        names, exc = [["s", x] for x in case["names"]], obs["exc"]
        sim = list(names)
        for o, nw in zip(case["olds"], case["news"]):
            if ["s", o] in sim:
                sim[sim.index(["s", o])] = nw
            else:
                sim = None
                break
        if exc is not None or sim is None:
            if obs["after"] != names:
                return (f"rename-atomic: rename_columns({case['olds']}, {case['news']}) "
                        f"{'raised ' + exc['cls'] if exc else 'names a missing column'} but names changed {names} -> {obs['after']}")
            return None
        if obs["after"] != sim:
            return f"rename-result: rename_columns({case['olds']}, {case['news']}) on {names} gave {obs['after']}, expected {sim}"
        return None
    if op == "rename":
        names, exc = list(case["names"]), obs["exc"]
        if len(case["olds"]) != len(case["news"]):
            ok = False
        else:
            sim, ok = list(names), True
            for o, nw in zip(case["olds"], case["news"]):
                if o in sim:
                    sim[sim.index(o)] = nw
                else:
                    ok = False
                    break
        if not ok:
            if exc is None:
                return "rename-accepts: a rename naming a missing column (or of unequal lengths) was accepted"
            if obs["after"] != names:
                return f"rename-atomic: rename_columns raised {exc['cls']} but names changed {names} -> {obs['after']}"
            return None
        if exc is not None:
            return f"rename-rejects: a valid rename raised {exc['msg']}"
        if obs["after"] != sim:
            return f"rename: names {obs['after']}, sequential renaming gives {sim}"
        return None
    return None


def nontrivial(case, obs):
    op = case["op"]
    if "skip" in obs or "setup" in obs:
        return False
    if op == "set":
        b, a, exc = obs["before"], obs["after"], obs["exc"]
        if exc is None:
            return a["dt"] != b["dt"]
        V_ = case["value"]
        if V_[0] == "flaky":
            return V_[2] >= 1
        pos = _positions(case["key"], len(b["vals"]))
        if V_[0] in ("list", "tuple", "vector") and len(V_[1]) >= 2:
            # a later item is the bad one
            return exc["exc"] in ("SerifTypeError", "SerifIndexError") or pos == "err"
        return pos == "err" and case["key"][0] in ("list", "tuple", "idxv") and len(case["key"][1]) >= 2
    if op == "tset":
        return case["colspec"][0] in ("all", "names")
    if op == "rename":
        return len(case["olds"]) >= 2 or len(set(n for n in case["names"])) < len(case["names"])
    if op == "trow":
        return case["kind"] not in ("gen", "map", "iter") and len(obs.get("targets", [])) >= 2
    if op == "rename2":
        return len(case["olds"]) >= 2
    return True


def describe(case, obs, stream):
    op = case["op"]
    if "skip" in obs or "setup" in obs:
        return [f"{stream}:skipped"]
    exc = obs.get("exc")
    tag = "ok" if exc is None else exc["exc"]
    if op == "set":
        return [f"{stream}:{case['key'][0]}<-{case['value'][0]}:{tag}"]
    if op == "tset":
        return [f"tset:{case['rowkey'][0]},{case['colspec'][0]}<-{case['value'][0]}:{tag}"]
    if op == "trow":
        return [f"trow:{case['kind']}:{tag}"]
    return [f"{op}:{tag}"]


def shrink(case):
    if case["op"] != "set":
        return
    n = len(case["vals"])
    K, VAL = case["key"], case["value"]
    if case.get("prime"):
        yield dict(case, prime=False)
    if K[0] == "slice" and K[1:] == [None, None, None] and n > 1 and VAL[0] in ("list", "tuple", "vector") \
            and len(VAL[1]) == n:
        for j in range(n):
            yield dict(case, vals=case["vals"][:j] + case["vals"][j + 1:], value=[VAL[0], VAL[1][:j] + VAL[1][j + 1:]])


def neighbours(case, rng):
    return []
