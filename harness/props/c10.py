"""C10 — left and full outer joins keep every row and pad with None.

Streams
  random     table pairs as for C09 through join (left) and full_join, each also mirrored (L <-> R)
  small      <= 3 rows
  unmatched  every case has unmatched rows on both sides, unmatched keys duplicated, the first
             left row unmatched in half of them
  emptyside  one or both sides have zero rows
  strkeys    string keys only (hash-seed sensitive)
  refused    key specifications the library refuses: observed only as "an error"
For every case the observer also calls inner_join, join, full_join and the mirrored full_join with
expect='many_to_many' on the same inputs; the oracle checks on those outputs that every row is kept,
inner is contained in left is contained in full (as subsequences), and full_join(L,R) equals
full_join(R,L) up to column and row order.
"""
import json

from harness.props import _joins as J

PID = "C10"
TRANSLATE = ["EqJoinIndex.v"]    # translator tie: the right-side hash index loops regenerated from /repo (coq/gen_proofs/EqJoinIndex.v)
PRELUDE = J.PRELUDE_FMT % PID
FAILING = "C10.failing"
SHARD = 300
HASHSEEDS = {"quick": ["0"], "thorough": ["0", "1", "12345"]}
HASH_INDEPENDENT_STREAMS = ("refused", "emptyside")
ASSUMED = J.ASSUMED
RULE = ("table pairs as for C09 (0-8 rows, 0-3 payload columns, 1-3 key columns, heavy duplication, keys by name "
        "or Vector) through join and full_join and mirrored; a stream that forces unmatched (and duplicated "
        "unmatched) keys on both sides and first-row-unmatched; a stream of empty sides. Distinct = canonical "
        "JSON; non-trivial = at least one unmatched row on EACH side.")
EXHAUSTIVE = {"quick": False, "thorough": False}
DESIGN_REF = "DESIGN.md section 4, C09 / C10 / C11"
LEVEL_TEXT = ("theorems (all tables / all key functions): join and full_join hold exactly left_pairs / full_pairs with "
              "None padding; every left row is kept by the left join, every row of both tables by the full join, no "
              "row pair twice; inner is a sublist of left is a sublist of full; full_join(L,R) is a permutation of "
              "the swapped full_join(R,L)")
LEVEL_NOTE = ("Trusted: Coq 8.16.1 kernel and vm_compute; the hand-written model Model/Join.v (tied to table.py by the "
              "correspondence check on the generated table pairs only); the dict/set-as-list assumption; the harness. "
              "The relational consequences are also checked directly on the implementation's outputs by the oracle.")

AUX = (("inner", "inner", "many_to_many", False), ("left", "left", "many_to_many", False),
       ("full", "full", "many_to_many", False), ("fullswap", "full", "many_to_many", True))


def mirror(c):
    return dict(c, L=c["R"], R=c["L"], lon=c["ron"], ron=c["lon"])


def _force_unmatched(rng, c):
    """give both sides rows whose first key component occurs on that side only, twice if there is room"""
    def sentinel(tag, side):
        k = tag[0] if tag[0] != "N" else "i"
        return {"i": ["i", 70 + side], "b": None, "s": ["s", "zz" + str(side)], "d": ["d", 700000 + side]}.get(k)

    def patch(cols, on, side, rows):
        s = on[0]
        vals = s[1] if s[0] == "v" else next(v for nm, v in cols if nm == s[1])
        if not vals:
            return
        base = next((t for t in vals if t[0] != "N"), ["i", 1])
        sv = sentinel(base, side)
        if sv is None:
            return
        for r in rows:
            if r < len(vals):
                vals[r] = sv
    first = rng.random() < 0.5
    n = len(c["L"][0][1]) if c["L"] else 0
    m = len(c["R"][0][1]) if c["R"] else 0
    if n:
        patch(c["L"], c["lon"], 1, ([0] if first else [n - 1]) + ([rng.randrange(n)] if rng.random() < 0.6 else []))
    if m:
        patch(c["R"], c["ron"], 2, [rng.randrange(m)] + ([rng.randrange(m)] if rng.random() < 0.6 else []))


def _valid(c):
    """the forced sentinels must not break dtype compatibility (bool columns are left alone)"""
    try:
        lk, rk = J._resolve(c["L"], c["lon"]), J._resolve(c["R"], c["ron"])
    except Exception:                                        # noqa: BLE001
        return False
    return lk is not None and rk is not None


def streams(rng, tier):
    nrand, nsmall, nun, nem, nstr, nref = (500, 350, 450, 150, 200, 80) if tier == "quick" else (3000, 1500, 3000, 400, 1500, 250)
    out = []

    def with_mirror(cs):
        res = []
        for c in cs:
            res.append(c)
            if c["how"] == "full" or len(res) % 3 == 0:
                res.append(mirror(c))
        # mostly many_to_many; sometimes another expectation that the generated keys satisfy (a join
        # whose expectation holds must return the many_to_many rows: unique-side fast paths live here)
        out2 = []
        for c in res:
            if rng.random() < 0.3:
                try:
                    ok = [e for e in J.EXPECTS + [None] if J.must_raise(c, c["how"], e) is None]
                except Exception:                            # noqa: BLE001
                    ok = []
                if ok:
                    c = dict(c, expect=rng.choice(ok))
            out2.append(c)
        return out2
    out.append(("random", with_mirror([J.gen_pair(rng, how=rng.choice(["left", "full"])) for _ in range(nrand)])))
    # unique keys on both sides, every right key among the left keys, left rows before AND after the last match - under every
    # expectation the keys meet (one_to_one included): the rows are those of many_to_many, the unmatched left rows all kept
    strict = []
    for _ in range(120 if tier == "quick" else 1200):
        m = rng.randint(2, 6)
        lk = rng.sample(range(10, 10 + 2 * m), m)
        rk = rng.sample(lk, rng.randint(1, m - 1))
        if rng.random() < 0.3:
            rk = rk + [99]                                   # one right row without a partner (full join appends it)
        c = {"how": rng.choice(["left", "left", "full"]), "expect": rng.choice(["one_to_one", "one_to_one", "many_to_one", "one_to_many", None]),
             "L": [["k0", [["i", x] for x in lk]], ["a0", [["s", f"L{j}"] for j in range(m)]]],
             "R": [["k0" if rng.random() < 0.5 else "r0", [["i", x] for x in rk]], ["b0", [["s", f"R{j}"] for j in range(len(rk))]]],
             "single": rng.random() < 0.5}
        c["lon"], c["ron"] = [["n", "k0"]], [["n", c["R"][0][0]]]
        strict.append(c)
        # a LONG right side (9 .. 14 rows) of which several rows, anywhere, have no partner: a full join appends them in the
        # order they have in the right table
        nr = rng.randint(9, 14)
        rk2 = rng.sample(range(100, 100 + 3 * nr), nr)
        keep = sorted(rng.sample(range(nr), rng.randint(2, nr - 2)))                  # these right rows have partners
        lk2 = [rk2[i] for i in rng.sample(keep, len(keep))] + ([7] if rng.random() < 0.5 else [])
        c2 = {"how": "full", "expect": rng.choice([None, "many_to_many", "one_to_one", "many_to_one"]),
              "L": [["k0", [["i", x] for x in lk2]], ["a0", [["s", f"L{j}"] for j in range(len(lk2))]]],
              "R": [["r0", [["i", x] for x in rk2]], ["b0", [["s", f"R{j}"] for j in range(nr)]]],
              "lon": [["n", "k0"]], "ron": [["n", "r0"]], "single": rng.random() < 0.5}
        strict.append(c2)
    out.append(("strict", strict))
    out.append(("small", with_mirror([J.gen_pair(rng, maxrows=3, how=rng.choice(["left", "full"])) for _ in range(nsmall)])))
    un = []
    for _ in range(nun):
        c = J.gen_pair(rng, how=rng.choice(["left", "full"]), min_rows=2,
                       force_sort=rng.choice(["int", "str", "date", "int", "mixed"]))
        c = json.loads(json.dumps(c))                        # key columns may be shared lists: unshare
        _force_unmatched(rng, c)
        if _valid(c):
            un.append(c)
    out.append(("unmatched", with_mirror(un)))
    em = []
    for _ in range(nem):
        c = J.gen_pair(rng, how=rng.choice(["left", "full"]), maxrows=4)
        side = rng.choice(["L", "R", "LR"])
        c = json.loads(json.dumps(c))
        for s, onk in (("L", "lon"), ("R", "ron")):
            if s in side:
                c[s] = [[nm, []] for nm, _ in c[s]] if rng.random() < 0.8 else []
                c[onk] = [x if (x[0] == "n" and c[s]) else ["v", []] for x in c[onk]]
        em.append(c)
    out.append(("emptyside", with_mirror(em)))
    out.append(("strkeys", with_mirror([J.gen_pair(rng, how=rng.choice(["left", "full"]), force_sort="str", min_rows=2)
                                        for _ in range(nstr)])))
    out.append(("refused", [J.gen_refused(rng, how=rng.choice(["left", "full"])) for _ in range(nref)]))
    return out


def observe(case):
    return J.observe_join(case, aux=AUX)


def emit(case, obs):
    return J.emit_join(case, obs)


def _subseq(a, b):
    it = iter(b)
    return all(any(x == y for y in it) for x in a)


def _canon(rows):
    return sorted(json.dumps(r) for r in rows)


def oracle(case, obs):
    if "broken" in obs:
        return "observer: " + obs["broken"]
    why = J.judge_call(case, obs, obs["res"], case["how"], case["expect"])
    if why:
        return why
    why = J.inputs_unchanged(obs)
    if why or not J.in_domain(case, obs):
        return why
    aux = obs["aux"]
    for label in ("inner", "left", "full", "fullswap"):
        if "exc" in aux[label]:
            return f"raises: {label} with expect='many_to_many': {aux[label]['msg']}"
    nL, nR = len(case["L"]), len(case["R"])
    lrows = [[vals[i] for _, vals in case["L"]] for i in range(len(case["L"][0][1]) if case["L"] else 0)]
    rrows = [[vals[j] for _, vals in case["R"]] for j in range(len(case["R"][0][1]) if case["R"] else 0)]
    inner, left, full, sw = (J.res_rows(aux[k]) for k in ("inner", "left", "full", "fullswap"))
    # every left row appears in the left join; every row of both tables in the full join
    if lrows and nL:
        have = [r[:nL] for r in left]
        miss = [i for i, r in enumerate(lrows) if r not in have]
        if miss:
            return f"left-row-lost: left rows {miss} do not appear in the left join"
        have = [r[:nL] for r in full]
        miss = [i for i, r in enumerate(lrows) if r not in have]
        if miss:
            return f"full-row-lost: left rows {miss} do not appear in the full join"
    if rrows and nR:
        have = [r[nL:] for r in full]
        miss = [j for j, r in enumerate(rrows) if r not in have]
        if miss:
            return f"full-row-lost: right rows {miss} do not appear in the full join"
    # unmatched rows are padded with None on the other side
    for r in left:
        if len(r) != nL + nR:
            return f"padding: a left-join row has {len(r)} cells, expected {nL + nR}"
    # containment, order preserved
    if not _subseq(inner, left):
        return "containment: the inner join's rows are not a subsequence of the left join's"
    if not _subseq(left, full):
        return "containment: the left join's rows are not a subsequence of the full join's"
    # symmetry up to column and row order
    if _canon(full) != _canon([r[nR:] + r[:nR] for r in sw]):
        return "symmetry: full_join(L, R) and full_join(R, L) differ as multisets of rows"
    for label, how, swap in (("inner", "inner", False), ("left", "left", False), ("full", "full", False),
                             ("fullswap", "full", True)):
        w = J.judge_rows(case, aux[label], how, swap, label + "-")
        if w:
            return w
    return None


def nontrivial(case, obs):
    if "broken" in obs or not J.in_domain(case, obs):
        return False
    return J.unmatched_each_side(case)


def describe(case, obs, stream):
    out = J.shape_labels(case, obs, stream)
    if "broken" not in obs and J.in_domain(case, obs):
        lk, rk = J.key_tuples(case)
        if lk and rk and all(lk[0] != b for b in rk):
            out.append("first-left-row-unmatched")
        un = [b for b in rk if all(a != b for a in lk)]
        if any(un.count(b) >= 2 for b in un):
            out.append("duplicated-unmatched-right-key")
    return out


def shrink(case):
    return J.shrink_join(case)


def neighbours(case, rng):
    out = list(J.shrink_join(case)) + [mirror(case)]
    for _ in range(30):
        out.append(J.gen_pair(rng, how=case["how"]))
    return out[:120]
