"""Shared machinery of C09 / C10 / C11 (inner_join, join, full_join).

A case is a JSON dict
  {"how": "inner"|"left"|"full", "expect": str|None (None = the function's default),
   "L": [[name|None, [tags]], ...], "R": [...],          # table columns, in order
   "lon": [["n", name] | ["v", [tags]], ...], "ron": [...],   # key specs: by name / external Vector
   "single": bool}                                          # hand a lone spec over unwrapped
Values are tags of harness/values.py.  The observer builds the two tables, records their state,
computes with Python's own == the equivalence classes ("ranks") of all values that occur, calls
the join, and records the result (names, cells, schemas) or the error class, and the state of the
inputs afterwards.  The oracle restates the property with nested loops in plain Python.
"""
import json

from harness import values as V
from harness.core import clist, copt, cstr, err_name

HOW = {"inner": ("inner_join", "HInner", "many_to_one"),
       "left": ("join", "HLeft", "many_to_one"),
       "full": ("full_join", "HFull", "many_to_many")}
EXPECTS = ["one_to_one", "many_to_one", "one_to_many", "many_to_many"]
ALLOWED_KEY_KINDS = {"KInt", "KStr", "KBool", "KDate", "KDateTime", "KObject"}

PRELUDE_FMT = ("From Coq Require Import List String.\nImport ListNotations.\n"
               "From Serif Require Import Base.PyVal Spec.Join Model.Join Corr.JoinCase Corr.%s.\n"
               "Open Scope string_scope.")

ASSUMED = [
    "the dict right_index / the sets left_keys_seen and matched_right_rows behave as insertion-ordered "
    "association lists / lists looked up with ==: CPython's behaviour for keys whose __hash__ agrees with "
    "__eq__ (exercised under several PYTHONHASHSEED values with string keys)",
    "key values are hashable and == on them is an equivalence (no NaN keys); _validate_key_tuple_hashable "
    "is therefore not modelled",
    "a key column given by name is matched exactly by Table.__getitem__ (the case-insensitive / sanitised "
    "fallback is C17's subject); column schemas are inputs of the model (observed), result schemas are "
    "checked by the oracle against inference over the result's own values, not modelled",
    "probe loops and buffer appends are modelled as two passes (pairs, then cells); the buffers are local "
    "to the call and discarded on error",
]


def tkey(t):
    return json.dumps(t, sort_keys=True)


# ------------------------------------------------------------------ generators

INT_POOL = [["i", 1], ["i", 2], ["i", 3], ["i", 0], ["b", True], ["b", False], ["i", -1]]
STR_POOL = [["s", "a"], ["s", "b"], ["s", "ab"], ["s", ""], ["s", "A"]]
BOOL_POOL = [["b", True], ["b", False]]
DATE_POOL = [["d", 738000], ["d", 738001], ["d", 738400]]
MIXED_POOL = [["i", 1], ["s", "a"], ["b", True], ["s", "1"], ["i", 2], ["d", 738000]]
# unequal keys with equal hash() (hash(-1) == hash(-2), hash(2**61-1) == hash(0)): an index, a seen-set or a
# memo that stands in for key tuples by their hash (or by a fingerprint built on it) confuses them
HASH_POOL = [["i", -1], ["i", -2], ["i", 0], ["i", 2 ** 61 - 1], ["i", 5]]
POOLS = {"int": INT_POOL, "str": STR_POOL, "bool": BOOL_POOL, "date": DATE_POOL, "mixed": MIXED_POOL,
         "hash": HASH_POOL}
SENTINEL = {"int": ["i", 77], "str": ["s", "zz"], "date": ["d", 700000], "mixed": ["s", "zz"], "hash": ["i", 77]}


def _payload_col(rng, side, j, n):
    """mostly row-unique cells so that any mix-up of rows or sides is visible"""
    style = rng.choice(["int", "str", "mix", "float", "date", "const"])
    out = []
    for r in range(n):
        if rng.random() < 0.15:
            out.append(["N"])
        elif style == "int":
            out.append(["i", (100 if side == "L" else 200) + 10 * j + r])
        elif style == "str":
            out.append(["s", f"{side}{j}r{r}"])
        elif style == "float":
            out.append(["f", float((1 if side == "L" else -1) * (r + 0.5 + j)).hex()])
        elif style == "date":
            out.append(["d", 730000 + (0 if side == "L" else 500) + 10 * j + r])
        elif style == "const":
            out.append(["b", True])
        else:
            out.append(rng.choice([["i", r], ["s", f"{side}m{r}"], ["b", r % 2 == 0], ["f", (r + 0.25).hex()]]))
    return out


def _key_kinds_ok(lt, rt):
    """generator-side filter: would the library accept these two key columns together?"""
    if not lt or not rt:
        return True
    a, b = V.infer_closed(lt)[0], V.infer_closed(rt)[0]
    return a == b and a in ALLOWED_KEY_KINDS


def gen_pair(rng, maxrows=8, how=None, force_sort=None, min_rows=0):
    """one random table pair with a valid, dtype-compatible key specification"""
    for _attempt in range(40):
        nl = 0 if (min_rows == 0 and rng.random() < 0.06) else rng.randint(max(1, min_rows), maxrows)
        nr = 0 if (min_rows == 0 and rng.random() < 0.06) else rng.randint(max(1, min_rows), maxrows)
        nk = rng.choice([1, 1, 2, 2, 3])
        lkeys, rkeys, ok = [], [], True
        for q in range(nk):
            sort = force_sort or rng.choice(["int", "int", "str", "str", "bool", "date", "mixed", "hash", "hash"])
            pool = POOLS[sort]
            shared = rng.sample(pool, rng.randint(1, min(3, len(pool))))
            lonly = [x for x in rng.sample(pool, 1) if rng.random() < 0.4]
            ronly = [x for x in rng.sample(pool, 1) if rng.random() < 0.4]
            pn = rng.choice([0.0, 0.1, 0.25])
            lt = [["N"] if rng.random() < pn else rng.choice(shared + lonly) for _ in range(nl)]
            rt = [["N"] if rng.random() < pn else rng.choice(shared + ronly) for _ in range(nr)]
            if q == 0 and nl and nr and sort in SENTINEL and rng.random() < 0.25:
                lt[0] = SENTINEL[sort]                      # first left row matches nothing
            if q == 0 and nl and nr and sort in SENTINEL and rng.random() < 0.15:
                rt[0] = ["s", "yy"] if sort in ("str", "mixed") else (["i", 88] if sort in ("int", "hash") else ["d", 700001])
            if not _key_kinds_ok(lt, rt):
                ok = False
                break
            lkeys.append(lt)
            rkeys.append(rt)
        if not ok:
            continue
        L, R, lon, ron = [], [], [], []
        same_names = rng.random() < 0.4
        for q in range(nk):
            if rng.random() < 0.75:
                L.append([f"k{q}", lkeys[q]])
                lon.append(["n", f"k{q}"])
            else:
                lon.append(["v", lkeys[q]])
            if rng.random() < 0.75:
                nm = f"k{q}" if same_names else f"r{q}"
                R.append([nm, rkeys[q]])
                ron.append(["n", nm])
            else:
                ron.append(["v", rkeys[q]])
        for j in range(rng.randint(0, 3)):
            L.append([rng.choice([f"a{j}", f"a{j}", f"x{j}", None]), _payload_col(rng, "L", j, nl)])
        for j in range(rng.randint(0, 3)):
            R.append([rng.choice([f"b{j}", f"b{j}", f"x{j}", None]), _payload_col(rng, "R", j, nr)])
        if not L and nl:
            L.append(["a9", _payload_col(rng, "L", 9, nl)])
        if not R and nr:
            R.append(["b9", _payload_col(rng, "R", 9, nr)])
        rng.shuffle(L)
        rng.shuffle(R)
        if rng.random() < 0.15:
            # a LOOK-ALIKE column in front of a key column that is given by name: same letters in another case
            # ("K0" before "k0"), other values.  A key given by name is the column with exactly that name.
            for side, on in ((L, lon), (R, ron)):
                named = [s_[1] for s_ in on if s_[0] == "n"]
                if named and side:
                    nm = rng.choice(named)
                    n_rows = len(side[0][1])
                    decoy = [["s", f"decoy{r}"] if rng.random() < 0.8 else ["N"] for r in range(n_rows)]
                    pos = next(i for i, (cn, _) in enumerate(side) if cn == nm)
                    side.insert(pos, [nm.upper(), decoy])
        if rng.random() < 0.15:
            # a column with the SAME name as a key column given by name, further right, with other values (what a table that is
            # itself the result of a join on equally named keys looks like): t[name] - and a key given by name - is the FIRST
            for side, on in ((L, lon), (R, ron)):
                named = [s_[1] for s_ in on if s_[0] == "n"]
                if named and side:
                    nm = rng.choice(named)
                    n_rows = len(side[0][1])
                    pos = next(i for i, (cn, _) in enumerate(side) if cn == nm)
                    twin = [["N"] if rng.random() < 0.4 else rng.choice(side[pos][1]) for r in range(n_rows)]
                    side.insert(rng.randint(pos + 1, len(side)), [nm, twin])
        if rng.random() < 0.3:                              # pair the key columns in another order
            perm = list(range(nk))
            rng.shuffle(perm)
            lon, ron = [lon[i] for i in perm], [ron[i] for i in perm]
        case = {"how": how or rng.choice(["inner", "left", "full"]), "expect": "many_to_many",
                "L": L, "R": R, "lon": lon, "ron": ron, "single": nk == 1 and rng.random() < 0.5}
        if rng.random() < 0.2 and all(s_[0] == "n" for s_ in lon + ron):
            case["lived"] = rng.randrange(1 << 30)           # see observe_join: both tables have a past
        if rng.random() < 0.2 and not case["single"]:
            case["reuse_keys"] = True                        # see observe_join: the key lists were used before
        if rng.random() < 0.25:
            # the observed call is preceded by other joins of the SAME two table objects (results discarded):
            # joins are functions of the tables' contents, whatever was joined, with whatever expectation, before
            case["warm"] = [[rng.choice(["inner", "left", "full"]), rng.choice(["many_to_many", "many_to_many",
                                                                                "one_to_many", "many_to_one"])]
                            for _ in range(rng.choice([1, 1, 2]))]
        return case
    return {"how": how or "inner", "expect": "many_to_many", "L": [["k0", [["i", 1]]]], "R": [["k0", [["i", 1]]]],
            "lon": [["n", "k0"]], "ron": [["n", "k0"]], "single": True}


def dedupe_side(case, side):
    """drop the rows of one side whose key tuple == an earlier row's: that side's keys become unique"""
    keys = key_tuples(case)[0 if side == "L" else 1]
    keep = [i for i, k in enumerate(keys) if not any(keys[j] == k for j in range(i))]
    onk = "lon" if side == "L" else "ron"
    c = dict(case)
    c[side] = [[nm, [vals[i] for i in keep]] for nm, vals in case[side]]
    c[onk] = [s if s[0] == "n" else ["v", [s[1][i] for i in keep]] for s in case[onk]]
    return c


def gen_refused(rng, how=None):
    """key specifications the library must refuse (observed only as 'an error')"""
    c = gen_pair(rng, maxrows=4, how=how, min_rows=1)
    kind = rng.choice(["kinds", "kinds", "float", "allnone", "missing", "lens", "empty", "veclen", "bytes"])
    n = len(c["L"][0][1]) if c["L"] else 0
    m = len(c["R"][0][1]) if c["R"] else 0
    if kind == "kinds":
        a, b = rng.sample([["i", 1], ["s", "a"], ["b", True], ["d", 738000]], 2)
        c["L"].append(["kk", [a] * n])
        c["R"].append(["kk", [b] * m])
        c["lon"], c["ron"] = c["lon"] + [["n", "kk"]], c["ron"] + [["n", "kk"]]
    elif kind == "float":
        c["L"].append(["kk", [["f", (1.0).hex()]] * n])
        c["R"].append(["kk", [["f", (1.0).hex()]] * m])
        c["lon"], c["ron"] = [["n", "kk"]] + c["lon"], [["n", "kk"]] + c["ron"]
    elif kind == "bytes":
        c["L"].append(["kk", [["y", "61"]] * n])
        c["R"].append(["kk", [["y", "61"]] * m])
        c["lon"], c["ron"] = [["n", "kk"]], [["n", "kk"]]
    elif kind == "allnone":
        c["L"].append(["kk", [["N"]] * n])
        c["R"].append(["kk", [["i", 1]] * m])
        c["lon"], c["ron"] = [["n", "kk"]], [["n", "kk"]]
    elif kind == "missing":
        if rng.random() < 0.5:
            c["lon"] = c["lon"][:-1] + [["n", "nosuch"]]
        else:
            c["ron"] = c["ron"][:-1] + [["n", "nosuch"]]
    elif kind == "lens":
        c["lon"] = c["lon"] + [c["lon"][0]]
    elif kind == "empty":
        c["lon"], c["ron"] = [], []
    else:
        c["lon"] = c["lon"][:-1] + [["v", [["i", 1]] * (n + 1)]]
        c["ron"] = c["ron"][:-1] + [["v", [["i", 1]] * m]]
    c["single"] = False
    return c


# ------------------------------------------------------------------ implementation side

def _mk_table(cols):
    from serif import Table, Vector
    if not cols:
        return Table(())
    return Table([Vector([V.dec(t) for t in vals], name=nm) for nm, vals in cols])


def _mk_lived_table(cols, seed, warm):
    """the same table, but one that was joined before while it held its rows in another order and was then
    rewritten in place (values.lived_in_table)"""
    from serif import Table, Vector
    if not cols:
        return Table(()), False
    names = [nm for nm, _ in cols]
    return V.lived_in_table(lambda cs: Table([Vector(list(c), name=nm) for nm, c in zip(names, cs)]),
                            [[V.dec(t) for t in vals] for _, vals in cols], seed, warm)


def _kind_tok(vec):
    s = V.schema_obs(vec.schema())
    return None if s is None else s[0]


def table_state(t):
    return {"names": list(t.column_names()),
            "cols": [[V.enc(x) for x in c._underlying] for c in t._underlying],
            "schema": [V.schema_obs(c.schema()) for c in t._underlying],
            "len": len(t)}


def result_obs(thunk):
    try:
        r = thunk()
    except Exception as e:                                   # noqa: BLE001 - observe must never raise
        return {"exc": err_name(e), "msg": f"{type(e).__name__}: {e}"[:200]}
    return table_state(r)


def _specs(on, single):
    from serif import Vector
    out, vecs = [], []
    for s in on:
        if s[0] == "n":
            out.append(s[1])
        else:
            vec = Vector([V.dec(t) for t in s[1]])
            vecs.append(vec)
            out.append(vec)
    if single and len(out) == 1:
        return out[0], vecs
    return out, vecs


def ranks_of(case):
    """equivalence classes of all non-None values of the case under Python's own =="""
    tags = {}
    for cols in (case["L"], case["R"]):
        for _, vals in cols:
            for t in vals:
                tags.setdefault(tkey(t), t)
    for on in (case["lon"], case["ron"]):
        for s in on:
            if s[0] == "v":
                for t in s[1]:
                    tags.setdefault(tkey(t), t)
    reps, rank = [], {}
    for k in sorted(tags):
        t = tags[k]
        if t[0] == "N":
            continue
        x = V.dec(t)
        for r, y in enumerate(reps):
            if x == y and y == x:
                rank[k] = r
                break
        else:
            rank[k] = len(reps)
            reps.append(x)
    return rank


def call_join(case, L, R, how=None, expect="__case__", swap=False, keys=None):
    how = how or case["how"]
    if keys is not None:
        (lon, lv), (ron, rv) = keys                          # the very key-spec objects of an earlier call
    else:
        lon, lv = _specs(case["lon"], case.get("single"))
        ron, rv = _specs(case["ron"], case.get("single"))
    if swap:
        L, R, lon, ron = R, L, ron, lon
    e = case["expect"] if expect == "__case__" else expect
    fn = getattr(L, HOW[how][0])
    if e is None:
        th = lambda: fn(R, lon, ron)                         # noqa: E731
    else:
        e = V.dec(e) if isinstance(e, list) else e
        th = lambda: fn(R, lon, ron, expect=e)               # noqa: E731
    th.keys = ((lon, lv), (ron, rv)) if not swap else ((ron, rv), (lon, lv))
    return th, lv, rv


def observe_join(case, aux=()):
    """aux: iterable of (label, how, expect, swap) further calls on the same inputs"""
    try:
        lived_ok = None
        if case.get("lived") is not None:
            # both tables have a past: each was joined (against the other side's fresh twin, with its own key
            # specification) while it held its rows in another order, and was then rewritten in place
            def warm_with(other_cols, as_left):
                def warm(t):
                    o = _mk_table(other_cols)
                    for how in ("inner", "left", "full"):
                        for exp in ("many_to_many", "many_to_one", "one_to_one", "one_to_many"):
                            try:
                                (call_join(case, t, o, how=how, expect=exp)[0] if as_left
                                 else call_join(case, o, t, how=how, expect=exp)[0])()
                            except Exception:                # noqa: BLE001
                                pass
                return warm
            L, okl = _mk_lived_table(case["L"], case["lived"], warm_with(case["R"], True))
            R, okr = _mk_lived_table(case["R"], case["lived"] + 1, warm_with(case["L"], False))
            lived_ok = bool(okl or okr)
        else:
            L, R = _mk_table(case["L"]), _mk_table(case["R"])
        obs = {"pre": {"L": table_state(L), "R": table_state(R)}, "ranks": ranks_of(case)}
        if lived_ok is not None:
            obs["lived_ok"] = lived_ok
        thunk, lv, rv = call_join(case, L, R)
        if case.get("reuse_keys"):
            # the program keeps its key specifications (keys = ['id']; ...) and used them before, on OTHER tables of the same
            # shape (the rows in reverse order): a join reads its key arguments, it does not rewrite them
            try:
                L2 = _mk_table([[nm, list(reversed(vals))] for nm, vals in case["L"]])
                R2 = _mk_table([[nm, list(reversed(vals))] for nm, vals in case["R"]])
                for whow in ("inner", "left", "full"):
                    call_join(case, L2, R2, how=whow, expect="many_to_many", keys=thunk.keys)[0]()
            except Exception:                                # noqa: BLE001
                pass
        obs["veckinds"] = {"l": [_kind_tok(x) for x in lv], "r": [_kind_tok(x) for x in rv]}
        pre_vecs = [[V.enc(x) for x in vec._underlying] for vec in lv + rv]
        for whow, wexp in case.get("warm", ()):
            try:
                call_join(case, L, R, how=whow, expect=wexp)[0]()
            except Exception:                                # noqa: BLE001 - a refused warm-up call is fine
                pass
        obs["res"] = result_obs(thunk)
        obs["post"] = {"L": table_state(L), "R": table_state(R)}
        obs["vecs_same"] = pre_vecs == [[V.enc(x) for x in vec._underlying] for vec in lv + rv]
        obs["aux"] = {}
        for label, how, expect, swap in aux:
            th, _, _ = call_join(case, L, R, how=how, expect=expect, swap=swap)
            obs["aux"][label] = result_obs(th)
        return obs
    except Exception as e:                                   # noqa: BLE001
        return {"broken": f"{type(e).__name__}: {e}"[:200]}


# ------------------------------------------------------------------ Coq emitter

def _cell(t, ids, ranks):
    if t[0] == "N":
        return "NN"
    k = tkey(t)
    if k not in ids:
        ids[k] = 1000 + len(ids)                             # a value that was in no input
    return f"v {ids[k]} {ranks.get(k, 900 + ids[k] % 90)}"


def _kind(tok):
    return "None" if tok is None else f"(Some {tok})"


def emit_join(case, obs, res=None, how=None, expect="__case__", swap=False):
    if "broken" in obs:
        return "CBad"
    res = obs["res"] if res is None else res
    how = how or case["how"]
    e = case["expect"] if expect == "__case__" else expect
    if e is None:
        e = HOW[how][2]
    if isinstance(e, list):                                  # a non-string expect value
        e = "<" + tkey(e).replace('"', "'") + ">"
    ids = {}
    for cols in (case["L"], case["R"]):
        for _, vals in cols:
            for t in vals:
                ids.setdefault(tkey(t), len(ids))
    for on in (case["lon"], case["ron"]):
        for s in on:
            if s[0] == "v":
                for t in s[1]:
                    ids.setdefault(tkey(t), len(ids))
    ranks = obs["ranks"]

    def tab(cols, state):
        out = []
        for (nm, vals), sch in zip(cols, state["schema"]):
            cells = clist(_cell(t, ids, ranks) for t in vals)
            k = _kind(None if sch is None else sch[0])
            out.append(f"col {cstr(nm)} {k} {cells}" if nm is not None else f"ucol {k} {cells}")
        return clist(out)

    def specs(on, kinds):
        out, it = [], iter(kinds)
        for s in on:
            if s[0] == "n":
                out.append(f"bn {cstr(s[1])}")
            else:
                out.append(f"bv (ucol {_kind(next(it))} {clist(_cell(t, ids, ranks) for t in s[1])})")
        return clist(out)

    Lt, Rt = tab(case["L"], obs["pre"]["L"]), tab(case["R"], obs["pre"]["R"])
    lo, ro = specs(case["lon"], obs["veckinds"]["l"]), specs(case["ron"], obs["veckinds"]["r"])
    if swap:
        Lt, Rt, lo, ro = Rt, Lt, ro, lo
    if "exc" in res:
        o = "OErr " + {"SerifValueError": "OValue", "SerifTypeError": "OType", "SerifKeyError": "OKey"}.get(res["exc"], "OOther")
    else:
        cols = []
        for nm, vals in zip(res["names"], res["cols"]):
            n = "None" if nm is None else f"(Some {cstr(nm)})"
            cols.append(f"({n}, {clist(_cell(t, ids, ranks) for t in vals)})")
        o = "OTab " + clist(cols)
    return f"CJoin {HOW[how][1]} {cstr(e)} {Lt} {Rt} {lo} {ro} ({o})"


# ------------------------------------------------------------------ the oracle's building blocks

def _resolve(cols, on):
    """key columns as lists of Python objects, or None when the specification is malformed"""
    out = []
    for s in on:
        if s[0] == "v":
            out.append([V.dec(t) for t in s[1]])
        else:
            hit = [vals for nm, vals in cols if nm == s[1]]
            if not hit:
                return None
            out.append([V.dec(t) for t in hit[0]])
    return out


def in_domain(case, obs):
    """Is this a call the properties speak about: a well-formed key specification whose key columns
    the library is documented to accept (same dtype kind on both sides, no float keys)?"""
    if len(case["lon"]) != len(case["ron"]) or not case["lon"]:
        return False
    n = len(case["L"][0][1]) if case["L"] else 0
    m = len(case["R"][0][1]) if case["R"] else 0
    lk, rk = _resolve(case["L"], case["lon"]), _resolve(case["R"], case["ron"])
    if lk is None or rk is None or any(len(c) != n for c in lk) or any(len(c) != m for c in rk):
        return False

    def kinds(cols, state, on, vk):
        out, it = [], iter(vk)
        for s in on:
            if s[0] == "v":
                out.append(next(it))
            else:
                j = [nm for nm, _ in cols].index(s[1])
                out.append(None if state["schema"][j] is None else state["schema"][j][0])
        return out
    lkind = kinds(case["L"], obs["pre"]["L"], case["lon"], obs["veckinds"]["l"])
    rkind = kinds(case["R"], obs["pre"]["R"], case["ron"], obs["veckinds"]["r"])
    for a, b in zip(lkind, rkind):
        if (a is not None and a not in ALLOWED_KEY_KINDS) or (b is not None and b not in ALLOWED_KEY_KINDS):
            return False
        if a is not None and b is not None and a != b:
            return False
    return True


def key_tuples(case):
    n = len(case["L"][0][1]) if case["L"] else 0
    m = len(case["R"][0][1]) if case["R"] else 0
    lk, rk = _resolve(case["L"], case["lon"]), _resolve(case["R"], case["ron"])
    return ([tuple(c[i] for c in lk) for i in range(n)], [tuple(c[j] for c in rk) for j in range(m)])


def unique(keys):
    return not any(keys[i] == keys[j] for j in range(len(keys)) for i in range(j))


def nested_loop_pairs(how, lkeys, rkeys):
    """the definition: left-major, right-minor; (i, None) in place; (None, j) appended in right order"""
    rows = []
    for i, a in enumerate(lkeys):
        hit = False
        for j, b in enumerate(rkeys):
            if a == b:
                rows.append((i, j))
                hit = True
        if not hit and how in ("left", "full"):
            rows.append((i, None))
    if how == "full":
        for j, b in enumerate(rkeys):
            if not any(a == b for a in lkeys):
                rows.append((None, j))
    return rows


def expected_rows(case, how, pairs, swap=False):
    """rows (lists of tags) the definition gives for the row pairs"""
    L, R = (case["R"], case["L"]) if swap else (case["L"], case["R"])
    out = []
    for i, j in pairs:
        row = [(["N"] if i is None else vals[i]) for _, vals in L]
        row += [(["N"] if j is None else vals[j]) for _, vals in R]
        out.append(row)
    return out


def res_rows(res):
    n = res["len"]
    return [[c[r] for c in res["cols"]] for r in range(n)] if res["cols"] else []


def judge_rows(case, res, how, swap=False, label=""):
    """compare one result with the nested-loop definition; None or 'key: text'"""
    lk, rk = key_tuples(case)
    if swap:
        lk, rk = rk, lk
    pairs = nested_loop_pairs(how, lk, rk)
    want = expected_rows(case, how, pairs, swap)
    L, R = (case["R"], case["L"]) if swap else (case["L"], case["R"])
    names = [nm for nm, _ in L] + [nm for nm, _ in R]
    if not want:
        # zero result rows: a 0 x 0 table (kept observation) or an empty table under the right names
        if res["len"] == 0 and all(not c for c in res["cols"]) and res["names"] in ([], names):
            return None
        return f"{label}rows: expected no rows, got {res['len']} rows / names {res['names']}"
    if res["names"] != names:
        return f"{label}names: result columns are {res['names']}, expected left then right names {names}"
    if any(len(c) != res["len"] for c in res["cols"]):
        return f"{label}rows: ragged result columns {[len(c) for c in res['cols']]}"
    got = res_rows(res)
    if got != want:
        k = next((r for r in range(min(len(got), len(want))) if got[r] != want[r]), min(len(got), len(want)))
        return (f"{label}rows: {len(got)} rows, definition gives {len(want)}; first difference at row {k}: "
                f"got {got[k] if k < len(got) else None}, expected {want[k] if k < len(want) else None} "
                f"(pair {pairs[k] if k < len(pairs) else None})")
    for j, (vals, sch) in enumerate(zip(res["cols"], res["schema"])):
        if sch is None or any(t[0] == "?" for t in vals):
            continue
        if sch != V.infer_closed(vals):
            return f"{label}schema: result column {j} holds {vals} but is typed {sch}"
    return None


def inputs_unchanged(obs):
    if obs["pre"] != obs["post"] or not obs["vecs_same"]:
        return "inputs-modified: a join changed one of its input tables / key vectors"
    return None


def expectation(case, e):
    """(needs_left_unique, needs_right_unique) for a valid expect string, None for anything else"""
    if not isinstance(e, str) or e not in EXPECTS:
        return None
    return (e in ("one_to_one", "one_to_many"), e in ("one_to_one", "many_to_one"))


def must_raise(case, how, e):
    """C11's reading: 'bad-expect' / 'cardinality' / None"""
    if e is None:
        e = HOW[how][2]
    ex = expectation(case, e)
    if ex is None:
        return "bad-expect"
    lk, rk = key_tuples(case)
    if (ex[0] and not unique(lk)) or (ex[1] and not unique(rk)):
        return "cardinality"
    return None


def judge_call(case, obs, res, how, expect, swap=False, label=""):
    """Full judgement of one call: error expected or not, class where the property names it, rows."""
    if not in_domain(case, obs):
        return None                                     # refusals are observed, not judged
    why = must_raise(case, how, expect) if not swap else None
    if why == "bad-expect":
        if "exc" not in res:
            return f"{label}bad-expect-accepted: expect={expect!r} was accepted"
        return None
    if why == "cardinality":
        if "exc" not in res:
            return f"{label}expect-not-enforced: expect={expect!r} accepted although a required uniqueness fails"
        if res["exc"] != "SerifValueError":
            return f"{label}expect-wrong-error: {res['msg']}"
        return None
    if "exc" in res:
        if res["exc"] == "SerifValueError" and "expectation" in res.get("msg", ""):
            return f"{label}expect-false-alarm: expect={expect!r} holds, yet: {res['msg'][:120]}"
        return f"{label}raises: {res['msg']}"
    return judge_rows(case, res, how, swap, label)


# ------------------------------------------------------------------ evidence helpers

def dup_both_sides(case):
    lk, rk = key_tuples(case)
    return any(sum(1 for a in lk if a == k) >= 2 and sum(1 for b in rk if b == k) >= 2 for k in lk)


def partial_agreement(case):
    lk, rk = key_tuples(case)
    if not lk or len(lk[0]) < 2:
        return False
    return any(a != b and any(x == y for x, y in zip(a, b)) for a in lk for b in rk)


def unmatched_each_side(case):
    lk, rk = key_tuples(case)
    return any(all(a != b for b in rk) for a in lk) and any(all(a != b for a in lk) for b in rk)


def shrink_join(case):
    """smaller cases: drop a row on one side, drop a payload column, drop a key pair"""
    def keyed(cols, on):
        return {s[1] for s in on if s[0] == "n"}
    for side, onk in (("L", "lon"), ("R", "ron")):
        cols = case[side]
        n = len(cols[0][1]) if cols else max([len(s[1]) for s in case[onk] if s[0] == "v"] + [0])
        for r in range(n):
            c2 = dict(case)
            c2[side] = [[nm, vals[:r] + vals[r + 1:]] for nm, vals in cols]
            c2[onk] = [s if s[0] == "n" else ["v", s[1][:r] + s[1][r + 1:]] for s in case[onk]]
            yield c2
        used = keyed(cols, case[onk])
        for j, (nm, _) in enumerate(cols):
            if nm not in used and len(cols) > 1:
                c2 = dict(case)
                c2[side] = cols[:j] + cols[j + 1:]
                yield c2
    if len(case["lon"]) > 1 and len(case["lon"]) == len(case["ron"]):
        for q in range(len(case["lon"])):
            c2 = dict(case)
            c2["lon"] = case["lon"][:q] + case["lon"][q + 1:]
            c2["ron"] = case["ron"][:q] + case["ron"][q + 1:]
            c2["single"] = False
            yield c2


def shape_labels(case, obs, stream):
    if "broken" in obs:
        return [f"{stream}:observer-broken"]
    out = [f"{stream}:{case['how']}"]
    n = len(case["L"][0][1]) if case["L"] else 0
    m = len(case["R"][0][1]) if case["R"] else 0
    out.append(f"rows:{'0' if n == 0 or m == 0 else ('1-3' if max(n, m) <= 3 else '4-8')}")
    out.append(f"keys:{len(case['lon'])}")
    if any(s[0] == "v" for s in case["lon"] + case["ron"]):
        out.append("key-by-vector")
    if "exc" in obs.get("res", {}):
        out.append(f"{stream}:raised")
    return out
