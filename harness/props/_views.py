"""_views — table view histories run for the benefit of C03's global monitor (not a property module of its own).

A table is built; rows / columns / shape / iteration / transposes are taken; a column's dtype is changed IN PLACE through a
live column view (a None, a wider kind, a datetime into dates) or through a cell / column assignment; the views are taken
again.  Every vector the public methods return on the way (rows included) is checked by the monitor for truthfulness: a row
view taken after the write reports a schema that admits its cells, whatever was looked at before."""
import datetime as _dt

PID = "VIEWS"

STARTS = [
    [("a", [1, 2, 3]), ("b", [4, 5, 6])],
    [("a", [1, 2, 3]), ("b", [1.5, 2.5, 3.5])],
    [("a", [True, False, True]), ("b", ["x", "y", "z"])],
    [("d", ["D0", "D1", "D2"]), ("n", [1, 2, 3])],
    [("a", [1, 2]), ("b", [3, 4]), ("c", [5, 6])],
]
WRITES = [None, 2.5, "DT", 7, True, "text", 1 + 2j]
PROBES = ["row0", "rowlast", "iter", "shape", "col", "T", "repr", "cell", "slice", "none"]


def streams(rng, tier):
    n = 300 if tier == "quick" else 3000
    cs = []
    for start in range(len(STARTS)):
        for w in range(len(WRITES)):
            for via in ("view", "cell", "colassign", "slicewrite"):
                cs.append({"start": start, "write": w, "via": via, "before": ["row0", "iter", "shape"], "after": ["row0", "rowlast", "iter", "T"],
                           "col": 0, "at": 1})
    for _ in range(n):
        cs.append({"start": rng.randrange(len(STARTS)), "write": rng.randrange(len(WRITES)),
                   "via": rng.choice(["view", "view", "cell", "colassign", "slicewrite"]),
                   "before": [rng.choice(PROBES) for _ in range(rng.randint(0, 3))],
                   "after": [rng.choice(PROBES) for _ in range(rng.randint(1, 4))], "col": rng.randrange(3), "at": rng.randrange(3)})
    return [("views", cs)]


def _val(x, j):
    if isinstance(x, str) and x.startswith("D") and x[1:].isdigit():
        return _dt.date(2024, 1, 1 + int(x[1:]))
    if x == "DT":
        return _dt.datetime(2024, 5, 6, 13, 45)
    return x


def _probe(t, what):
    if what == "row0":
        r = t[0]
        list(r)
        r.schema()
    elif what == "rowlast":
        r = t[-1]
        list(r)
    elif what == "iter":
        for r in t:
            list(r)
            r.schema()
    elif what == "shape":
        t.shape
    elif what == "col":
        list(t.cols()[0])
    elif what == "T":
        tt = t.T
        for c in tt.cols():
            c.schema()
    elif what == "repr":
        repr(t)
    elif what == "cell":
        t[0, 0]
    elif what == "slice":
        s = t[0:2]
        if len(s):
            list(s[0])


def observe(case):
    from serif import Table, Vector
    cols = STARTS[case["start"]]
    t = Table([Vector([_val(x, j) for x in vals], name=nm) for j, (nm, vals) in enumerate(cols)])
    for p in case["before"]:
        try:
            _probe(t, p)
        except Exception:                                    # noqa: BLE001
            pass
    j = case["col"] % len(cols)
    i = case["at"] % len(t)
    x = _val(WRITES[case["write"]], j)
    # rows the program HOLDS across the write (taken by position and kept from an iteration): whatever they show afterwards,
    # what they report about themselves must admit it - they are used as operands after the write
    held = []
    try:
        held = [t[i], t[0], t[-1]] + [r for k, r in enumerate(t) if k == i][:1]
    except Exception:                                        # noqa: BLE001
        pass
    try:
        if case["via"] == "view":
            t.cols()[j][i] = x
        elif case["via"] == "cell":
            t[i, j] = x
        elif case["via"] == "slicewrite":
            t.cols()[j][0:2] = [x, None]
        else:
            cur = list(t.cols()[j])
            cur[i] = x
            setattr(t, cols[j][0], cur)
    except Exception:                                        # noqa: BLE001  an incompatible value is refused: fine
        pass
    from harness.props import c03
    for r in held:
        c03.check_held(r, "a row view taken before the write, looked at after it")
        for use in (lambda r: r.schema(), lambda r: list(r), lambda r: r.T, lambda r: r.copy(), lambda r: r[0:2], lambda r: r.isna(),
                    lambda r: r.to_object(), lambda r: r.fillna(0)):
            try:
                use(r)
            except Exception:                                # noqa: BLE001
                pass
    for p in case["after"]:
        try:
            _probe(t, p)
        except Exception:                                    # noqa: BLE001
            pass
    return {"ok": True}
