"""C05 — elementwise operations equal the Python scalar operation, shape preserved.

Streams
  binop      7 operators x 7 operand forms (vector, scalar, list/tuple, reflected scalar,
             reflected list, reflected vector via the explicit dunder, + mismatched lengths)
             x ~55 ordered dtype pairs x lengths {0,1,2,5} x random None placements
  unary      -v, +v, abs(v) x every dtype x lengths x None placements
  table      table (+,-,*,/,//,%,**) scalar / vector / list / table, incl. width and row mismatch
  dateadd    dates + int / bool / int vector / bool vector / list / timedelta / untyped vector
  broadcast  EVERY public attribute of str, int, float, bool, date, datetime (dir(type) at run
             time) + serif's own wrappers (before/after/.../eomonth), None at every subset of
             positions of 4-element vectors, plus lengths 0, 1, 2, 5

Scalar semantics are never modelled: `observe` lets Python compute  x <o> y  (both operand
orders) for the operands that occur and ships the answers as a lookup table over opaque
value ids (one id per distinct class+repr in the case).
"""
import itertools

from harness import values as V
from harness.core import cbool, clist, copt, cz, err_name

PID = "C05"
TRANSLATE = ["EqDispatch.v"]     # translator tie: coq/gen_proofs/EqDispatch.v is re-proved against definitions regenerated from /repo
PRELUDE = ("From Coq Require Import List ZArith.\nImport ListNotations.\n"
           "From Serif Require Import Base.PyVal Model.Elementwise Corr.C05.")
FAILING = "C05.failing"
SHARD = 700
RULE = ("binop: every (operator, operand form, ordered dtype pair) with lengths drawn from {0,1,2,5} and "
        "random None placements, plus a length-mismatched twin for every sequence form; broadcast: every "
        "public attribute of the six element classes x None subsets of 4-element vectors. Distinct = "
        "canonical JSON of the case; non-trivial = both operands non-empty and (non-commutative operator "
        "or a non-vector operand form), or a broadcast/unary case with >= 1 None and >= 1 value.")
EXHAUSTIVE = {"quick": False, "thorough": False}
EXHAUSTIVE_NOTE = ("operator x form x dtype-pair and attribute x element-class are enumerated completely; "
                   "lengths and None placements are sampled (thorough: all 16 None subsets of 4-element "
                   "vectors for every broadcast attribute). Induction over length is the theorems' job.")
ASSUMED = [
    "what Python computes for two scalars is a parameter (scal); in case files it is a finite table filled in "
    "by the interpreter running the implementation, keyed by class+repr of the operands",
    "the right operand is classified as Vector / non-string Iterable with len() / anything else, as the "
    "isinstance chain of _elementwise_operation does; generators, dicts, sets and two-dimensional operands "
    "are outside the model",
    "reflected operators are reached through Python's binary-operator protocol (left operand returns "
    "NotImplemented); left operands that implement the operator for arbitrary objects (str % v) never reach serif",
]

OPS = ["add", "sub", "mul", "truediv", "floordiv", "mod", "pow"]
COQ_OP = {"add": "Add", "sub": "Sub", "mul": "Mul", "truediv": "TrueDiv", "floordiv": "FloorDiv",
          "mod": "Mod", "pow": "Pow"}
NONCOMM = {"sub", "truediv", "floordiv", "mod", "pow"}
FORMS = ["vec", "scalar", "list", "rscalar", "rlist", "rvec", "same"]     # same: v <o> v (one object twice)
SEQ_FORMS = ("vec", "list", "rlist", "rvec")
UNARY = ["neg", "pos", "abs"]

H = float.hex
POOL = {
    "int": [["i", 3], ["i", -2], ["i", 7], ["i", 0], ["i", 1]],
    "bool": [["b", True], ["b", False]],
    "float": [["f", H(0.5)], ["f", H(-2.0)], ["f", H(1.5)], ["f", H(3.0)]],
    "complex": [["c", H(1.0), H(2.0)], ["c", H(0.0), H(-1.0)]],
    "str": [["s", "a"], ["s", "bc"], ["s", ""]],
    "Fr": [["Fr", 1, 2], ["Fr", -3, 4], ["Fr", 2, 1]],
    "Dec": [["Dec", "1.5"], ["Dec", "-2"], ["Dec", "0.25"]],
    "date": [["d", 737425], ["d", 730120], ["d", 738000]],
    "dt": [["dt", 737425, 3600], ["dt", 730120, 0], ["dt", 738000, 86399]],
    "td": [["td", 1], ["td", -3], ["td", 40]],
    "NC": [["NC", "p"], ["NC", "q"], ["NC", "r"]],          # values.NC: no operator commutes
}
NUMERIC = ["int", "bool", "float", "complex", "Fr", "Dec"]
PAIRS = ([(a, b) for a in NUMERIC for b in NUMERIC] +
         [("str", "str"), ("str", "int"), ("int", "str"), ("str", "bool"),
          ("date", "td"), ("td", "date"), ("date", "date"), ("dt", "td"), ("td", "dt"), ("dt", "dt"),
          ("td", "td"), ("td", "int"), ("int", "td"), ("td", "float"), ("date", "dt"),
          ("date", "int"), ("int", "date"), ("date", "bool"), ("date", "float"),
          ("NC", "NC"), ("NC", "int"), ("int", "NC")])
LENGTHS = [0, 1, 2, 5]


def _rand_vals(rng, ty, n, p_none):
    return [["N"] if rng.random() < p_none else rng.choice(POOL[ty]) for _ in range(n)]


def streams(rng, tier):
    thorough = tier == "thorough"
    out = []
    # ---- binop
    cs = []
    reps = 8 if thorough else 1
    for fn in OPS:
        for form in FORMS:
            for ta, tb in PAIRS:
                for _ in range(reps):
                    lens = LENGTHS
                    for n in lens:
                        pn = rng.choice([0.0, 0.3, 0.3, 0.6])
                        c = {"op": "bin", "fn": fn, "form": form, "a": _rand_vals(rng, ta, n, pn)}
                        if form in ("scalar", "rscalar"):
                            c["b"] = rng.choice(POOL[tb])
                        elif form == "same":
                            if ta != tb:
                                continue
                            c["b"] = c["a"]
                        else:
                            c["b"] = _rand_vals(rng, tb, n, rng.choice([0.0, 0.3, 0.6]))
                            if form in ("list", "rlist"):
                                c["seq"] = rng.choice(["list", "list", "tuple"])
                        if n == 0 and rng.random() < 0.5:
                            c["adt"] = ta                     # an empty but typed vector
                        cs.append(c)
                    if form in SEQ_FORMS:                      # the length-mismatched twin
                        n, m = rng.choice([(0, 1), (1, 0), (1, 2), (2, 1), (5, 2), (2, 5), (5, 1), (1, 5), (5, 4),
                                           (4, 5), (0, 5), (5, 0)])
                        c = {"op": "bin", "fn": fn, "form": form, "a": _rand_vals(rng, ta, n, 0.2),
                             "b": _rand_vals(rng, tb, m, 0.2)}
                        if form in ("list", "rlist"):
                            c["seq"] = rng.choice(["list", "tuple"])
                        cs.append(c)
    out.append(("binop", cs))
    # ---- unary
    cs = []
    for fn in UNARY:
        for ty in POOL:
            for n in LENGTHS:
                for _ in range(4 if thorough else 2):
                    c = {"op": "un", "fn": fn, "a": _rand_vals(rng, ty, n, rng.choice([0.0, 0.4, 0.7]))}
                    if n == 0 and rng.random() < 0.5:
                        c["adt"] = ty
                    cs.append(c)
    out.append(("unary", cs))
    # ---- table
    cs = []
    tcols = ["int", "float", "bool", "Fr", "complex", "str", "date", "td", "Dec"]
    for _ in range(15000 if thorough else 1500):
        fn = rng.choice(OPS)
        ncol = rng.choice([1, 2, 2, 3])
        nrow = rng.choice(LENGTHS)
        fam = rng.choice(["num", "num", "num", "str", "date", "mixed"])
        if fam == "num":
            ltys = [rng.choice(["int", "float", "bool", "Fr", "complex", "Dec"]) for _ in range(ncol)]
            rty = rng.choice(["int", "float", "bool", "Fr", "complex"])
        elif fam == "str":
            ltys = ["str"] * ncol
            rty = rng.choice(["str", "int"])
        elif fam == "date":
            ltys = [rng.choice(["date", "dt"]) for _ in range(ncol)]
            rty = "td"
            if rng.random() < 0.4:                          # date columns with an int operand: days, column by column
                ltys, rty, fn = ["date"] * ncol, "int", rng.choice(["add", "add", "sub"])
        else:
            ltys = [rng.choice(tcols) for _ in range(ncol)]
            rty = rng.choice(["int", "float", "str", "td"])
        cols = [_rand_vals(rng, t, nrow, rng.choice([0.0, 0.3])) for t in ltys]
        right = rng.choice(["scalar", "scalar", "vec", "list", "table", "table", "table_w", "table_r", "vec_r"])
        c = {"op": "tab", "fn": fn, "cols": cols, "right": right}
        if right == "scalar":
            c["b"] = rng.choice(POOL[rty])
        elif right in ("vec", "list"):
            c["b"] = _rand_vals(rng, rty, nrow, 0.2)
        elif right == "vec_r":
            c["b"] = _rand_vals(rng, rty, nrow + rng.choice([1, 2]), 0.2)
        else:
            w = ncol if right != "table_w" else rng.choice([x for x in (1, 2, 3, 4) if x != ncol])
            h = nrow if right != "table_r" else nrow + rng.choice([1, 3])
            c["b"] = [_rand_vals(rng, rty, h, 0.2) for _ in range(w)]
        cs.append(c)
    out.append(("table", cs))
    # ---- dates + days
    cs = []
    for _ in range(3000 if thorough else 600):
        n = rng.choice(LENGTHS)
        a = _rand_vals(rng, "date", n, rng.choice([0.0, 0.3, 0.6]))
        kind = rng.choice(["int", "int", "bool", "bigint", "ivec", "ivec", "ivec_r", "bvec", "ilist", "untyped",
                           "td", "tdvec", "float", "nonevec"])
        c = {"op": "bin", "fn": "add", "a": a}
        if n == 0 or rng.random() < 0.1:
            c["adt"] = "date"
        if kind == "int":
            c.update(form="scalar", b=["i", rng.choice([0, 1, -1, 31, 365, -400, 10000])])
        elif kind == "bool":
            c.update(form="scalar", b=["b", rng.random() < 0.5])
        elif kind == "bigint":
            c.update(form="scalar", b=["i", rng.choice([3652059, -800000, 2914635, 2914634])])
        elif kind == "float":
            c.update(form="scalar", b=["f", H(1.0)])
        elif kind == "td":
            c.update(form="scalar", b=["td", rng.choice([1, -3, 40])])
        elif kind in ("ivec", "ivec_r", "ilist"):
            m = n if kind != "ivec_r" else n + rng.choice([1, 2])
            c.update(form="list" if kind == "ilist" else "vec",
                     b=[["N"] if rng.random() < 0.25 else ["i", rng.choice([0, 1, -1, 31, 365, -400])] for _ in range(m)])
        elif kind == "bvec":
            c.update(form="vec", b=[["b", rng.random() < 0.5] for _ in range(n)])
        elif kind == "tdvec":
            c.update(form="vec", b=_rand_vals(rng, "td", n, 0.25))
        elif kind == "nonevec":
            c.update(form="vec", b=[["N"]] * n)
        else:
            c.update(form="vec", b=[], a=[], adt="date")
        cs.append(c)
    out.append(("dateadd", cs))
    # ---- broadcast
    cs = []
    subsets = list(itertools.product([False, True], repeat=4))
    for ty in BC_TYPES:
        for name in bc_names(ty):
            ss = subsets if thorough else [subsets[0], subsets[-1]] + rng.sample(subsets[1:-1], 3)
            for mask in ss:
                vals = [["N"] if m else rng.choice(BC_POOL[ty]) for m in mask]
                cs.append({"op": "bc", "ty": ty, "attr": name, "vals": vals})
            for n in (0, 1, 2, 5):
                vals = [["N"] if rng.random() < 0.3 else rng.choice(BC_POOL[ty]) for _ in range(n)]
                cs.append({"op": "bc", "ty": ty, "attr": name, "vals": vals})
    out.append(("broadcast", cs))
    # ---- broadcast over equal-but-distinguishable elements (0.0 / -0.0: same ==, same hash, different value):
    #      "element i of the result is the method applied to element i" forbids computing once per distinct value
    cs = []
    twins = [["f", H(0.0)], ["f", H(1.5)], ["f", H(-0.0)], ["N"], ["f", H(0.0)], ["f", H(-0.0)]]
    for name in bc_names("float"):
        cs.append({"op": "bc", "ty": "float", "attr": name, "vals": twins})
        cs.append({"op": "bc", "ty": "float", "attr": name, "vals": list(reversed(twins))})
    out.append(("broadcast-twins", cs))
    # ---- broadcast after in-place writes: read the attribute, write twice (no read in between), read again, ...
    #      the result must follow the CURRENT elements (a result memoised per storage identity would not)
    cs = []
    for ty in BC_TYPES:
        pool = BC_POOL[ty]
        for name in bc_names(ty):
            for _ in range(1 if not thorough else 4):
                n = rng.choice([3, 4, 4, 5])
                vals = [rng.choice(pool) for _ in range(n)]
                writes = [[rng.randrange(n), rng.choice(pool)] for _ in range(rng.choice([2, 4, 6]))]
                cs.append({"op": "bc", "ty": ty, "attr": name, "vals": vals, "writes": writes})
    out.append(("broadcast-history", cs))
    # the same cases on "lived-in" operands (values.lived_in): vectors that were read in every way and then
    # rewritten in place until they hold the case's values
    lived = []
    for name, cases in out:
        cand = [c for c in cases if c.get("op") in ("bin", "un", "bc") and "writes" not in c
                and len(c.get("a") or c.get("vals") or []) >= 2]
        take = cand if name == "dateadd" else rng.sample(cand, min(len(cand), 250 if not thorough else 2500))
        for c in take:
            lived.append(dict(c, lived=rng.randrange(1 << 30)))
    out.append(("lived-in", lived))
    # the same cases on operands that are columns of a join result, their None being the padding of unmatched rows
    made = []
    for name, cases in out[:-1]:
        cand = [c for c in cases if c.get("op") in ("bin", "un", "bc") and "writes" not in c
                and any(t[0] == "N" for t in (c.get("a") or c.get("vals") or []))
                and any(t[0] != "N" for t in (c.get("a") or c.get("vals") or []))]
        for c in rng.sample(cand, min(len(cand), 150 if not thorough else 1500)):
            made.append(dict(c, origin=rng.choice(["left", "full"])))
    out.append(("join-made", made))
    # the same cases on operands that reached their contents by in-place writes: promoted in place (born one step down the
    # ladder), or object vectors whose None were assigned after construction
    made = []
    for name, cases in out[:-2]:
        cand = [c for c in cases if c.get("op") in ("bin", "un", "bc") and "writes" not in c
                and len(c.get("a") or c.get("vals") or []) >= 2]
        for c in rng.sample(cand, min(len(cand), 200 if not thorough else 2000)):
            # broadcast methods are the element class's: an object vector has none (only arithmetic is asked of it)
            made.append(dict(c, origin="promoted" if c["op"] == "bc" else rng.choice(["promoted", "promoted", "objnone"])))
    out.append(("write-made", made))
    return [(name, _dedupe(cases)) for name, cases in out]


def _dedupe(cases):
    import json
    seen, keep = set(), []
    for c in cases:
        k = json.dumps(c, sort_keys=True)
        if k not in seen:
            seen.add(k)
            keep.append(c)
    return keep


# ------------------------------------------------------------------ broadcast tables

BC_TYPES = ["str", "int", "float", "bool", "date", "dt"]
BC_POOL = {
    "str": [["s", "abc"], ["s", "a b\tc"], ["s", "Hello World"], ["s", "ab12"], ["s", "  xa  "], ["s", "banana"]],
    "int": [["i", 5], ["i", -3], ["i", 0], ["i", 255], ["i", 1024]],
    "float": [["f", H(1.5)], ["f", H(-0.25)], ["f", H(3.0)], ["f", H(0.0)]],
    "bool": [["b", True], ["b", False]],
    "date": [["d", 737425], ["d", 730120], ["d", 738000], ["d", 737484]],
    "dt": [["dt", 737425, 3600], ["dt", 730120, 0], ["dt", 738000, 86399], ["dt", 737484, 45296]],
}
# wall-clock / environment dependent: excluded (DESIGN.md §4 C05)
NONDETERMINISTIC = {"today", "now", "utcnow", "fromtimestamp", "utcfromtimestamp"}
# serif's own wrappers that are not methods of the element class: name -> reference function
EXTRA = {
    "str": {"before": 0, "after": 0, "before_last": 0, "after_last": 0},
    "date": {"eomonth": 0},
}


def _types():
    import datetime as dt
    return {"str": str, "int": int, "float": float, "bool": bool, "date": dt.date, "dt": dt.datetime}


def bc_names(ty):
    t = _types()[ty]
    names = [n for n in dir(t) if not n.startswith("_") and n not in NONDETERMINISTIC]
    return names + sorted(EXTRA.get(ty, {}))


def bc_args(ty, name):
    """(args, kwargs) for every attribute that needs them; everything else is called bare."""
    import datetime as dt
    tbl = {
        ("str", "center"): ((9, "*"), {}), ("str", "count"): (("a",), {}), ("str", "endswith"): (("c",), {}),
        ("str", "expandtabs"): ((4,), {}), ("str", "find"): (("b",), {}), ("str", "format"): ((1,), {"k": 2}),
        ("str", "format_map"): (({},), {}), ("str", "index"): (("a",), {}), ("str", "join"): ((["x", "y", "z"],), {}),
        ("str", "ljust"): ((8, "."), {}), ("str", "lstrip"): ((" a",), {}), ("str", "maketrans"): (("ab", "xy"), {}),
        ("str", "partition"): (("b",), {}), ("str", "removeprefix"): (("ab",), {}),
        ("str", "removesuffix"): (("c",), {}), ("str", "replace"): (("a", "zz"), {}), ("str", "rfind"): (("a",), {}),
        ("str", "rindex"): (("a",), {}), ("str", "rjust"): ((8,), {}), ("str", "rpartition"): (("a",), {}),
        ("str", "rsplit"): (("a", 1), {}), ("str", "rstrip"): ((), {}), ("str", "split"): ((), {"maxsplit": 1}),
        ("str", "splitlines"): ((), {}), ("str", "startswith"): (("a",), {}), ("str", "strip"): ((), {}),
        ("str", "translate"): (({97: "X", 98: None},), {}), ("str", "zfill"): ((7,), {}),
        ("str", "encode"): (("utf-8",), {}),
        ("str", "before"): (("b",), {}), ("str", "after"): (("b",), {}), ("str", "before_last"): (("a",), {}),
        ("str", "after_last"): (("a",), {}),
        ("int", "to_bytes"): ((2, "big"), {"signed": True}), ("int", "from_bytes"): ((b"\x01\x02", "big"), {}),
        ("bool", "to_bytes"): ((2, "big"), {"signed": True}), ("bool", "from_bytes"): ((b"\x01\x02", "big"), {}),
        ("float", "fromhex"): (("0x1.8p1",), {}),
        ("date", "fromisocalendar"): ((2020, 7, 3), {}), ("date", "fromisoformat"): (("2020-02-03",), {}),
        ("date", "fromordinal"): ((730000,), {}), ("date", "replace"): ((), {"day": 1}),
        ("date", "strftime"): (("%Y/%m/%d",), {}), ("date", "isoformat"): ((), {}),
        ("dt", "fromisocalendar"): ((2020, 7, 3), {}), ("dt", "fromisoformat"): (("2020-02-03T04:05:06",), {}),
        ("dt", "fromordinal"): ((730000,), {}), ("dt", "replace"): ((), {"hour": 3, "day": 2}),
        ("dt", "strftime"): (("%Y/%m/%d %H",), {}), ("dt", "isoformat"): ((" ",), {}),
        ("dt", "combine"): ((dt.date(2020, 1, 2), dt.time(3, 4)), {}), ("dt", "strptime"): (("2020 07", "%Y %m"), {}),
        ("dt", "astimezone"): ((dt.timezone.utc,), {}),
    }
    return tbl.get((ty, name), ((), {}))


def bc_reference(ty, name):
    """independent statement of what the attribute means for ONE element"""
    import calendar
    if name in EXTRA.get(ty, {}):
        return {
            "before": lambda s, sep: s.split(sep, 1)[0],
            "after": lambda s, sep: s.split(sep, 1)[1] if sep in s else "",
            "before_last": lambda s, sep: s.rsplit(sep, 1)[0] if sep in s else "",
            "after_last": lambda s, sep: s.rsplit(sep, 1)[1] if sep in s else s,
            "eomonth": lambda d: d.replace(day=calendar.monthrange(d.year, d.month)[1]),
        }[name]
    t = _types()[ty]
    if callable(getattr(t, name)):
        return lambda x, *a, **k: getattr(x, name)(*a, **k)
    return lambda x: getattr(x, name)


# ------------------------------------------------------------------ implementation side

class _Intern:
    """opaque value ids: one id per distinct class + repr"""

    def __init__(self):
        self.ids = {}

    def id(self, x):
        if x is None:
            return None
        k = f"{type(x).__module__}.{type(x).__qualname__}:{x!r}"
        return self.ids.setdefault(k, len(self.ids) + 1)

    def known(self, x):
        return x is None or f"{type(x).__module__}.{type(x).__qualname__}:{x!r}" in self.ids


_LIVED = None          # set per case by observe(): a seed -> operands are "lived-in" vectors (values.lived_in)


_ORIGIN = None         # set per case by observe(): "left" / "full" -> operands that hold None are COLUMNS OF A JOIN RESULT,
#                        their None being the padding of unmatched rows (see _via_join)
ORIGIN_REALISED = [0]


def _via_join(vals, adt, how):
    """a vector holding vals that is a column of a left / full join result: the None are the padding of the rows
    without a partner.  None when the join cannot give exactly these cells (then the caller builds a fresh vector)."""
    from serif import Table, Vector
    n = len(vals)
    present = [i for i in range(n) if vals[i] is not None]
    if not present or len(present) == n:
        return None
    try:
        vcol = _mkvec_fresh([vals[i] for i in present], adt).alias("v")
        if how == "full" and present == list(range(len(present))):
            # the left-hand column of a full join: unmatched right rows come last, padded on the left
            j = Table([Vector(present, name="k"), vcol]).full_join(Table([Vector(list(range(n)), name="k2")]), "k", "k2",
                                                                   expect="many_to_many")
            col = j.cols()[1]
        else:
            # the right-hand column of a left join
            j = Table([Vector(list(range(n)), name="k")]).join(Table([Vector(present, name="k2"), vcol]), "k", "k2",
                                                               expect="many_to_many")
            col = j.cols()[-1]
        got = list(col._underlying)
        if len(got) != n or any(type(x) is not type(y) or (x is not None and x != y and not (x != x and y != y))
                                for x, y in zip(got, vals)):
            return None
        _KEEP.append(j)
        del _KEEP[:-8]
        ORIGIN_REALISED[0] += 1
        return col
    except Exception:                                        # noqa: BLE001
        return None


_KEEP = []


def _via_writes(vals, adt, how):
    """a vector holding vals that got there by in-place writes.
    "promoted": born one step down the ladder (floats from ints, ints from bools, complex from floats, datetimes from
                dates), every cell then written (the first write promotes the vector in place);
    "objnone":  an object-dtype vector born without None, the None then assigned in place."""
    import datetime as dt
    from serif import Vector
    n = len(vals)
    live = [x for x in vals if x is not None]
    if not live or n < 2:
        return None
    try:
        if how == "promoted":
            cls = {type(x) for x in live}
            if cls == {float}:
                born = [None if x is None else 7 for x in vals]
            elif cls == {int}:
                born = [None if x is None else True for x in vals]
            elif cls == {complex}:
                born = [None if x is None else 0.5 for x in vals]
            elif cls == {dt.datetime}:
                born = [None if x is None else dt.date(2020, 2, 2) for x in vals]
            else:
                return None
            v = Vector(born)
            for i, x in enumerate(vals):
                if x is not None:
                    v[i] = x
        else:
            if len(live) == n:
                return None
            stand = live[0]
            v = Vector([stand if x is None else x for x in vals]).to_object()
            for i, x in enumerate(vals):
                if x is None:
                    v[i] = None
        got = list(v._underlying)
        if len(got) != n or any(type(x) is not type(y) or (x is not None and x != y and not (x != x and y != y))
                                for x, y in zip(got, vals)):
            return None
        ORIGIN_REALISED[0] += 1
        return v
    except Exception:                                        # noqa: BLE001
        return None


def _mkvec(vals, adt):
    if _ORIGIN in ("promoted", "objnone"):
        v = _via_writes(list(vals), adt, _ORIGIN)
        if v is not None:
            return v
    elif _ORIGIN is not None:
        v = _via_join(list(vals), adt, _ORIGIN)
        if v is not None:
            return v
    if _LIVED is not None and len(vals) >= 2:
        return V.lived_in(lambda xs: _mkvec_fresh(xs, adt), list(vals), _LIVED)
    return _mkvec_fresh(vals, adt)


def _mkvec_fresh(vals, adt):
    import datetime as dt
    import decimal
    import fractions
    from serif import Vector
    from serif.typing import DataType
    if adt is None:
        return Vector(list(vals))
    cls = {"int": int, "bool": bool, "float": float, "complex": complex, "str": str, "Fr": fractions.Fraction,
           "Dec": decimal.Decimal, "date": dt.date, "dt": dt.datetime, "td": dt.timedelta, "NC": V.NC}[adt]
    return Vector(list(vals), dtype=DataType(cls, nullable=any(x is None for x in vals)))


def _fill_tab(it, tab, pyop, pairs):
    """Python's own x <o> y, both orders, for every pair of non-None operands that meet"""
    for x, y in pairs:
        if x is None or y is None:
            continue
        for p, q in ((x, y), (y, x)):
            k = (it.id(p), it.id(q))
            if k in tab:
                continue
            try:
                r = pyop(p, q)
                tab[k] = "R" if r is None else it.id(r)
            except TypeError:
                tab[k] = "T"
            except Exception:
                tab[k] = "R"


def _enc_vector(it, r, reject):
    """values of a result vector as ids; the (x, y)-tuple fallback is recognised when Python
    rejected some pair and every element is a 2-tuple of operand values"""
    vals = list(r._underlying)
    if reject and vals and all(type(e) is tuple and len(e) == 2 and it.known(e[0]) and it.known(e[1]) for e in vals):
        return {"pairs": [[it.id(e[0]), it.id(e[1])] for e in vals]}
    import datetime as dt
    o = {"vals": [it.id(e) for e in vals]}
    if all(e is None or type(e) is dt.date for e in vals):
        o["ords"] = [None if e is None else e.toordinal() for e in vals]
    return o


def _tab_json(tab):
    return [[k[0], k[1], v] for k, v in tab.items()]


def _expect(tab, xs, ys, refl):
    """the property's answer at each position, in the written operand order"""
    ref = []
    for x, y in zip(xs, ys):
        if x is None or y is None:
            ref.append(None)
            continue
        e = tab[(y, x)] if refl else tab[(x, y)]
        if e in ("T", "R"):
            return "undefined"
        ref.append(e)
    return ref


def _obs_bin(case):
    import operator
    from serif import Vector, Table
    fn, form = case["fn"], case["form"]
    pyop = getattr(operator, fn)
    it = _Intern()
    a = [V.dec(t) for t in case["a"]]
    v = _mkvec(a, case.get("adt"))
    scalar = form in ("scalar", "rscalar")
    refl = form in ("rscalar", "rlist", "rvec")
    xs = [it.id(x) for x in a]
    if scalar:
        b = V.dec(case["b"])
        ys = [it.id(b)] * len(a)
        pairs = [(x, b) for x in a]
    else:
        b = [V.dec(t) for t in case["b"]]
        ys = [it.id(y) for y in b]
        pairs = list(zip(a, b))
    tab = {}
    _fill_tab(it, tab, pyop, pairs)
    if not scalar and len(a) != len(b):
        ref = "mismatch"
    else:
        ref = _expect(tab, xs, ys, refl)
    # "dates + days": Python has no date + int; the property's own reading is date + timedelta(days)
    import datetime as _dt
    if ref == "undefined" and fn == "add" and form in ("scalar", "vec") and v.schema() is not None and \
            v.schema().kind is _dt.date:
        days = [b] * len(a) if scalar else b
        if all(d is None or type(d) is int for d in days) and any(type(d) is int for d in days):
            ref = []
            for x, d in zip(a, days):
                if x is None or d is None:
                    ref.append(None)
                    continue
                try:
                    ref.append(it.id(x + _dt.timedelta(days=d)))
                except OverflowError:
                    ref = "undefined"
                    break
    o = {"xs": xs, "ys": ys[0] if scalar and ys else (it.id(b) if scalar else ys), "tab": None, "ref": ref,
         "self_kind": V.schema_obs(v.schema())}
    other = None
    if form == "rscalar":
        # a left operand written in Python may answer the operator itself instead of returning
        # NotImplemented (Fraction.__pow__ computes float(a) ** b): serif never sees the operand
        import types
        meth = getattr(type(b), f"__{fn}__", None)
        if isinstance(meth, types.FunctionType):
            try:
                own = meth(b, v)
            except Exception:
                own = NotImplemented
            if own is not NotImplemented:
                o["skip"] = f"{type(b).__name__}.__{fn}__ answers for any right operand; the vector's reflected method is not reached with this operand"
                o["tab"] = _tab_json(tab)
                return o
    try:
        if form == "vec":
            other = Vector(list(b))
            o["other_kind"] = V.schema_obs(other.schema())
            r = pyop(v, other)
        elif form == "same":
            o["other_kind"] = V.schema_obs(v.schema())
            r = pyop(v, v)
        elif form == "scalar":
            r = pyop(v, b)
        elif form == "list":
            other = tuple(b) if case.get("seq") == "tuple" else list(b)
            r = pyop(v, other)
        elif form == "rscalar":
            r = pyop(b, v)
        elif form == "rlist":
            other = tuple(b) if case.get("seq") == "tuple" else list(b)
            r = pyop(other, v)
        else:
            other = Vector(list(b))
            r = getattr(v, f"__r{fn}__")(other)
        if not isinstance(r, Vector) or isinstance(r, Table):
            o["skip"] = "the result is not a vector (the left operand's own operator answered)"
        else:
            reject = any(e == "T" for e in tab.values())
            o["res"] = _enc_vector(it, r, reject)
            o["fresh"] = r is not v and r is not other
            o["kept"] = [it.id(x) for x in v._underlying] == xs
    except Exception as e:
        o["exc"] = err_name(e)
        o["msg"] = f"{type(e).__name__}: {e}"[:160]
    o["tab"] = _tab_json(tab)
    return o


def _obs_un(case):
    import operator
    from serif import Vector
    pyop = getattr(operator, case["fn"])
    it = _Intern()
    a = [V.dec(t) for t in case["a"]]
    v = _mkvec(a, case.get("adt"))
    xs = [it.id(x) for x in a]
    tab, ref = {}, []
    for x in a:
        if x is None:
            continue
        try:
            tab[it.id(x)] = ["ok", it.id(pyop(x))]
        except TypeError:
            tab[it.id(x)] = ["T"]
        except Exception:
            tab[it.id(x)] = ["R"]
    ref = [None if x is None else tab[x] for x in xs]
    ref = "undefined" if any(r is not None and r[0] != "ok" for r in ref) else [None if r is None else r[1] for r in ref]
    o = {"xs": xs, "ref": ref}
    try:
        r = pyop(v)
        if not isinstance(r, Vector):
            o["skip"] = "not a vector"
        else:
            o["res"] = {"vals": [it.id(e) for e in r._underlying]}
            o["fresh"] = r is not v
            o["kept"] = [it.id(x) for x in v._underlying] == xs
            _chain(o, r)
    except Exception as e:
        o["exc"] = err_name(e)
        o["msg"] = f"{type(e).__name__}: {e}"[:160]
    o["tab"] = [[k, v_] for k, v_ in tab.items()]
    return o


def _chain(o, r):
    """the result is an operand like any other: one more elementwise step on it, chosen by the class of its elements (a
    broadcast method of that class)"""
    from serif import Vector
    live = [e for e in r._underlying if e is not None]
    if live and len({type(e) for e in live}) == 1 and type(live[0]) in _CHAIN:
        nxt, fn = _CHAIN[type(live[0])]
        want = [None if e is None else fn(e) for e in r._underlying]
        try:
            r2 = getattr(r, nxt)()
            got = list(r2._underlying) if isinstance(r2, Vector) else ["not a vector"]
        except Exception as e2:                              # noqa: BLE001
            got = [f"raises {type(e2).__name__}"]
        o["chain"] = {"step": nxt, "got": [repr(g) for g in got], "want": [repr(w_) for w_ in want]}


import datetime as _dtm                                     # noqa: E402
_CHAIN = {int: ("bit_length", lambda x: x.bit_length()), str: ("upper", lambda x: x.upper()), float: ("is_integer", lambda x: x.is_integer()),
          _dtm.date: ("toordinal", lambda x: x.toordinal()), _dtm.datetime: ("date", lambda x: x.date()),
          _dtm.timedelta: ("total_seconds", lambda x: x.total_seconds()), bytes: ("hex", lambda x: x.hex())}


def _obs_tab(case):
    import operator
    from serif import Vector, Table
    fn, right = case["fn"], case["right"]
    pyop = getattr(operator, fn)
    it = _Intern()
    cols = [[V.dec(t) for t in c] for c in case["cols"]]
    T = Table({f"c{j}": list(c) for j, c in enumerate(cols)})
    xs = [[it.id(x) for x in c] for c in cols]
    tab = {}
    o = {"xs": xs}
    if right == "scalar":
        b = V.dec(case["b"])
        o["ys"] = it.id(b)
        other = b
        for c in cols:
            _fill_tab(it, tab, pyop, [(x, b) for x in c])
        ref = [_expect(tab, cx, [o["ys"]] * len(cx), False) for cx in xs]
    elif right in ("vec", "list", "vec_r"):
        b = [V.dec(t) for t in case["b"]]
        o["ys"] = [it.id(y) for y in b]
        other = list(b) if right == "list" else Vector(list(b))
        for c in cols:
            _fill_tab(it, tab, pyop, list(zip(c, b)))
        ref = "mismatch" if (cols and len(b) != len(cols[0])) else [_expect(tab, cx, o["ys"], False) for cx in xs]
    else:
        b = [[V.dec(t) for t in c] for c in case["b"]]
        o["ys"] = [[it.id(y) for y in c] for c in b]
        other = Table({f"c{j}": list(c) for j, c in enumerate(b)})
        for c, d in zip(cols, b):
            _fill_tab(it, tab, pyop, list(zip(c, d)))
        if len(b) != len(cols) or (cols and b and len(b[0]) != len(cols[0])):
            ref = "mismatch"
        else:
            ref = [_expect(tab, cx, cy, False) for cx, cy in zip(xs, o["ys"])]
    if ref != "mismatch" and any(r == "undefined" for r in ref):
        ref = "undefined"
    o["ref"] = ref
    try:
        r = pyop(T, other)
        if not isinstance(r, Table):
            o["skip"] = "not a table"
        else:
            reject = any(e == "T" for e in tab.values())
            o["res"] = [_enc_vector(it, c, reject) for c in r.cols()]
            o["fresh"] = r is not T and all(rc is not c for rc in r.cols() for c in T.cols())
            o["kept"] = [[it.id(x) for x in c._underlying] for c in T.cols()] == xs
    except Exception as e:
        o["exc"] = err_name(e)
        o["msg"] = f"{type(e).__name__}: {e}"[:160]
    # table arithmetic IS the column-by-column operation: whatever `column <op> operand` gives for each column of T (a value
    # list or an error - dates + ints take the date rule, not Python's), the table operation gives the same
    try:
        colwise = []
        for j, c in enumerate(T.cols()):
            oj = other.cols()[j] if isinstance(other, Table) else other
            try:
                rc = pyop(c, oj)
                colwise.append([repr(x) for x in rc._underlying] if isinstance(rc, Vector) else ["not a vector"])
            except Exception as e:                           # noqa: BLE001
                colwise.append(["raises", err_name(e)])
        if "exc" in o:
            got = ["raises", o["exc"]]
            if colwise and all(cw[:1] != ["raises"] for cw in colwise):
                o["colwise"] = {"table": got, "columns": colwise}
        elif "res" in o:
            got = [[repr(x) for x in c._underlying] for c in r.cols()]
            if len(got) == len(colwise) and all(cw[:1] != ["raises"] for cw in colwise) and got != colwise:
                o["colwise"] = {"table": got, "columns": colwise}
    except Exception:                                        # noqa: BLE001
        pass
    o["tab"] = _tab_json(tab)
    return o


def _obs_bc(case):
    from serif import Vector
    ty, name = case["ty"], case["attr"]
    t = _types()[ty]
    it = _Intern()
    a = [V.dec(x) for x in case["vals"]]
    typed = all(x is None for x in a)               # all-None / empty: keep the element class by an explicit dtype
    v = _mkvec(a, ty if typed else None)
    args, kwargs = bc_args(ty, name)
    cls_attr = getattr(t, name, None)
    explicit = any(name in k.__dict__ for k in type(v).__mro__ if k is not Vector and k is not object)
    stale = None
    if case.get("writes") and not (not explicit and name in dir(Vector)):
        # history: read, then pairs of writes with a read after each pair; the LAST read is what is compared
        # (the earlier reads are compared by the oracle through "stale")
        call0 = explicit or callable(cls_attr)
        ref0 = bc_reference(ty, name)
        ws = case["writes"]
        for k in range(0, len(ws) + 1, 2):
            if k == len(ws):
                break
            try:
                attr0 = getattr(v, name)
                r0 = attr0(*args, **kwargs) if call0 else attr0
                if stale is None and isinstance(r0, Vector):
                    want = []
                    for x in v._underlying:
                        want.append(None if x is None else (ref0(x, *args, **kwargs) if call0 else ref0(x)))
                    got = list(r0._underlying)
                    if [repr(g) for g in got] != [repr(w) for w in want]:
                        stale = f"read #{k // 2} on {list(v._underlying)!r}: got {got!r}, expected {want!r}"[:300]
            except Exception:
                pass
            for idx, tag in ws[k:k + 2]:
                v[idx] = V.dec(tag)
        a = list(v._underlying)
    xs = [it.id(x) for x in a]
    o = {"xs": xs, "explicit": explicit, "kind": V.schema_obs(v.schema()),
         "attr_class": "AMissing" if cls_attr is None else ("ACallable" if callable(cls_attr) else "ANonCallable")}
    if stale:
        o["stale"] = stale
    if not explicit and name in dir(Vector):
        o["skip"] = f"Vector.{name} is the vector's own attribute, not a broadcast"
        return o
    call = explicit or callable(cls_attr)
    ref_fn = bc_reference(ty, name)
    tab = {}
    for x in a:
        if x is None or it.id(x) in tab:
            continue
        try:
            r = ref_fn(x, *args, **kwargs) if call else ref_fn(x)
            tab[it.id(x)] = ["ok", it.id(r)]
        except TypeError:
            tab[it.id(x)] = ["T"]
        except Exception:
            tab[it.id(x)] = ["R"]
    ref = [None if x is None else tab[x] for x in xs]
    o["ref"] = ("undefined" if any(r is not None and r[0] != "ok" for r in ref)
                else [None if r is None else r[1] for r in ref])
    try:
        attr = getattr(v, name)
        if call:
            # a bound broadcast method is a value: fetching ANOTHER attribute of the same vector before calling it changes nothing
            for second in bc_names(ty):
                if second != name and not second.startswith("from") and callable(getattr(t, second, None)):
                    try:
                        getattr(v, second)
                    except Exception:                        # noqa: BLE001
                        pass
                    break
        r = attr(*args, **kwargs) if call else attr
        if not isinstance(r, Vector):
            o["skip"] = "not a vector"
        else:
            o["res"] = {"vals": [it.id(e) for e in r._underlying]}
            o["fresh"] = r is not v
            o["kept"] = [it.id(x) for x in v._underlying] == xs
            _chain(o, r)
    except Exception as e:
        o["exc"] = err_name(e)
        o["msg"] = f"{type(e).__name__}: {e}"[:160]
    o["tab"] = [[k, v_] for k, v_ in tab.items()]
    return o


def observe(case):
    global _LIVED, _ORIGIN
    _LIVED = case.get("lived")
    _ORIGIN = case.get("origin")
    before = V.LIVED_REALISED[0]
    obefore = ORIGIN_REALISED[0]
    try:
        o = {"bin": _obs_bin, "un": _obs_un, "tab": _obs_tab, "bc": _obs_bc}[case["op"]](case)
        if _LIVED is not None:
            o["lived_ok"] = V.LIVED_REALISED[0] > before
        if _ORIGIN is not None:
            o["origin_ok"] = ORIGIN_REALISED[0] > obefore
        return o
    except Exception as e:                                   # the observer itself must never raise
        return {"broken": f"{type(e).__name__}: {e}"[:200]}


# ------------------------------------------------------------------ Coq emitter

def _cid(i):
    return "None" if i is None else f"(Some {i})"


def _cids(l):
    return clist(_cid(i) for i in l)


def _sres(e):
    return "STypeErr" if e == "T" else ("SRaise" if e == "R" else f"(SOk {e})")


def _tab2(tab):
    return clist(f"(({a}, {b}), {_sres(r)})" for a, b, r in tab)


def _tab1(tab):
    def ent(e):
        return "STypeErr" if e[0] == "T" else ("SRaise" if e[0] == "R" else f"(SOk {_cid(e[1])})")
    return clist(f"({k}, {ent(e)})" for k, e in tab)


def _obs_term(o):
    if "exc" in o:
        return "OErr"
    return _res_term(o["res"])


def _res_term(r):
    if "pairs" in r:
        return "(OPairs " + clist(f"({_cid(p[0])}, {_cid(p[1])})" for p in r["pairs"]) + ")"
    return "(OOk " + _cids(r["vals"]) + ")"


def _operand(form, ys):
    if form in ("scalar", "rscalar"):
        return f"(OScalar {ys})"
    if form in ("vec", "rvec", "same"):
        return f"(OVec {_cids(ys)})"
    return f"(OSeq {_cids(ys)})"


def _dunder(fn, form):
    return f"({'Refl' if form in ('rscalar', 'rlist', 'rvec') else 'Plain'} {COQ_OP[fn]})"


def _int_tag(t):
    return t[0] in ("i", "b")


def emit(case, obs):
    if "broken" in obs:
        return "CBad"
    if "skip" in obs:
        return "CSkip"
    op = case["op"]
    if op == "bin":
        fn, form = case["fn"], case["form"]
        if form in ("scalar", "rscalar") and obs["ys"] is None:
            return "CSkip"
        generic = (f"CVec {_dunder(fn, form)} {_tab2(obs['tab'])} {_cids(obs['xs'])} "
                   f"{_operand(form, obs['ys'])} {_obs_term(obs)}")
        sk = obs.get("self_kind")
        if fn == "add" and form in ("vec", "scalar", "list", "same") and sk and sk[0] == "KDate":
            xs = clist(copt(None if t[0] == "N" else cz(t[1])) for t in case["a"])
            if form == "scalar":
                b = case["b"]
                other = f"(DInt {cz(int(b[1]))})" if _int_tag(b) else "DOther"
            elif form in ("vec", "same"):
                ok = obs.get("other_kind")
                kind = "None" if ok is None else f"(Some {ok[0]})"
                ys = (clist(copt(None if t[0] == "N" else cz(int(t[1]))) for t in case["b"])
                      if ok and ok[0] == "KInt" else "[]")
                other = f"(DVec {kind} {ys})"
            else:
                other = "DOther"
            if "exc" in obs:
                d = "DObsErr"
            elif "ords" in obs["res"]:
                d = "(DObsOk " + clist(copt(None if x is None else cz(x)) for x in obs["res"]["ords"]) + ")"
            else:
                d = "DObsOther"
            return f"CDateAdd {xs} {other} {d} ({generic})"
        return generic
    if op == "un":
        return f"CUnary {_tab1(obs['tab'])} {_cids(obs['xs'])} {_obs_term(obs)}"
    if op == "bc":
        kind = "None" if obs["kind"] is None else f"(Some {obs['kind'][0]})"
        return (f"CBroadcast {cbool(obs['explicit'])} {kind} {obs['attr_class']} {_tab1(obs['tab'])} "
                f"{_cids(obs['xs'])} {_obs_term(obs)}")
    if op == "tab":
        right = case["right"]
        flat = [case["b"]] if right == "scalar" else (
            case["b"] if right in ("vec", "vec_r", "list") else [t for c in case["b"] for t in c])
        if case["fn"] == "add" and any(t[0] == "d" for c in case["cols"] for t in c) and \
                (any(_int_tag(t) for t in flat) or (right != "scalar" and not flat)):
            return "CSkip"        # date columns + ints take _Date.__add__ (the dateadd stream covers it)
        cols = clist(_cids(c) for c in obs["xs"])
        if right == "scalar":
            other = f"(TOther (OScalar {obs['ys']}))"
        elif right in ("vec", "vec_r"):
            other = f"(TOther (OVec {_cids(obs['ys'])}))"
        elif right == "list":
            other = f"(TOther (OSeq {_cids(obs['ys'])}))"
        else:
            other = "(TTable " + clist(_cids(c) for c in obs["ys"]) + ")"
        t = "TObsErr" if "exc" in obs else "(TObsOk " + clist(_res_term(r) for r in obs["res"]) + ")"
        return f"CTable {COQ_OP[case['fn']]} {_tab2(obs['tab'])} {cols} {other} {t}"
    return "CBad"


# ------------------------------------------------------------------ independent oracle

def _what(case):
    if case["op"] == "bin":
        return f"{case['fn']}/{case['form']} a={case['a']} b={case['b']}"
    if case["op"] == "un":
        return f"{case['fn']} a={case['a']}"
    if case["op"] == "bc":
        return f"{case['ty']}.{case['attr']} on {case['vals']}"
    return f"table {case['fn']}/{case['right']} cols={case['cols']} b={case['b']}"


def oracle(case, obs):
    if "broken" in obs:
        return f"observer-broken: {obs['broken']}"
    if "skip" in obs:
        return None
    ref = obs.get("ref")
    op = case["op"]
    if obs.get("colwise") and obs.get("ref") != "mismatch":
        return (f"tab-not-columnwise: {_what(case)}: the table operation gives {obs['colwise']['table']}, the same operation on each "
                f"column gives {obs['colwise']['columns']}")
    if obs.get("stale"):
        return f"bc-stale-after-write: {_what(case)} writes={case.get('writes')}: {obs['stale']}"
    if ref == "mismatch":
        if "exc" not in obs:
            return f"{op}-length-mismatch-accepted: {_what(case)} returned {obs.get('res')} instead of raising"
        return None
    if ref == "undefined":
        return None                                   # Python itself rejects a scalar operation: outside the domain
    if "exc" in obs:
        return f"{op}-raises: {_what(case)} raised {obs['msg']} although Python defines every scalar operation"
    res = obs["res"]
    got = [r.get("vals") for r in res] if op == "tab" else res.get("vals")
    if got != ref:
        return f"{op}-wrong-elements: {_what(case)}: result ids {got}, Python's own scalar results {ref}"
    ch = obs.get("chain")
    if ch and ch["got"] != ch["want"]:
        return (f"bc-chain: {_what(case)} is right, but the result is not a usable operand: `{ch['step']}` on it gives {ch['got']}, "
                f"Python's own elementwise results are {ch['want']}")
    if not obs.get("fresh", True):
        return f"{op}-not-a-new-vector: {_what(case)} returned one of its operands"
    if not obs.get("kept", True):
        return f"{op}-operand-changed: {_what(case)} modified its left operand"
    return None


def nontrivial(case, obs):
    if "skip" in obs or "broken" in obs:
        return False
    op = case["op"]
    if op == "bin":
        nb = 1 if case["form"] in ("scalar", "rscalar") else len(case["b"])
        return bool(case["a"]) and nb > 0 and (case["fn"] in NONCOMM or case["form"] != "vec")
    if op == "tab":
        return bool(case["cols"]) and bool(case["cols"][0])
    vals = case["a"] if op == "un" else case["vals"]
    return any(t[0] == "N" for t in vals) and any(t[0] != "N" for t in vals)


def describe(case, obs, stream):
    if "origin" in case:
        return ["origin:" + (case["origin"] if obs.get("origin_ok") else "fell back to a fresh vector")]
    if "lived" in case:
        return ["lived-in:" + ("history realised" if obs.get("lived_ok") else "fell back to a fresh vector")]
    if "skip" in obs:
        return [f"{stream}:skipped"]
    tail = "exc" if "exc" in obs else ("undefined" if obs.get("ref") == "undefined" else
                                       ("mismatch" if obs.get("ref") == "mismatch" else "defined"))
    if case["op"] == "bin":
        return [f"{stream}:{case['form']}:{tail}", f"{stream}:op-{case['fn']}"]
    if case["op"] == "bc":
        return [f"{stream}:{case['ty']}:{tail}"]
    if case["op"] == "tab":
        return [f"{stream}:{case['right']}:{tail}"]
    return [f"{stream}:{tail}"]


def shrink(case):
    op = case["op"]
    if op == "bin":
        a, b = case["a"], case["b"]
        if case["form"] in ("scalar", "rscalar"):
            for i in range(len(a)):
                yield dict(case, a=a[:i] + a[i + 1:])
        elif len(a) == len(b):
            for i in range(len(a)):
                yield dict(case, a=a[:i] + a[i + 1:], b=b[:i] + b[i + 1:])
        else:
            if len(a) > 0 and len(a) - 1 != len(b):
                yield dict(case, a=a[1:])
            if len(b) > 0 and len(b) - 1 != len(a):
                yield dict(case, b=b[1:])
            if a and b:
                yield dict(case, a=a[1:], b=b[1:])
    elif op == "un":
        a = case["a"]
        for i in range(len(a)):
            yield dict(case, a=a[:i] + a[i + 1:])
    elif op == "bc":
        a = case["vals"]
        for i in range(len(a)):
            yield dict(case, vals=a[:i] + a[i + 1:])
    elif op == "tab":
        cols = case["cols"]
        if len(cols) > 1 and case["right"] in ("scalar", "vec", "list"):
            for j in range(len(cols)):
                yield dict(case, cols=cols[:j] + cols[j + 1:])
        if cols and cols[0] and case["right"] == "scalar":
            for i in range(len(cols[0])):
                yield dict(case, cols=[c[:i] + c[i + 1:] for c in cols])


def neighbours(case, rng):
    out = []
    if case["op"] == "bin":
        for form in FORMS:
            for fn in ("sub", "pow", "add", "mul"):
                c = dict(case, form=form, fn=fn)
                if form in ("scalar", "rscalar"):
                    b = case["b"]
                    c["b"] = b if (b and not isinstance(b[0], list)) else (b[0] if b else ["i", 2])
                    if c["b"][0] == "N":
                        c["b"] = ["i", 2]
                else:
                    b = case["b"]
                    c["b"] = b if (not b or isinstance(b[0], list)) else [b] * len(case["a"])
                out.append(c)
    return out
