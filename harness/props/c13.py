"""C13 — window functions keep every row in place and agree with aggregate.

Every case is run twice on freshly built tables: t.window(...) and t.aggregate(...) with the same
arguments; the oracle joins aggregate's rows back to the input rows through each row's key (Python ==
on the key tuple) and compares with window's rows.  Streams as for C12 (exh-small, combos, shapes,
random, malformed), three PYTHONHASHSEED values under the thorough tier.
"""
import json

from harness import values as V
from harness.props import _group as G

PID = "C13"
TRANSLATE = ["EqReduce.v", "EqPartition.v"]    # translator tie: coq/gen_proofs/EqReduce.v is re-proved against the reductions regenerated from /repo
PRELUDE = ("From Coq Require Import List ZArith.\nImport ListNotations.\n"
           "From Serif Require Import Base.PyVal Model.Group Corr.GroupCase Corr.C13.")
FAILING = "C13.failing"
SHARD = 300
HASHSEEDS = {"quick": ["0"], "thorough": ["0", "1", "12345"]}
RULE = ("as C12 (exh-small, combos, shapes, random 0-10 rows x 1-3 keys by name/vector x random aggregate "
        "arguments). Distinct = canonical JSON of the case; non-trivial = >= 2 groups whose rows interleave and "
        ">= 1 None among the key or aggregated cells.")
EXHAUSTIVE = {"quick": False, "thorough": False}
EXHAUSTIVE_NOTE = ("single-key partitions are enumerated exhaustively up to 4 rows and the 64 argument subsets are "
                   "enumerated; everything else is sampled")
ASSUMED = G.ASSUMED


def streams(rng, tier):
    q = tier == "quick"
    return [
        ("exh-small", G.exhaustive_small("win")),
        ("combos", G.combos("win")),
        ("shapes", G.shapes("win")),
        ("random", [G.random_call(rng, "win") for _ in range(700 if q else 5000)]),
        ("history", G.with_history(rng, [G.random_call(rng, "win") for _ in range(250 if q else 2500)])),
        ("malformed", G.malformed("win")),
        ("classes", G.class_calls(rng, 300 if q else 3000)),   # complex / Fraction / Decimal / float / timedelta values: oracle alone
    ]


observe = G.observe


def emit(case, obs):
    if "fatal" in obs:
        return "CBad"
    if case["op"] == "cls":
        return "CSkip"                                       # decided by the oracle alone
    return G.emit_call(case, obs["win"], True)


def oracle(case, obs):
    if "fatal" in obs:
        return f"setup-raises: {obs['fatal']}"
    if case["op"] == "cls":
        return obs["win_verdict"]
    w, a = obs["win"], obs["agg"]
    if G.domain(w) != "ok":
        return None
    if "exc" in w:
        return f"window-raises: well-formed window call raised {w['msg']}"
    if "exc" in a:
        return None                                            # C12's business
    res, pre = w["res"], w["pre"]
    n = len(pre[0]) if pre else 0
    nk = len(res["over"])
    wout, aout = w["out"], a["out"]
    if any(len(c) != n for c in wout):
        return f"row-count: window result columns have lengths {[len(c) for c in wout]}, the table has {n} rows"
    if len(wout) < nk:
        return f"key-columns: window result has {len(wout)} columns for {nk} partition keys"
    for c in range(nk):
        if wout[c] != res["over"][c]:
            return f"key-columns: window key column {c} is {wout[c]}, the partition key column is {res['over'][c]}"
    if len(wout) != len(aout):
        return f"window-vs-aggregate: window has {len(wout)} columns, aggregate {len(aout)}"
    keycols = [[V.dec(t) for t in c] for c in res["over"]]
    akeys = [tuple(V.dec(aout[c][g]) for c in range(nk)) for g in range(len(aout[0]) if aout else 0)]
    for i in range(n):
        key = tuple(c[i] for c in keycols)
        gs = [g for g, k in enumerate(akeys) if k == key]
        if len(gs) != 1:
            return None                                        # aggregate's key rows are C12's business
        g = gs[0]
        for j in range(nk, len(wout)):
            if not G.close(V.dec(wout[j][i]), V.dec(aout[j][g])):
                return (f"window-vs-aggregate: row {i} (key {key!r}) has {V.dec(wout[j][i])!r} in value column "
                        f"{j - nk}, aggregate computes {V.dec(aout[j][g])!r} for that key "
                        f"(window {wout[nk:]}, aggregate {aout})")
    if w.get("post") != pre:
        return f"input-modified: table columns are {w.get('post')} after window, were {pre}"
    return None


def nontrivial(case, obs):
    if case["op"] == "cls":
        return "fatal" not in obs and any(t[0] == "N" for t in case["vals"]) and len({json.dumps(k) for k in case["keys"]}) >= 2
    if "fatal" in obs or G.domain(obs["win"]) != "ok":
        return False
    w = obs["win"]
    n = len(w["pre"][0]) if w["pre"] else 0
    return G.interleaved(G.group_by_hand(w["res"]["over"], n)) and G.has_none(w)


def describe(case, obs, stream):
    if "fatal" in obs:
        return [f"{stream}:fatal"]
    if case["op"] == "cls":
        return [f"classes:{case['cls']}"] + [f"classes:fn:{f}" for f in obs.get("ran", [])]
    w = obs["win"]
    dom = G.domain(w)
    if dom != "ok":
        return [f"{stream}:{dom}"]
    n = len(w["pre"][0]) if w["pre"] else 0
    groups = G.group_by_hand(w["res"]["over"], n)
    forms = "".join(sorted({s[0] for s in case["over"]}))
    return [f"{stream}:rows{n}", f"{stream}:groups{min(len(groups), 6)}", f"{stream}:keys{len(case['over'])}-{forms}",
            f"{stream}:{'interleaved' if G.interleaved(groups) else 'contiguous'}"]


def shrink(case):
    if case["op"] == "cls":
        for i in range(len(case["keys"])):
            yield dict(case, keys=case["keys"][:i] + case["keys"][i + 1:], vals=case["vals"][:i] + case["vals"][i + 1:])
        return
    yield from G.shrink_call(case)


def neighbours(case, rng):
    out = []
    for _ in range(10):
        c = json.loads(json.dumps(case))
        cols = c["cols"]
        n = len(cols[0]) if cols else 0
        if n >= 2:
            p = list(range(n))
            rng.shuffle(p)
            c["cols"] = [[col[i] for i in p] for col in cols]
        out.append(c)
    return out
