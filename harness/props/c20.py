"""C20 — repr never fails and never misstates shape, dtype or data.

The implementation's repr string is parsed back into the structure the model produces
(header names, per column the shown rows with the ellipsis marker, footer count /
rows x cols / dtype tokens).  Cell values in the parsed streams are sentinels whose text
identifies (column, row) under every formatter; every token is mapped to ALL (column, row,
formatter) triples that render to it with Python's own str/repr/format/isoformat.

Streams
  vec       vectors of every dtype x nullable x name pattern, lengths around the row budget
            (0, 1, h-1 .. 2h+2), set_repr_rows 0..15, negative, None, untouched
  tbl       tables 0..13 columns wide (9..13 around the column budget), homogeneous /
            heterogeneous / "only a hidden column differs", global budget x per-table override
  dots      data that looks like the markers: cells and names equal to the string '...' (ordinary
            rows and ordinary names: the markers of display.py are private objects), alone and
            together (a column NAMED '...' holding cells '...')
  hostile   NaN, +-inf, -0.0, 1e308, huge ints (also inside float columns), '', strings with
            newlines, '...', None everywhere, non-string names, lists/dicts/objects, nested
            vectors, very long, very wide: checked for totality, purity and footer only (the
            body is not parsed)
"""
import datetime as _dt
import json
import math
import re

from harness import values as V
from harness.core import cbool, clist, cnat, copt, cz, err_name

PID = "C20"
TRANSLATE = ["EqRepr.v"]     # translator tie: the row / column budget of display.py regenerated and re-proved
PRELUDE = ("From Coq Require Import List ZArith.\nImport ListNotations.\n"
           "From Serif Require Import Base.PyVal Model.Repr Corr.C20.")
FAILING = "C20.failing"
SHARD = 150
RULE = ("vectors/tables built from sentinel values (text identifies column and row) of every dtype, lengths "
        "0,1,h-1..2h+2 around the row budget h = limit//2, widths 0..13 around the column budget 5+5, "
        "set_repr_rows in {-7..15, 40, None, untouched} x per-table override; plus a hostile-value stream "
        "checked for totality/purity/footer. Distinct = canonical JSON of the case; non-trivial = the data is "
        "longer than the row budget or wider than the column budget, or the case holds a hostile value.")
EXHAUSTIVE = {"quick": False, "thorough": False}
EXHAUSTIVE_NOTE = "limits x boundary lengths x dtypes are enumerated in the thorough tier; tables are sampled"
ASSUMED = [
    "str(), repr(), isinstance on the element classes used do not raise (user classes with raising dunder "
    "methods, and ints of more than sys.get_int_max_str_digits() digits, are outside the model; for an element "
    "that is itself a serif Vector str(v) is that vector's own repr, i.e. the same function on a smaller object); "
    "the partial primitives the model tracks are: v != v / v in (inf, -inf) / int(v) / format(v, '.1f'/'g') in "
    "float columns (format of an int converts it with float(v): OverflowError beyond the float range, caught by "
    "display.py, which then shows str(v)), "
    "v.isoformat() in date columns, str methods on names; no primitive is applied to a value before its dtype "
    "branch (the row-gap marker _ROW_GAP and the hidden-columns cell _HIDDEN are private objects compared by "
    "identity, and are assumed not to be stored as data or names)",
    "`name != \"\"` on a vector's stored name returns a plain bool (names that are themselves Vectors are outside "
    "the model)",
    "distinct kinds print distinct __name__s (the header/footer logic compares dtype tokens as text)",
    "column alignment (str.ljust/rjust) and the dot-access row (.a_b, property C17) are not part of the structure",
]
LEVEL_TEXT = ("theorems (all vectors / tables, all budgets): totality (for every well-typed (C03), rectangular (C02) "
              "input), purity, footer truthfulness, exact preview and headers = stored names hold of the model of "
              "display.py with NO side condition on values or names (nested Vector elements, cells equal to '...', "
              "columns named '...', ints beyond the float range inside float columns included)")
LEVEL_NOTE = ("totality is proved relative to the declared list of partial primitives (see the assumptions); that "
              "list is the declared limit of this property")
DESIGN_REF = "DESIGN.md §4 C20"
TECHNIQUE = ("Rocq (Coq 8.16) proof over an executable model of repr (totality relative to declared partial primitives, preview / footer / "
             "header exactness); the row and column budget regenerated from source and re-proved; differential correspondence check "
             "(vm_compute case files)")

MAX_HEAD_COLS = 5
DEFAULT_ROWS = 12

KNAME = {"bool": "KBool", "int": "KInt", "float": "KFloat", "complex": "KComplex", "str": "KStr", "bytes": "KBytes",
         "datetime": "KDateTime", "date": "KDate", "list": "KList", "dict": "KDict", "tuple": "KTuple",
         "object": "KObject", "Decimal": "(KOther 0)", "Fraction": "(KOther 1)", "timedelta": "(KOther 2)",
         "U1": "(KOther 3)", "U2": "(KOther 4)", "F": "(KOther 10)", "S": "(KOther 11)", "IE": "(KOther 12)",
         "I2": "(KOther 13)", "DT2": "(KOther 14)"}
KIND_TEXT = {v: k for k, v in KNAME.items()}


# ------------------------------------------------------------------ values

def _dec(tag):
    """tags of harness.values plus ["V", [tags]] = a nested serif Vector (impl side only)."""
    if tag[0] == "V":
        from serif import Vector
        return Vector([_dec(x) for x in tag[1]])
    if tag[0] in ("l", "t"):
        xs = [_dec(x) for x in tag[1]]
        return xs if tag[0] == "l" else tuple(xs)
    return V.dec(tag)


def _has_nested(tags):
    return any(t[0] == "V" for t in tags)


def sentinel(kind, j, i):
    base = (j + 1) * 1000 + i
    if kind == "int":
        return ["i", base]
    if kind == "float":
        return ["f", (base + (0.5 if i % 2 else 0.0)).hex()]
    if kind == "str":
        return ["s", f"v{j}x{i}"]
    if kind == "date":
        return ["d", 730000 + j * 500 + i]
    if kind == "datetime":
        return ["dt", 730000 + j * 500 + i, 3600 + i]
    if kind == "bool":
        return ["b", i % 3 == 0]
    if kind == "complex":
        return ["c", float(j + 1).hex(), float(i).hex()]
    if kind == "Decimal":
        return ["Dec", f"{j + 1}.{i:03d}5"]
    if kind == "bytes":
        return ["y", f"v{j}x{i}".encode().hex()]
    if kind == "tuple":
        return ["t", [["i", base]]]
    if kind == "U1":
        return ["U1", base]
    if kind == "Fsub":
        return ["F", (base + 0.5).hex()]
    if kind == "Ssub":
        return ["S", f"v{j}x{i}"]
    if kind == "object":
        return [["i", base], ["s", f"v{j}x{i}"], ["f", (base + 0.25).hex()], ["d", 730000 + j * 500 + i]][i % 4]
    if kind == "intfloat":      # float column holding ints and bools as well
        return [["f", (base + 0.5).hex()], ["i", base], ["f", float(base).hex()]][i % 3]
    raise ValueError(kind)


KINDS = ["int", "float", "str", "date", "datetime", "bool", "complex", "Decimal", "bytes", "tuple", "U1", "Fsub",
         "Ssub", "object", "intfloat"]
NAMES = [None, ["s", ""], ["s", "na"], ["s", "Nb"], ["s", "n c"], ["s", "n-d"], ["s", "1n"], ["s", "12"],
         ["s", "count"], ["s", "na"], ["i", 7], ["f", (2.5).hex()], ["s", "\u00e9"],
         ["s", "\u65e5\u672c"], ["s", "Shape"], ["i", 0], ["s", "n__3"], ["s", "_"]]


def column(kind, j, n, nulls):
    vals = [sentinel(kind, j, i) for i in range(n)]
    if nulls == "some":
        vals = [["N"] if i % 5 == 2 else v for i, v in enumerate(vals)]
    elif nulls == "ends" and n:
        vals[0] = ["N"]
        vals[-1] = ["N"]
    return vals


def _eff(glob):
    """the row budget a glob setting leaves in force"""
    if glob == "keep" or glob[1] is None:
        return DEFAULT_ROWS
    return glob[1]


def _lengths(limit):
    h = max(limit, 0) // 2
    return sorted({x for x in (0, 1, h - 1, h, h + 1, 2 * h - 1, 2 * h, 2 * h + 1, 2 * h + 2, 2 * h + 5, limit,
                               limit + 1) if x >= 0})


GLOBS = ["keep", ["set", None]] + [["set", n] for n in list(range(0, 16)) + [-1, -7, 40]]


def streams(rng, tier):
    out = []
    thorough = tier == "thorough"
    # ---- vectors
    vec = []
    for glob in GLOBS:
        for n in _lengths(_eff(glob)):
            kinds = KINDS if thorough else rng.sample(KINDS, 3)
            for kind in kinds:
                for nulls in (("none", "some", "ends") if thorough else (rng.choice(["none", "some", "ends"]),)):
                    vec.append({"k": "vec", "vals": column(kind, 0, n, nulls), "name": rng.choice(NAMES),
                                "glob": glob, "mode": "full"})
    # typed empty vectors and every name pattern on a short vector
    for k in ("int", "float", "str"):
        vec.append({"k": "vec", "vals": [], "name": ["s", "na"], "dtype": k, "glob": "keep", "mode": "full"})
    for nm in NAMES:
        # (bool: the name 0 prints the text of format(False, 'g'), one of the texts a False cell is looked up
        # under; the parser must still take that first line for the line of the name)
        for kind in ("int", "str", "object", "bool"):
            vec.append({"k": "vec", "vals": column(kind, 0, 3, "none"), "name": nm, "glob": "keep", "mode": "full"})
    # a float column may hold ints, also ints beyond the float range (float(v) overflows)
    for glob in ("keep", ["set", 2]):
        vals = [["f", (1000.5).hex()], ["i", 10 ** 400], ["f", (1002.0).hex()], ["i", 1003], ["i", -(2 ** 1024)]]
        vec.append({"k": "vec", "vals": vals, "name": ["s", "na"], "glob": glob, "mode": "full"})
    out.append(("vec", vec))
    # ---- tables
    tbl = []
    widths = [0, 1, 2, 3, 5, 9, 10, 11, 12, 13]
    for _ in range(700 if not thorough else 9000):
        w = rng.choice(widths)
        glob = rng.choice(GLOBS)
        override = rng.choice(["keep", "keep", ["set", None]] + [["set", n] for n in list(range(0, 16)) + [-3, 30]])
        limit = _eff(glob) if override == "keep" or override[1] is None else override[1]
        n = rng.choice(_lengths(limit))
        style = rng.choice(["homog", "homog-null", "hetero", "hetero", "hidden", "nullmix"])
        base = rng.choice(KINDS)
        cols = []
        for j in range(w):
            kind, nulls = base, "none"
            if style == "homog-null":
                nulls = "some"
            elif style == "hetero":
                kind, nulls = rng.choice(KINDS), rng.choice(["none", "none", "some"])
            elif style == "hidden":       # only columns behind the "..." column differ
                if w > 2 * MAX_HEAD_COLS and MAX_HEAD_COLS <= j < w - MAX_HEAD_COLS:
                    kind, nulls = rng.choice(KINDS), rng.choice(["none", "some"])
            elif style == "nullmix":
                nulls = rng.choice(["none", "some"])
            cols.append([rng.choice(NAMES), column(kind, j, n, nulls)])
        if rng.random() < 0.15:
            for c in cols:
                c[0] = None
        tbl.append({"k": "tbl", "cols": cols, "glob": glob, "override": override, "mode": "full"})
    tbl.append({"k": "tbl", "cols": [[["s", "na"], [["f", (1000.5).hex()], ["i", 10 ** 400]]],
                                     [["s", "Nb"], [["i", 2000], ["i", 2 ** 1024]]]],
                "glob": "keep", "override": "keep", "mode": "full"})
    out.append(("tbl", tbl))
    # ---- data and names that look like the markers: '...' is a cell / a name like any other
    dots = []
    D = ["s", "..."]
    for glob in ("keep", ["set", 2], ["set", 0]):
        for vals in ([D], [D, ["s", "a"]], [["s", "a"], D, ["s", "b"]], [["i", 1], D], [["i", 1], D, ["N"]],
                     [D] * 5, [["s", f"v0x{i}"] for i in range(6)] + [D] + [["s", f"v0x{i}"] for i in range(7, 14)]):
            for nm in (None, ["s", "na"]):
                dots.append({"k": "vec", "vals": vals, "name": nm, "glob": glob, "mode": "full"})
        # a vector NAMED '...': over sentinel cells, and over cells '...' (in an object column the quoted
        # header line and the quoted cell have the same text: the parser keeps both readings)
        for kind in ("int", "str", "object"):
            dots.append({"k": "vec", "vals": column(kind, 0, 4, "none"), "name": D, "glob": glob, "mode": "full"})
        for vals in ([D, D, D], [D, ["i", 1], D], [["i", 1], D, ["i", 2], D, ["N"]]):
            dots.append({"k": "vec", "vals": vals, "name": D, "glob": glob, "mode": "full"})
        for names in ([D], [D, ["s", "na"]], [["s", "na"], D], [D, D], [None, D], [D] + [["s", f"n{j}"] for j in range(11)],
                      [["s", f"n{j}"] for j in range(5)] + [D] * 2 + [["s", f"n{j}"] for j in range(5)], [D] * 12):
            cols = [[nm, column("int" if j % 2 else "str", j, 3, "none")] for j, nm in enumerate(names)]
            dots.append({"k": "tbl", "cols": cols, "glob": glob, "override": "keep", "mode": "full"})
            cols = [[nm, [D, sentinel("int", j, 1), D]] for j, nm in enumerate(names)]
            dots.append({"k": "tbl", "cols": cols, "glob": glob, "override": "keep", "mode": "full"})
    out.append(("dots", dots))
    # ---- hostile values: totality, purity, footer
    out.append(("hostile", hostile_cases(rng, 500 if not thorough else 5000)))
    # ---- objects with a past: printed before in another state, then brought to the case's contents by in-place
    #      writes (values.lived_in / lived_in_table) and - for mutable cells - by changing the cell OBJECT in place
    #      (v[0].append(x): no write to the vector at all).  repr shows the current contents.
    past = []
    for name, cases in out:
        cand = [c for c in cases if c.get("mode") == "full" and c.get("glob") == "keep"
                and (len(c.get("vals") or []) >= 2 or (c.get("cols") and len(c["cols"][0][1]) >= 2))]
        for c in rng.sample(cand, min(len(cand), 150 if not thorough else 1500)):
            past.append(dict(c, past=rng.randrange(1 << 30)))
    for n in (2, 3, 7, 14):
        cells = [["l", [["i", 10 * i + j] for j in range(1 + i % 3)]] for i in range(n)]
        past.append({"k": "vec", "vals": cells, "name": None, "glob": "keep", "mode": "hostile", "past": 1})
        past.append({"k": "tbl", "cols": [[["s", "tags"], cells], [["s", "id"], [["i", i] for i in range(n)]]],
                     "glob": "keep", "override": "keep", "mode": "hostile", "past": 2})
        past.append({"k": "vec", "vals": [["D", [[["s", "k"], ["i", i]]]] for i in range(n)], "name": ["s", "d"],
                     "glob": "keep", "mode": "hostile", "past": 3})
    out.append(("past", past))
    # ---- tables in the state "a column was renamed through a live view and nothing has looked at the names since":
    #      repr must leave that pending state to whoever looks next (printed and never-printed twins behave alike)
    pend = []
    for n in (0, 0, 1, 3, 12):
        for w in (1, 2, 3, 13):
            cols = [[["s", f"n{j}"], column("int" if j % 2 else "str", j, n, "none")] for j in range(w)]
            pend.append({"k": "tbl", "cols": cols, "glob": "keep", "override": "keep", "mode": "full", "pending": True})
    out.append(("pending-rename", pend))
    return out


HOSTILE_FLOAT = [["f", "nan"], ["f", "inf"], ["f", "-inf"], ["f", (-0.0).hex()], ["f", (1e308).hex()],
                 ["f", (5e-324).hex()], ["f", (1.5).hex()], ["f", (2.0).hex()], ["f", (1e22).hex()], ["F", "nan"],
                 ["F", "inf"], ["i", 3], ["b", True], ["i", 10 ** 30], ["i", 2 ** 1023], ["N"]]
# ints beyond the float range: float(v) raises OverflowError (a float column may hold them)
HUGE_INTS = [["i", 10 ** 400], ["i", -(10 ** 400)], ["i", 2 ** 1024]]
HOSTILE_INT = [["i", 10 ** 400], ["i", -(2 ** 70)], ["i", 0], ["b", False], ["IE", 2], ["I2", 5], ["N"]]
HOSTILE_STR = [["s", ""], ["s", " "], ["s", "a\nb"], ["s", "\n"], ["s", "..."], ["s", "x" * 300], ["s", "None"],
               ["s", "'q'"], ["s", "a  b"], ["S", "..."], ["s", "\t"], ["s", "\u00e9\u200b"], ["N"]]
HOSTILE_DATE = [["d", 1], ["d", 3652059], ["d", 730000], ["N"]]
HOSTILE_DT = [["dt", 1, 0], ["dt", 3652059, 86399], ["d", 730000], ["DT2", 730000, 5], ["N"]]
HOSTILE_OBJ = [["N"], ["s", "..."], ["s", ""], ["i", 1], ["f", "nan"], ["f", "inf"], ["l", [["i", 1], ["s", "a"]]],
               ["l", []], ["D", [[["s", "k"], ["i", 1]]]], ["t", [["i", 1], ["i", 2]]], ["t", []], ["O"], ["U1", 3],
               ["y", "00ff"], ["c", "nan", "inf"], ["Dec", "NaN"], ["Dec", "Infinity"], ["Fr", 1, 3], ["td", 5],
               ["V", [["i", 1], ["i", 2]]], ["V", []], ["V", [["s", "..."]]], ["s", "a\nb"], ["b", True]]
HOSTILE_DEC = [["Dec", "NaN"], ["Dec", "-Infinity"], ["Dec", "1E+400"], ["Dec", "0"], ["N"]]
HOSTILE_CPX = [["c", "nan", "0x0p+0"], ["c", "inf", "-inf"], ["c", (1.0).hex(), (2.0).hex()], ["N"]]
HOSTILE_POOLS = [HOSTILE_FLOAT, HOSTILE_FLOAT, HOSTILE_INT, HOSTILE_STR, HOSTILE_DATE, HOSTILE_DT, HOSTILE_OBJ,
                 HOSTILE_OBJ, HOSTILE_DEC, HOSTILE_CPX, [["N"]]]
HOSTILE_NAMES = [None, ["s", ""], ["s", "..."], ["s", "a\nb"], ["s", "x" * 200], ["i", 1], ["i", 0], ["f", "nan"],
                 ["f", (2.5).hex()], ["b", False], ["t", [["i", 1], ["i", 2]]], ["y", "6162"], ["s", "na"], ["s", " "],
                 ["N"], ["s", "None"], ["s", "class"], ["s", "sum"], ["Dec", "1.5"], ["d", 730000]]


def hostile_cases(rng, n):
    cs = []
    globs = ["keep", ["set", 0], ["set", 1], ["set", 3], ["set", -5], ["set", None], ["set", 12], ["set", 5]]
    # fixed corner cases first
    fixed = [
        {"k": "vec", "vals": [["V", [["i", 1], ["i", 2]]], ["V", [["i", 1], ["i", 2], ["i", 3]]]], "name": None},
        {"k": "vec", "vals": [["V", [["i", 1]]], ["i", 5]], "name": None},
        {"k": "vec", "vals": [["i", 5], ["V", [["i", 1]]]], "name": ["s", "na"]},
        {"k": "vec", "vals": [["V", [["i", 1]]], ["s", "..."], ["V", [["s", "..."]]], ["N"]], "name": ["s", "..."]},
        {"k": "vec", "vals": [["f", "nan"]], "name": None},
        {"k": "vec", "vals": [["f", (1.5).hex()], ["f", "nan"]], "name": None},
        {"k": "vec", "vals": [["f", (1.5).hex()], ["i", 10 ** 400]], "name": None},
        {"k": "vec", "vals": [["i", -(10 ** 400)], ["f", (2.0).hex()], ["N"]], "name": ["s", "na"]},
        {"k": "vec", "vals": [["i", 10 ** 400]], "name": None},
        {"k": "tbl", "cols": [[["s", "a"], [["f", (1.5).hex()], ["i", 2 ** 1024]]], [["s", "b"], [["i", 1], ["i", 2]]]],
         "override": "keep"},
        {"k": "tbl", "cols": [[["s", "..."], [["i", 5], ["V", [["i", 1]]], ["s", "..."]]],
                              [["s", "..."], [["s", "..."], ["s", "x"], ["s", "..."]]]], "override": "keep"},
        {"k": "vec", "vals": [["f", "inf"], ["f", "-inf"], ["N"]], "name": ["i", 1]},
        {"k": "vec", "vals": [["N"]] * 30, "name": None},
        {"k": "vec", "vals": [["i", i] for i in range(4000)], "name": ["s", "long"]},
        {"k": "vec", "vals": [["f", float(i).hex()] for i in range(3000)] + [["f", "nan"]], "name": None},
        {"k": "tbl", "cols": [[["i", j], [["i", j], ["N"]]] for j in range(300)], "override": "keep"},
        {"k": "tbl", "cols": [[["i", 1], [["i", 1], ["i", 2]]]], "override": "keep"},
        {"k": "tbl", "cols": [[None, []], [None, []]], "override": "keep"},
        {"k": "tbl", "cols": [], "override": "keep"},
        {"k": "tbl", "cols": [[["s", "a"], [["V", [["i", 1]]], ["i", 5]]], [["s", "b"], [["i", 1], ["i", 2]]]],
         "override": "keep"},
        {"k": "tbl", "cols": [[["s", "b"], [["i", 1], ["i", 2]]], [["s", "a"], [["V", [["i", 1]]], ["i", 5]]]],
         "override": "keep"},
        {"k": "tbl", "cols": [[["s", "a"], [["f", "nan"], ["f", "inf"]]], [["f", "nan"], [["N"], ["N"]]]],
         "override": ["set", 1]},
        # an EMPTY Vector as the first cell has shape (): the table stays two-dimensional
        {"k": "tbl", "cols": [[["s", "a"], [["V", []], ["i", 5]]], [["s", "b"], [["i", 1], ["i", 2]]]],
         "override": "keep"},
        # Vector([Vector([x])]) is itself a Table: a table of tables (observe marks it tensor_cols; totality and
        # purity only)
        {"k": "tbl", "cols": [[None, [["V", [["s", "..."]]]]], [None, [["i", 2]]], [None, [["i", 3]]]],
         "override": "keep"},
    ]
    for c in fixed:
        for glob in ("keep", ["set", 1]):
            cs.append(dict(c, glob=glob, mode="hostile"))
    for _ in range(n):
        glob = rng.choice(globs)
        if rng.random() < 0.55:
            pool = rng.choice(HOSTILE_POOLS)
            ln = rng.choice([1, 1, 2, 3, 5, 12, 13, 14, 30])
            vals = [rng.choice(pool) for _ in range(ln)]
            if pool is HOSTILE_FLOAT and rng.random() < 0.08:      # a float column holding an int beyond the range
                vals[rng.randrange(ln)] = rng.choice(HUGE_INTS)
            cs.append({"k": "vec", "vals": vals, "name": rng.choice(HOSTILE_NAMES),
                       "glob": glob, "mode": "hostile"})
        else:
            w = rng.choice([1, 2, 3, 10, 11, 12, 25])
            ln = rng.choice([0, 1, 2, 3, 13])
            cols = []
            for _j in range(w):
                pool = rng.choice(HOSTILE_POOLS)
                cols.append([rng.choice(HOSTILE_NAMES), [rng.choice(pool) for _ in range(ln)]])
            cs.append({"k": "tbl", "cols": cols, "glob": glob,
                       "override": rng.choice(["keep", ["set", 0], ["set", 1], ["set", 2], ["set", -1], ["set", 7]]),
                       "mode": "hostile"})
    return cs


# ------------------------------------------------------------------ implementation side

def _snap_vec(v):
    return {"vals": [V.enc(x) for x in v._underlying], "dt": V.schema_obs(v.schema()), "name": V.enc(v.name),
            "fp": v.fingerprint(), "len": len(v), "cls": type(v).__name__}


def _snap(obj, is_tbl):
    if not is_tbl:
        return _snap_vec(obj)
    return {"cols": [_snap_vec(c) for c in obj.cols()], "fp": obj.fingerprint(), "len": len(obj),
            "names": [V.enc(n) for n in obj.column_names()], "rr": obj._repr_rows, "shape": list(obj.shape)}


def _same_contents(a, b, is_tbl):
    """snapshots agree on everything but the fingerprint MEMO (a mutable cell changed in place leaves it as it was)"""
    def strip(x):
        if isinstance(x, dict):
            return {k: strip(v) for k, v in x.items() if k != "fp"}
        if isinstance(x, list):
            return [strip(v) for v in x]
        return x
    return strip(_snap(a, is_tbl)) == strip(_snap(b, is_tbl))


def _with_past(case):
    """the case's object, but one that was printed before while it held other contents (None if that cannot be done)"""
    from serif import Table, Vector

    def shorten(vals):
        """mutable cells lose their last item now and get it back IN PLACE after the first repr"""
        later = []
        for x in vals:
            if isinstance(x, list) and x:
                later.append((x, "l", x.pop()))
            elif isinstance(x, dict) and x:
                k = next(reversed(x))
                later.append((x, "d", (k, x.pop(k))))
        return later

    def restore(later):
        for x, kind, item in later:
            if kind == "l":
                x.append(item)
            else:
                x[item[0]] = item[1]
    try:
        if case["k"] == "vec":
            kw = {}
            if case.get("dtype"):
                kw["dtype"] = {"int": int, "float": float, "str": str}[case["dtype"]]
            nm = None if case["name"] is None else _dec(case["name"])
            vals = [_dec(x) for x in case["vals"]]
            if any(isinstance(x, (list, dict)) and x for x in vals):
                later = shorten(vals)
                v = Vector(vals, name=nm, **kw)
                repr(v)
                restore(later)
                return v
            return V.lived_in(lambda xs: Vector(xs, name=nm, **kw), vals, case["past"])
        names = [None if nm is None else _dec(nm) for nm, _ in case["cols"]]
        cols = [[_dec(x) for x in vals] for _, vals in case["cols"]]
        if any(isinstance(x, (list, dict)) and x for c in cols for x in c):
            later = [it for c in cols for it in shorten(c)]
            t = Table([Vector(c, name=nm) for nm, c in zip(names, cols)])
            repr(t)
            restore(later)
            return t
        t, ok = V.lived_in_table(lambda cs: Table([Vector(list(c), name=nm) for nm, c in zip(names, cs)]), cols,
                                 case["past"], warm=lambda tt: repr(tt))
        return t if ok else None
    except Exception:                                        # noqa: BLE001
        return None


def observe(case):
    import serif
    import serif.display as D
    from serif import Table, Vector
    out = {}
    try:
        if case["glob"] != "keep":
            serif.set_repr_rows(case["glob"][1])
        is_tbl = case["k"] == "tbl"
        if case.get("past") is not None:
            obj0 = _with_past(case)
        else:
            obj0 = None
        if is_tbl:
            cols = [Vector([_dec(x) for x in vals], name=None if nm is None else _dec(nm)) for nm, vals in case["cols"]]
            obj = Table(cols) if cols else Table()
            if obj0 is not None and isinstance(obj0, Table) and _same_contents(obj0, obj, True):
                fresh_obj = obj
                obj, cols = obj0, list(obj0.cols())
                out["past_ok"] = True
            # Vector([Vector, ...]) of equal lengths is itself a Table: a "column" that is a table makes the
            # object a table of tables (a tensor), which is neither a vector nor a table of columns
            out["tensor_cols"] = any(isinstance(c, Table) for c in cols)
            if case["override"] != "keep":
                obj._repr_rows = case["override"][1]
                if out.get("past_ok"):
                    fresh_obj._repr_rows = case["override"][1]
            out["schema"] = [V.schema_obs(c.schema()) for c in obj.cols()]
            out["shape"] = [int(x) for x in obj.shape]
            out["istable"] = isinstance(obj, Table)
        else:
            kw = {}
            if case.get("dtype"):
                kw["dtype"] = {"int": int, "float": float, "str": str}[case["dtype"]]
            obj = Vector([_dec(x) for x in case["vals"]], name=None if case["name"] is None else _dec(case["name"]), **kw)
            if obj0 is not None and not isinstance(obj0, Table) and _same_contents(obj0, obj, False):
                fresh_obj = obj
                obj = obj0
                out["past_ok"] = True
            out["schema"] = V.schema_obs(obj.schema())
            out["istable"] = isinstance(obj, Table)
        twin = None
        if case.get("pending") and is_tbl:
            def pending():
                t = Table([Vector([_dec(x) for x in vals], name=_dec(nm) + "_old") for nm, vals in case["cols"]])
                for nm, _ in case["cols"]:                   # the names are looked at: the lookup tables exist
                    getattr(t, _dec(nm) + "_old")
                dir(t)
                for c, (nm, _) in zip(t.cols(), case["cols"]):
                    c.name = _dec(nm)                        # renamed through the live column view: pending
                return t
            obj, twin = pending(), pending()
            cols = list(obj.cols())
        out["limit"] = getattr(D, "_REPR_ROWS_DEFAULT", None)
        before = _snap(obj, is_tbl) if twin is None else None
        try:
            s = repr(obj)
            if not isinstance(s, str):
                out["exc"] = "OtherError"
                out["msg"] = f"repr returned {type(s).__name__}"
            else:
                out["repr"] = s
                out["same"] = (repr(obj) == s)
                if out.get("past_ok"):
                    fr = repr(fresh_obj)
                    if fr != s:
                        out["stale"] = [s[:300], fr[:300]]
        except Exception as e:
            out["exc"] = err_name(e)
            out["msg"] = f"{type(e).__name__}: {e}"[:160]
        if twin is not None:
            def behaviour(t):
                names = [_dec(nm) for nm, _ in case["cols"]]
                return {"new": [hasattr(t, nm) for nm in names], "old": [hasattr(t, nm + "_old") for nm in names],
                        "dir": sorted(x for x in dir(t) if x.startswith("n") and x[1:2].isdigit()),
                        "snap": _snap(t, True)}
            b1, b2 = behaviour(obj), behaviour(twin)
            out["pure"] = b1 == b2
            if not out["pure"]:
                out["impure"] = [f"after repr the table answers {k}={b1[k]!r}; its never-printed twin {b2[k]!r}"[:300]
                                 for k in b1 if b1[k] != b2[k]]
            return out
        after = _snap(obj, is_tbl)
        out["pure"] = (before == after) and getattr(D, "_REPR_ROWS_DEFAULT", None) == out["limit"]
        if not out["pure"]:
            out["impure"] = [k for k in before if before[k] != after[k]]
    except Exception as e:
        out = {"skip": f"construction failed: {type(e).__name__}: {e}"[:160]}
    finally:
        serif.set_repr_rows(None)
    return out


# ------------------------------------------------------------------ parsing the string back

FMTS = ("FmtNone", "FmtFix1", "FmtG", "FmtStr", "FmtRepr", "FmtIso")


def renderings(v):
    """fmt -> text, with Python's own formatting primitives (those that are defined on v)."""
    if v is None:
        return {"FmtNone": "None"}
    out = {}
    for name, f in (("FmtFix1", lambda: f"{v:.1f}"), ("FmtG", lambda: f"{v:g}"), ("FmtStr", lambda: str(v)),
                    ("FmtRepr", lambda: repr(v)), ("FmtIso", lambda: v.isoformat())):
        try:
            out[name] = f()
        except Exception:
            pass
    return out


def _nameset(nm):
    if nm is None:
        return {"''"}                       # an unnamed column among named ones is shown as ''
    v = V.dec(nm)
    if v is None:
        return {"''"}
    return {str(v), repr(v), repr(str(v))}     # tables show str(name), quoted when it is no identifier


def _cells(line):
    s = line.strip()
    return re.split(r" {2,}", s) if s else []


def _parse_tok(tok):
    m = re.fullmatch(r"([^<>?\[\],]+?)(\?)?", tok)
    if not m:
        return None
    return [KNAME.get(m.group(1), "(KOther 99)"), bool(m.group(2))]


_PARSE_CACHE = {}


def parse(case, obs):
    key = id(obs)
    hit = _PARSE_CACHE.get(key)
    if hit is not None and hit[0] is obs:
        return hit[1]
    p = _parse(case, obs)
    if len(_PARSE_CACHE) > 20000:
        _PARSE_CACHE.clear()
    _PARSE_CACHE[key] = (obs, p)
    return p


def reading(case, obs):
    """the reading of the repr string that is judged: where the first line can be read both as the line of
    names and as a data line (a column NAMED '...' over object cells '...': both print '...' in quotes),
    parse() returns the likelier reading with the other one under "alt"; the string is held against the
    property under the reading that satisfies it, if one does."""
    p = parse(case, obs)
    if "alt" in p:
        if "pick" not in p:
            p["pick"] = "alt" if (_judge(case, obs, p) is not None and _judge(case, obs, p["alt"]) is None) else "main"
        if p["pick"] == "alt":
            return p["alt"]
    return p


def _parse(case, obs):
    """-> dict; {"bad": why} when the string has no recognisable shape."""
    s = obs["repr"]
    full = case["mode"] == "full"
    lines = s.split("\n")
    foot = lines[-1]
    if case["k"] == "vec":
        if s == "# empty (repr not yet implemented)" or s == "# empty":
            return {"form": "empty"}
        m = re.fullmatch(r"# (\d+) element vector <(.+)>", foot)
        if not m or _parse_tok(m.group(2)) is None:
            return {"bad": f"footer {foot!r}"}
        p = {"form": "lines", "count": int(m.group(1)), "dt": _parse_tok(m.group(2))}
        if not full:
            return p
        if len(lines) < 2 or lines[-2] != "":
            return {"bad": "no blank line before the footer"}
        toks = [l.strip() for l in lines[:-2]]
        vals = [V.dec(t) for t in case["vals"]]
        rend = {}
        for i, v in enumerate(vals):
            for f, text in renderings(v).items():
                rend.setdefault(text, []).append((0, i, f))
        nm = None if case["name"] is None else V.dec(case["name"])
        named = nm is not None and nm != ""

        def build(hdr, wrong=None):
            q = dict(p)
            q["hdr"] = hdr
            if wrong is not None:
                q["hdr_wrong"] = wrong
            body = toks[1:] if hdr else toks
            q["body"] = [[(t == "..."), rend.get(t, [])] for t in body]
            q["toks"] = body
            return q

        if not toks:
            return build(False)
        is_data = toks[0] in rend or toks[0] == "..."
        is_name = case["name"] is not None and toks[0] in _nameset(case["name"])
        if is_name and is_data:            # e.g. named '...' over object cells '...': both readings are kept
            a, b = build(True), build(False)
            main, alt = (a, b) if named else (b, a)
            main["alt"] = alt
            return main
        if is_name:
            return build(True)
        if is_data:
            return build(False)
        return build(True, toks[0])        # a first line that is no data line: a header showing something else
    # ---- table
    if s == "# 0\u00d70 table":
        return {"form": "empty"}
    if re.fullmatch(r"# \d+(\u00d7\d+){2,} tensor <.+> \(repr not yet implemented\)", s):
        return {"form": "tensor", "dims": [int(x) for x in re.findall(r"\d+", s.split(" tensor")[0])]}
    m = re.fullmatch(r"# (\d+)\u00d7(\d+) table <(.+)>", foot)
    if not m:
        return {"bad": f"footer {foot!r}"}
    p = {"form": "table", "rows": int(m.group(1)), "cols": int(m.group(2))}
    t = m.group(3)
    if t == "mixed":
        p["ftys"] = "mixed"
    elif ", " in t:
        parts = [None if x == "..." else _parse_tok(x) for x in t.split(", ")]
        if any(x is None and raw != "..." for x, raw in zip(parts, t.split(", "))):
            return {"bad": f"footer types {t!r}"}
        p["ftys"] = ["list", parts]
    else:
        if _parse_tok(t) is None:
            return {"bad": f"footer types {t!r}"}
        p["ftys"] = ["one", _parse_tok(t)]
    if not full:
        return p
    if len(lines) < 2 or lines[-2] != "":
        return {"bad": "no blank line before the footer"}
    rows = [_cells(l) for l in lines[:-2]]
    rend = {}
    for j, (_nm, tags) in enumerate(case["cols"]):
        for i, tg in enumerate(tags):
            for f, text in renderings(V.dec(tg)).items():
                rend.setdefault(text, []).append((j, i, f))
    namesets = [_nameset(nm) for nm, _ in case["cols"]]

    def is_types(r):
        return r and all(re.fullmatch(r"\[[^\[\]]+\]", x) or x == "..." for x in r) and any(x != "..." for x in r)

    def is_dot(r):
        return r and all(re.fullmatch(r"\.[a-z0-9_]+", x) or x == "..." for x in r) and any(x != "..." for x in r)

    def is_body(r):
        return all(x in rend or x == "..." for x in r)

    def build(first_is_names):
        q = dict(p)
        k = 0
        q["disp"] = None
        q["types"] = None
        if first_is_names:
            q["disp"] = [[x == "...", [j for j, ns in enumerate(namesets) if x in ns]] for x in rows[0]]
            q["disp_toks"] = rows[0]
            k = 1
        if k < len(rows) and is_dot(rows[k]):
            k += 1
        if k < len(rows) and is_types(rows[k]):
            tr = []
            for x in rows[k]:
                tr.append(None if x == "..." else _parse_tok(x[1:-1]))
            q["types"] = tr
            k += 1
        body = rows[k:]
        width = len(body[0]) if body else 0
        if any(len(r) != width for r in body):
            return {"bad": "body lines have different numbers of cells"}
        q["body"] = [[[r[c] == "...", rend.get(r[c], [])] for r in body] for c in range(width)]
        q["body_toks"] = [[r[c] for r in body] for c in range(width)]
        q["nbody"] = len(body)
        return q

    if not rows or is_types(rows[0]) or is_dot(rows[0]):
        return build(False)
    if not is_body(rows[0]):
        return build(True)
    if all(x == "..." or any(x in ns for ns in namesets) for x in rows[0]):
        # every cell of the first line is both a data text and a name text (columns NAMED '...' over object
        # cells '...'; the bare "..." of a marker): keep both readings, the likelier one first
        ncols = len(case["cols"])
        shown = list(range(ncols)) if ncols <= 2 * MAX_HEAD_COLS else \
            list(range(MAX_HEAD_COLS)) + list(range(ncols - MAX_HEAD_COLS, ncols))
        texts = [None if nm is None else V.dec(nm) for nm, _ in case["cols"]]
        expect_names = any(texts[j] is not None and str(texts[j]) != "" for j in shown)
        a, b = build(True), build(False)
        main, alt = (a, b) if expect_names else (b, a)
        if "bad" in main:
            return alt
        if "bad" not in alt:
            main["alt"] = alt
        return main
    return build(False)


# ------------------------------------------------------------------ Coq emitter

def _beyond_float(v):
    try:
        float(v)
        return False
    except OverflowError:
        return True


def _shape(tag):
    if tag[0] == "N":
        return "None"
    if tag[0] == "V":
        return f"(Some (VVector {cbool(len(tag[1]) > 0)}))"     # its .shape is (len,), or () when empty
    v = V.dec(tag)
    if isinstance(v, float):
        if math.isnan(v):
            c = "FNan"
        elif v == math.inf:
            c = "FPosInf"
        elif v == -math.inf:
            c = "FNegInf"
        else:
            c = f"(FFinite {cbool(v == int(v))})"
        return f"(Some (VFloat {c}))"
    if isinstance(v, int):
        return f"(Some (VIntLike {cbool(_beyond_float(v))}))"
    if isinstance(v, _dt.date):
        return "(Some VDateLike)"
    if isinstance(v, str):
        return f"(Some (VStr {cbool(v == '...')}))"
    return "(Some VOther)"


def _nobj(nm):
    if nm is None:
        return "None"
    v = V.dec(nm)
    if v is None:
        return "None"
    text = str(v)
    ctor = "NStr" if isinstance(v, str) else "NNonStr"
    return f"(Some ({ctor} {cbool(text == '')} {cbool(text == '...')}))"


def _odt(o):
    return "None" if o is None else f"(Some {V.coq_dtype(o)})"


def _vec_term(nm, schema, tags):
    return f"(mkVec {_nobj(nm)} {_odt(schema)} {clist(_shape(t) for t in tags)})"


def _oitem(it, col=None):
    """col: the table column this body position shows under the column budget (the only one the checker
    compares the token with); without it the candidate list is cut at 200"""
    e, cands = it
    if col is not None:
        cands = [c for c in cands if c[0] == col]
    return f"OI {cbool(e)} {clist(f'({cnat(j)}, {cnat(i)}, {f})' for j, i, f in cands[:200])}"


def _body_cols(ncols, width):
    """the table column shown at each body position (None: the column of hidden columns), when the body has
    the width the column budget gives; else no hint"""
    if ncols > 2 * MAX_HEAD_COLS:
        js = list(range(MAX_HEAD_COLS)) + [-1] + list(range(ncols - MAX_HEAD_COLS, ncols))
    else:
        js = list(range(ncols))
    return js if len(js) == width else [None] * width


def _glob_z(case):
    return cz(_eff(case["glob"]))


def emit(case, obs):
    if "skip" in obs:
        return "CSkip"
    full = case["mode"] == "full"
    if case["k"] == "vec":
        if obs.get("istable"):
            return "CSkip"
        v = _vec_term(case["name"], obs["schema"], case["vals"])
        if "exc" in obs:
            o = "OVExn"
        else:
            p = reading(case, obs)
            if "bad" in p:
                o = "OVBad"
            elif p["form"] == "empty":
                o = "OVEmpty"
            else:
                hdr = copt(cbool(p["hdr"])) if full else "None"
                body = f"(Some {clist(_oitem(x) for x in p['body'])})" if full else "None"
                o = f"(OVLines {hdr} {body} {cnat(min(p['count'], 4999))} {V.coq_dtype(p['dt'])})"
        return f"CVec {_glob_z(case)} {v} {o}"
    if obs.get("tensor_cols"):
        return "CSkip"
    cols = clist(_vec_term(nm, sc, tags) for (nm, tags), sc in zip(case["cols"], obs["schema"]))
    ov = case["override"]
    rr = "None" if ov == "keep" or ov[1] is None else f"(Some {cz(ov[1])})"
    t = f"(mkTbl {cols} {rr})"
    if "exc" in obs:
        o = "OTExn"
    else:
        p = reading(case, obs)
        if "bad" in p:
            o = "OTBad"
        elif p["form"] == "empty":
            o = "OTEmpty"
        elif p["form"] == "tensor":
            o = "OTTensor"
        else:
            if p["ftys"] == "mixed":
                ft = "FMixed"
            elif p["ftys"][0] == "one":
                ft = f"(FOne {V.coq_dtype(p['ftys'][1])})"
            else:
                ft = f"(FList {clist(_odt(x) for x in p['ftys'][1])})"
            if full:
                disp = "None" if p["disp"] is None else \
                    "(Some " + clist(f"OH {cbool(e)} {clist(cnat(j) for j in js)}" for e, js in p["disp"]) + ")"
                types = "None" if p["types"] is None else "(Some " + clist(_odt(x) for x in p["types"]) + ")"
                js = _body_cols(len(case["cols"]), len(p["body"]))
                body = "None" if p["nbody"] == 0 else \
                    "(Some " + clist(clist(_oitem(x, j) for x in colb) for colb, j in zip(p["body"], js)) + ")"
                parts = f"(Some {disp}) (Some {types}) {body}"
            else:
                parts = "None None None"
            o = f"(OTTable {parts} {cnat(min(p['rows'], 4999))} {cnat(min(p['cols'], 4999))} {ft})"
    return f"CTbl {_glob_z(case)} {t} {o}"


# ------------------------------------------------------------------ independent oracle

def _tok_text(schema):
    """the text a true dtype prints as: kind name, '?' iff nullable; an untyped column prints 'object'"""
    if schema is None:
        return ["KObject", False]
    return [schema[0], bool(schema[1])]


def _expected_rows(n, limit):
    """-> list of admissible shown-row lists (row index or '...') for n rows under row budget `limit`:
    longer than the budget: exactly the first and last budget//2 rows around an ellipsis; shorter: every
    row; equal: the text allows either."""
    leff = max(limit, 0)
    h = leff // 2
    whole = list(range(n))
    cut = list(range(h)) + ["..."] + list(range(n - h, n))
    if n > leff:
        return [cut]
    if n < leff:
        return [whole]
    return [whole, cut]


def _row_check(toks, exp_lists, vals, where):
    """toks: the body tokens of one column; vals: its Python values."""
    for exp in exp_lists:
        if len(exp) != len(toks):
            continue
        ok = True
        for tok, e in zip(toks, exp):
            if e == "...":
                ok = ok and tok == "..."
            else:
                ok = ok and tok in renderings(vals[e]).values()
            if not ok:
                break
        if ok:
            return None
    shown = ", ".join(toks[:8]) + (" ..." if len(toks) > 8 else "")
    want = " or ".join("[" + ", ".join(str(x) for x in (e[:4] + ["\u2026"] + e[-3:] if len(e) > 8 else e)) + "]"
                       for e in exp_lists)
    return f"preview: {where} with {len(vals)} rows shows {len(toks)} line(s) [{shown}], expected rows {want}"


def oracle(case, obs):
    if "skip" in obs or obs.get("istable") != (case["k"] == "tbl"):
        return None
    is_tbl = case["k"] == "tbl"
    if "exc" in obs:
        return f"raises: repr raised {obs['msg']}"
    if not obs["pure"]:
        return f"impure: repr changed the object ({obs.get('impure')})"
    if not obs["same"]:
        return "impure: two consecutive repr() calls gave different strings"
    if obs.get("stale"):
        return (f"stale: the object was printed before in another state; its repr now is {obs['stale'][0]!r}, a freshly "
                f"built object with the same contents prints {obs['stale'][1]!r}")
    if obs.get("tensor_cols"):
        return None                       # a table of tables: totality and purity only
    return _judge(case, obs, reading(case, obs))


def _judge(case, obs, p):
    """the property, stated on one reading of the repr string"""
    is_tbl = case["k"] == "tbl"
    if "bad" in p:
        return f"footer: unrecognisable repr ({p['bad']})"
    full = case["mode"] == "full"
    if not is_tbl:
        n = len(case["vals"])
        if p["form"] == "empty":
            return None if n == 0 else f"footer: says empty, the vector has {n} element(s)"
        if p["count"] != n:
            return f"footer: says {p['count']} element(s), the vector has {n}"
        if p["dt"] != _tok_text(obs["schema"]):
            return f"footer: says dtype {p['dt']}, the schema is {obs['schema']}"
        if not full:
            return None
        nm = None if case["name"] is None else V.dec(case["name"])
        if nm is not None and nm != "":
            if not p["hdr"] or "hdr_wrong" in p:
                return f"headers: the vector is named {nm!r}, the header line shows {p.get('hdr_wrong', 'nothing')!r}"
        vals = [V.dec(t) for t in case["vals"]]
        return _row_check(p["toks"], _expected_rows(n, _eff(case["glob"])), vals, "a vector")
    # ---- table
    ncols = len(case["cols"])
    nrows = len(case["cols"][0][1]) if ncols else 0
    if p["form"] == "empty":
        return None if ncols == 0 else f"footer: says 0\u00d70, the table is {nrows}\u00d7{ncols}"
    if p["form"] == "tensor":
        if p["dims"][:2] != [nrows, ncols]:
            return f"footer: says {p['dims']}, the table is {nrows}\u00d7{ncols}"
        return None
    if (p["rows"], p["cols"]) != (nrows, ncols):
        return f"footer: says {p['rows']}\u00d7{p['cols']}, the table is {nrows}\u00d7{ncols}"
    true = [_tok_text(sc) for sc in obs["schema"]]
    wide = ncols > 2 * MAX_HEAD_COLS
    shown_cols = list(range(MAX_HEAD_COLS)) + ["..."] + list(range(ncols - MAX_HEAD_COLS, ncols)) if wide \
        else list(range(ncols))
    if p["ftys"] == "mixed":
        if full:
            want = [None if j == "..." else true[j] for j in shown_cols]
            if p["types"] is None:
                return "footer: says <mixed> but the header carries no dtype row"
            if p["types"] != want:
                return f"footer: header dtype row {p['types']} but the shown columns have {want}"
    elif p["ftys"][0] == "one":
        bad = [j for j, tk in enumerate(true) if tk != p["ftys"][1]]
        if bad:
            return f"footer: says every column is {p['ftys'][1]} but column {bad[0]} has {true[bad[0]]}"
    else:
        want = [None if j == "..." else true[j] for j in shown_cols]
        if p["ftys"][1] != want and p["ftys"][1] != true:
            return f"footer: dtype list {p['ftys'][1]} but the columns have {want}"
    if not full:
        return None
    if full and p["types"] is not None:
        want = [None if j == "..." else true[j] for j in shown_cols]
        if p["types"] != want:
            return f"footer: header dtype row {p['types']} but the shown columns have {want}"
    # headers show the stored names
    names = [None if nm is None else V.dec(nm) for nm, _ in case["cols"]]
    has_text = [nm is not None and str(nm) != "" for nm in names]
    if any(has_text[j] for j in shown_cols if j != "..."):
        if p["disp"] is None:
            return f"headers: no row of names although the columns are named {[names[j] for j in shown_cols if j != '...'][:6]}"
        if len(p["disp_toks"]) != len(shown_cols):
            return f"headers: {len(p['disp_toks'])} header cell(s) for {len(shown_cols)} shown column(s)"
        for tok, j in zip(p["disp_toks"], shown_cols):
            if j == "...":
                if tok != "...":
                    return f"headers: the hidden columns are marked {tok!r}"
            elif has_text[j] and tok not in _nameset(case["cols"][j][0]):
                return f"headers: column {j} is named {names[j]!r} but its header shows {tok!r}"
    # body: the right columns, the right rows
    ov = case["override"]
    limit = _eff(case["glob"]) if ov == "keep" or ov[1] is None else ov[1]
    exp = _expected_rows(nrows, limit)
    if len(p["body_toks"]) != len(shown_cols):
        if nrows == 0 and not p["body_toks"]:
            return None
        if p["nbody"] == 0 and any(len(e) == 0 for e in exp):
            return None
        return f"preview: {len(p['body_toks'])} body column(s) for {len(shown_cols)} shown column(s)"
    for toks, j in zip(p["body_toks"], shown_cols):
        if j == "...":
            if any(t != "..." for t in toks) or not any(len(toks) == len(e) for e in exp):
                return f"preview: the column of hidden columns shows {toks[:6]}"
            continue
        vals = [V.dec(t) for t in case["cols"][j][1]]
        why = _row_check(toks, exp, vals, f"column {j}")
        if why:
            return why
    return None


# ------------------------------------------------------------------ bookkeeping

def _hostile_tag(t):
    if t[0] == "f" or t[0] == "F":
        x = float.fromhex(t[1]) if t[1] not in ("nan", "inf", "-inf") else float(t[1])
        return not math.isfinite(x) or abs(x) >= 1e300 or (x == 0 and math.copysign(1, x) < 0)
    if t[0] == "s":
        return t[1] in ("", "...") or "\n" in t[1] or len(t[1]) > 100
    if t[0] == "i":
        return abs(t[1]) > 2 ** 64
    return t[0] in ("V", "l", "D", "O")


def nontrivial(case, obs):
    if "skip" in obs:
        return False
    if case["k"] == "vec":
        n = len(case["vals"])
        tags = case["vals"]
        limit = _eff(case["glob"])
        wide = False
    else:
        n = len(case["cols"][0][1]) if case["cols"] else 0
        tags = [t for _, vs in case["cols"] for t in vs]
        ov = case["override"]
        limit = _eff(case["glob"]) if ov == "keep" or ov[1] is None else ov[1]
        wide = len(case["cols"]) > 2 * MAX_HEAD_COLS
    return n > max(limit, 0) or wide or any(_hostile_tag(t) for t in tags[:2000])


def describe(case, obs, stream):
    if "skip" in obs:
        return [f"{stream}:skipped"]
    out = [f"{stream}:{case['k']}"]
    if "exc" in obs:
        out.append(f"{stream}:exc")
    g = case["glob"]
    out.append("glob:" + ("untouched" if g == "keep" else str(g[1])))
    if case["k"] == "tbl":
        out.append(f"width:{min(len(case['cols']), 14)}")
        ov = case["override"]
        out.append("override:" + ("none" if ov == "keep" else str(ov[1])))
        if "repr" in obs and case["mode"] == "full":
            p = parse(case, obs)
            if p.get("form") == "table":
                out.append("footer:" + (p["ftys"] if p["ftys"] == "mixed" else p["ftys"][0]))
    return out


def shrink(case):
    if case["k"] == "vec":
        vals = case["vals"]
        if len(vals) > 40:
            yield dict(case, vals=vals[:len(vals) // 2])
        for i in range(min(len(vals), 30) - 1, -1, -1):
            yield dict(case, vals=vals[:i] + vals[i + 1:])
        if case["name"] is not None:
            yield dict(case, name=None)
        if case["glob"] != "keep":
            yield dict(case, glob="keep")
    else:
        cols = case["cols"]
        if len(cols) > 30:
            yield dict(case, cols=cols[:len(cols) // 2])
        for j in range(min(len(cols), 30) - 1, -1, -1):
            yield dict(case, cols=cols[:j] + cols[j + 1:])
        n = len(cols[0][1]) if cols else 0
        for i in range(min(n, 30) - 1, -1, -1):
            yield dict(case, cols=[[nm, vs[:i] + vs[i + 1:]] for nm, vs in cols])
        for j, (nm, vs) in enumerate(cols):
            if nm is not None:
                yield dict(case, cols=cols[:j] + [[None, vs]] + cols[j + 1:])
        if case["override"] != "keep":
            yield dict(case, override="keep")
        if case["glob"] != "keep":
            yield dict(case, glob="keep")


def neighbours(case, rng):
    out = []
    for glob in GLOBS:
        out.append(dict(case, glob=glob, mode="full" if case["mode"] == "full" else "hostile"))
    if case["k"] == "vec" and case["mode"] == "full":
        kind_guess = "int"
        for n in range(0, 20):
            out.append(dict(case, vals=column(kind_guess, 0, n, "none")))
    return out


def known(case, obs, why):
    return None
