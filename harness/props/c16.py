"""C16 — fingerprints track content: never stale, and they notice every change."""
from harness.props import _heap as H

PID = "C16"
TRANSLATE = ["EqFingerprint.v"]     # translator tie: coq/gen_proofs/EqFingerprint.v is re-proved against definitions regenerated from /repo
PRELUDE = H.PRELUDE
FAILING = H.FAILING
SHARD = 60
IMPL_BATCH = 125      # histories per implementation subprocess (each step scans gc.get_objects(): keep batches small)
RULE = ("random histories of 10-40 operations interleaving fingerprint() calls with every write path (element, slice, "
        "mask, index list, promotion, table cell / row / column / region, column replacement, through live column "
        "views) on vectors and tables; values include pairs whose hashes are equal (1, 2**61) and pairs whose hashes "
        "differ by a multiple of 2**61-1; distinct = canonical JSON of the program; non-trivial = a fingerprint was read "
        "both before and after a content change of the same object")
ASSUMED = ["element hashes: CPython numeric hash (ints, integral floats) and the fixed None constant; strings etc. use the "
           "same rolling combination"]
MIX = {"sel2d": 1, "vcat": 2, "newvec": 3, "newtab_dict": 3, "newtab_vecs": 1, "copy": 1, "slice": 1, "colview": 4, "stack": 1, "setv": 9,
       "sett": 5, "setattr": 3, "fp": 12, "read": 1, "drop": 1, "rename": 1, "math": 1}


P61 = (1 << 61) - 1


def planted():
    """deterministic histories: hash-colliding writes (known finding KF1), hash-equal writes (exempt),
    and every write path between two fingerprint() calls on a vector and on its table."""
    out = []
    for a, b in [(1, -(P61 - 1)), (0, P61), (1, P61 + 1), (2, 2.0), (3, 5), (None, 0), (7, None),
                 # negative values against the value a power of two above them (hashes of negative ints are negative ints:
                 # whatever "unsigned" reading is made of them must keep distinct hashes distinct modulo P)
                 (-3, 5), (5, -3), (-8, 0), (-5, 3), (-2, 6), (-1, 15), (-3, 2 ** 61 - 4), (-7, 2 ** 64 - 7)]:
        out.append({"prog": [["newvec", [5, a, 7], "a", None], ["fp", 0], ["setv", 0, ["int", 1], ["s", b]], ["fp", 0]]})
        out.append({"prog": [["newtab_dict", [["a", [5, a, 7]], ["b", [1, 2, 3]]]], ["drop", 0], ["fp", 0],
                             ["sett", 0, ["cell", 1, 0, b]], ["fp", 0]]})
        out.append({"prog": [["newtab_dict", [["a", [5, a, 7]], ["b", [1, 2, 3]]]], ["drop", 0], ["fp", 0],
                             ["colview", 0, 0], ["setv", 0, ["slice", 1, 2, None], ["l", [b]]], ["fp", 0], ["fp", 1]]})
        out.append({"prog": [["newtab_dict", [["a", [5, a, 7]], ["b", [1, 2, 3]]]], ["drop", 0], ["fp", 0],
                             ["setattr", 0, 0, ["lit", [5, b, 7]]], ["fp", 0]]})
    # fingerprint / k writes to ONE column with no fingerprint in between / fingerprint (k = 2, 3, 4: the storage tuple freed by
    # one write is handed to the next, so after an even number of writes every column sits at the address it had when the
    # table was fingerprinted), through a live column view, through table cells, and on a bare vector
    for k in (2, 3, 4):
        vals = [[11 * (j + 1) + i for i in range(3)] for j in range(k)]
        tab = ["newtab_dict", [["a", [5, 6, 7]], ["b", [1, 2, 3]]]]
        out.append({"prog": [tab, ["drop", 0], ["fp", 0], ["colview", 0, 0]]
                            + [["setv", 0, ["int", j % 3], ["s", vals[j][0]]] for j in range(k)] + [["fp", 1], ["fp", 0]]})
        out.append({"prog": [tab, ["drop", 0], ["fp", 0]]
                            + [["sett", 0, ["cell", j % 3, 0, vals[j][1]]] for j in range(k)] + [["fp", 0]]})
        out.append({"prog": [tab, ["drop", 0], ["fp", 0], ["colview", 0, 1]]
                            + [["setv", 0, ["slice", 0, 2, None], ["l", vals[j][:2]]] for j in range(k)] + [["fp", 1]]})
        out.append({"prog": [["newvec", [5, 6, 7, 8], "a", None], ["fp", 0]]
                            + [["setv", 0, ["int", j % 4], ["s", vals[j][2]]] for j in range(k)] + [["fp", 0]]})
    # long vectors (the rolling combination may be computed in blocks): neighbours exchanged at every position around 64 / 128
    for n, at in ((70, 63), (70, 31), (130, 127), (130, 63), (200, 128), (66, 64)):
        base = [3 * i + 1 for i in range(n)]
        out.append({"prog": [["newvec", base, "a", None], ["fp", 0], ["setv", 0, ["int", at], ["s", base[at + 1]]], ["fp", 0],
                             ["setv", 0, ["int", at + 1], ["s", base[at]]], ["fp", 0]]})
        out.append({"prog": [["newvec", base, "a", None], ["fp", 0], ["setv", 0, ["int", at], ["s", base[at] + 1]],
                             ["setv", 0, ["int", at + 1], ["s", base[at + 1] - 1]], ["fp", 0]]})
    return out


def tight_cases(rng, n):
    """fingerprint / k writes back to back / fingerprint, run WITHOUT the per-step observation of the heap histories (which
    allocates between the steps): nothing of the program's own disturbs CPython's recycling of the storage tuples, so a memo
    keyed on storage identity sees, after an even number of writes, the very identity it was taken at.  Decided by the oracle
    alone: the fingerprint afterwards is that of a freshly built object with the same contents."""
    cs = []
    for _ in range(n):
        rows = rng.randint(1, 6)
        ncols = rng.randint(1, 3)
        cols = [[rng.randrange(-3, 50) for _ in range(rows)] for _ in range(ncols)]
        k = rng.choice([1, 2, 2, 2, 3, 4, 4, 6])
        j = rng.randrange(ncols)
        via = rng.choice(["vector", "colview", "cell", "cell", "colview", "setattr", "mixed"])
        writes = [[rng.randrange(rows), rng.choice([rng.randrange(60, 99), rng.randrange(60, 99) + 0.5, None])
                   if rng.random() < 0.25 else rng.randrange(60, 99)] for _ in range(k)]
        c = {"op": "tight", "cols": cols, "col": j, "via": via, "writes": writes, "fp_first": rng.random() < 0.85}
        if rows >= 2 and via != "setattr" and rng.random() < 0.35:
            # ONE further write of several cells at once that both widens the column and stores a None
            idx = rng.sample(range(rows), 2)
            c["multi"] = [idx, rng.choice([[rng.randrange(60, 99) + 0.5, None], [None, rng.randrange(60, 99) + 0.5],
                                           [rng.randrange(60, 99), None]])]
            if rng.random() < 0.5:
                c["cols"] = [[bool(x % 2) for x in col] if q == j else col for q, col in enumerate(cols)]
                c["writes"] = []
        cs.append(c)
    # other element kinds (the heap model knows ints, integral floats and None only): strings whose column became nullable
    # on the way (a None written and taken back), dates that a datetime write promotes in place, dict cells replaced by a
    # dict with the same keys, -0.0 / 0.0
    for _ in range(n // 3):
        kind = rng.choice(["str", "date", "dict", "zero", "nested", "nan"])
        rows = rng.randint(2, 5)
        i = rng.randrange(rows)
        if kind == "str":
            col = [rng.choice(["ann", "bob", "cy", "", "Ann"]) for _ in range(rows)]
            writes = rng.choice([[[i, None], [i, col[i]]], [[i, None], [i, "zed"]], [[i, "zed"]], [[i, None]]])
        elif kind == "date":
            col = [["d", 738000 + k] for k in range(rows)]
            writes = rng.choice([[[i, ["dt", 738000 + i, 3600]]], [[i, ["dt", 738000 + i, 0]], [i, ["dt", 738000 + i, 63900]]],
                                 [[i, ["d", 738100]]]])
        elif kind == "dict":
            col = [{"id": k, "qty": 10 * k} for k in range(rows)]
            writes = rng.choice([[[i, {"id": i, "qty": 99}]], [[i, {"id": i, "qty": 10 * i, "x": 1}]],
                                 [[i, col[(i + 1) % rows]], [(i + 1) % rows, col[i]]]])
        elif kind == "nested":
            # a RAGGED vector of vectors (not a table): an inner vector is written through its own handle
            cs.append({"op": "tight", "kind": "nested", "cols": [[rng.randrange(9) for _ in range(rng.randint(1, 4))] for _ in range(rows)],
                       "col": rng.randrange(rows), "via": "inner", "writes": [[0, rng.randrange(60, 99)] for _ in range(rng.choice([1, 2]))],
                       "fp_first": rng.random() < 0.9})
            continue
        elif kind == "nan":
            # NaN at the top level and INSIDE tuples / lists: every ["nan"] is a float('nan') object of its own, and the freshly
            # built object holds yet other NaN objects - a fingerprint is a function of the contents, not of which NaN it is
            pool = [["nan"], ["tup", [2.0, ["nan"]]], ["tup", [["nan"]]], ["lst", [["nan"], 1.5]], 2.5, ["tup", [1.0, 2.0]],
                    ["tup", [["tup", [["nan"], 0.5]], 3.0]]]
            col = [rng.choice(pool) for _ in range(rows)]
            col[i] = rng.choice(pool[1:4])
            col[(i + 1) % rows] = 2.5                        # a float next to a tuple / list: an object column, every write fits
            writes = rng.choice([[[i, col[i]]], [[i, rng.choice(pool)]], [[i, 2.5], [i, col[i]]]])
        else:
            col = [0.0, 1.5, -0.0, 2.0, 0.0][:rows]
            writes = [[i, -0.0 if col[i] == 0.0 and str(col[i]) == "0.0" else 0.0]]
        other = [rng.randrange(9) for _ in range(rows)]
        cs.append({"op": "tight", "cols": [col, other], "col": 0,
                   "via": rng.choice(["vector", "colview"] if kind in ("dict", "nan") else ["vector", "colview", "cell"]),   # a dict is a row to t[i, j] = ...
                   "writes": writes, "fp_first": rng.random() < 0.8, "kind": kind})
    # a write between an element and the one-element tuple holding it, between tuples that differ by a leading 0 / by where they
    # end: Python's hash() tells them apart, so must the fingerprint (F50)
    for col, w in (([["tup", [5]], 2.5], [0, 5]), ([5, 2.5], [0, ["tup", [5]]]), ([["tup", [0, 1]], 2.5], [0, ["tup", [1]]]),
                   ([["tup", [["nan"]]], 2.5], [0, ["nan"]]), ([["tup", []], 2.5], [0, ["tup", [0]]]), ([["tup", []], 2.5], [0, 1]), ([1, 2.5], [0, ["tup", []]]), ([["tup", []], 2.5], [0, 0]),
                   ([["tup", [["tup", [1, 2]], 3]], 2.5], [0, ["tup", [1, ["tup", [2, 3]]]]]), ([["tup", [1, 2]], 2.5], [0, ["tup", [2, 1]]])):
        for via in ("vector", "colview"):
            # (a str makes it an object column: every write fits)
            cs.append({"op": "tight", "cols": [col + ["x"], [1, 2, 3]], "col": 0, "via": via, "writes": [w], "fp_first": True, "kind": "nan"})
    # a str replaced by the bytes of its own UTF-8 encoding and back (unequal values, told apart by hash()): noticed
    for text in ("caf\u00e9", "\u6771\u4eac", "\u00e5bc"):
        for col, w in (([text, 2.5, "x"], [0, ["bytes", text.encode().hex()]]), ([["bytes", text.encode().hex()], 2.5, "x"], [0, text])):
            for via in ("vector", "colview"):
                cs.append({"op": "tight", "cols": [col, [1, 2, 3]], "col": 0, "via": via, "writes": [w], "fp_first": True, "kind": "text"})
    # tables with FEWER ROWS THAN COLUMNS (a one-row summary, 2 x 5): a write into any column - the last ones included - is noticed
    # by the table's fingerprint
    for rows, ncols in ((1, 2), (1, 4), (2, 5), (2, 3), (1, 6)):
        for j in range(ncols):
            for via in ("cell", "colview"):
                cs.append({"op": "tight", "cols": [[10 * q + r + 1 for r in range(rows)] for q in range(ncols)], "col": j, "via": via,
                           "writes": [[rows - 1, 900 + j]], "fp_first": True, "kind": "wide"})
    return cs


def _dv(x):
    import datetime as dt
    if isinstance(x, list) and x and x[0] == "d":
        return dt.date.fromordinal(x[1])
    if isinstance(x, list) and x and x[0] == "dt":
        return dt.datetime.combine(dt.date.fromordinal(x[1]), dt.time()) + dt.timedelta(seconds=x[2])
    if isinstance(x, list) and x and x[0] == "bytes":
        return bytes.fromhex(x[1])
    if isinstance(x, list) and x and x[0] == "nan":
        return float("nan")                                   # a NaN object of its own, every time
    if isinstance(x, list) and x and x[0] == "tup":
        return tuple(_dv(e) for e in x[1])
    if isinstance(x, list) and x and x[0] == "lst":
        return [_dv(e) for e in x[1]]
    return x


def _rebuilt(x):
    """an object with the same contents that shares no float / container OBJECT with x (NaN is equal to nothing, itself
    included: 'the same contents' is decided structurally, as repr shows it)"""
    if type(x) is float:
        return float.fromhex(x.hex()) if x == x else float("nan")
    if type(x) is tuple:
        return tuple(_rebuilt(e) for e in x)
    if type(x) is list:
        return [_rebuilt(e) for e in x]
    if type(x) is dict:
        return {k: _rebuilt(v) for k, v in x.items()}
    return x


def _observe_tight(case):
    from serif import Table, Vector
    cols, j, via = case["cols"], case["col"], case["via"]
    cols = [[_dv(x) for x in c] for c in cols]
    case = dict(case, writes=[[i, _dv(x)] for i, x in case["writes"]])
    if via == "inner":
        import warnings
        with warnings.catch_warnings():
            warnings.simplefilter("ignore")
            if len({len(c) for c in cols}) == 1:
                cols[0] = cols[0] + [0]                       # make it ragged: equal lengths would be a Table
            inner = [Vector(list(c)) for c in cols]
            obj = Vector(inner)
            before = obj.fingerprint() if case["fp_first"] else None
            start = [[repr(x) for x in c] for c in cols]
            for i, x in case["writes"]:
                inner[j][i] = x
            after = obj.fingerprint()
            contents = [[repr(x) for x in c._underlying] for c in inner]
            fresh = Vector([Vector(list(c._underlying)) for c in inner])
            return {"before": before, "after": after, "fresh": fresh.fingerprint(), "contents": contents,
                    "again": obj.fingerprint(), "start": start}
    if via == "vector":
        obj = Vector(list(cols[j]), name="a")
        target = obj
    else:
        obj = Table([Vector(list(c), name=f"c{q}") for q, c in enumerate(cols)])
        target = obj.cols()[j] if via in ("colview", "mixed") else None
    before = obj.fingerprint() if case["fp_first"] else None
    start = [repr(x) for x in cols[j]] if via == "vector" else [[repr(x) for x in c] for c in cols]
    ws = case["writes"]
    if via == "vector" or via == "colview":
        for i, x in ws:
            target[i] = x
    elif via == "cell":
        for i, x in ws:
            obj[i, j] = x
    elif via == "setattr":
        for i, x in ws:
            cur = list(obj.cols()[j])
            cur[i] = x
            setattr(obj, f"c{j}", cur)
    else:
        for q, (i, x) in enumerate(ws):
            if q % 2:
                obj[i, j] = x
            else:
                target[i] = x
    if case.get("multi"):
        idx, vals = case["multi"]
        if via in ("vector", "colview", "mixed"):
            target[list(idx)] = list(vals)
        else:
            obj[list(idx), j] = list(vals)
    after = obj.fingerprint()
    if via == "vector":
        cells = [_rebuilt(x) for x in obj._underlying]
        fresh = Vector(cells, name="a")
        contents = [repr(x) for x in cells]
    else:
        fresh = Table([Vector([_rebuilt(x) for x in c._underlying], name=c.name) for c in obj.cols()])
        contents = [[repr(x) for x in c._underlying] for c in obj.cols()]
    return {"before": before, "after": after, "fresh": fresh.fingerprint(), "contents": contents,
            "again": obj.fingerprint(), "start": start}


def streams(rng, tier):
    n = 500 if tier == "quick" else 4000
    return [("planted", planted()), ("histories", [{"prog": H.gen_program(rng, rng.randint(10, 40), MIX)} for _ in range(n)]),
            ("tight", tight_cases(rng, 400 if tier == "quick" else 4000))]


def observe(case):
    if case.get("op") == "tight":
        try:
            return _observe_tight(case)
        except Exception as e:                               # noqa: BLE001
            return {"broken": f"{type(e).__name__}: {e}"[:200]}
    return H.observe_program(case)


def emit(case, obs):
    if case.get("op") == "tight":
        return "(@nil tstep)"                                # decided by the oracle alone
    return H.emit_trace(case, obs)


_heap_oracle = H.oracle_for(("C16",))


def oracle(case, obs):
    if case.get("op") != "tight":
        return _heap_oracle(case, obs)
    if "broken" in obs:
        return f"tight-observer: {obs['broken']}"
    what = (f"fingerprint() after {len(case['writes'])} back-to-back write(s) ({case['via']})"
            + (f" and the write [{case['multi'][0]}] = {case['multi'][1]}" if case.get("multi") else "")
            + f" to column {case['col']} of {case['cols']}" + (" (fingerprinted before)" if case["fp_first"] else ""))
    if obs["after"] != obs["fresh"]:
        return (f"C16-stale: {what} returned {obs['after']}; a freshly built object with the same contents {obs['contents']} "
                f"gives {obs['fresh']}")
    if obs["again"] != obs["after"]:
        return f"C16-unstable: {what}: a second call returned {obs['again']} after {obs['after']}"
    if case.get("kind") in ("str", "date", "dict", "nested", "nan", "text", "wide") and obs["before"] is not None and obs["start"] != obs["contents"] \
            and obs["before"] == obs["after"]:
        return (f"C16-insensitive: {what}: the contents went from {obs['start']} to {obs['contents']} but the fingerprint "
                f"stayed {obs['after']}")
    return None


def shrink(case):
    if case.get("op") == "tight":
        ws = case["writes"]
        return [dict(case, writes=ws[:i] + ws[i + 1:]) for i in range(len(ws))] if len(ws) > 1 else []
    return H.shrink_program(case)


def known(case, obs, why):
    return "KF1" if why.startswith("C16-insensitive-KF1") else None


def nontrivial(case, obs):
    if case.get("op") == "tight":
        return "broken" not in obs and obs.get("before") is not None and obs.get("before") != obs.get("after")
    st = obs.get("stats") or {}
    return st.get("fp_after_write", 0) >= 1


def describe(case, obs, stream):
    if case.get("op") == "tight":
        return [f"tight:{case['via']}", f"tight:writes{len(case['writes'])}"] + ([f"tight:{case['kind']}"] if case.get("kind") else [])
    st = obs.get("stats") or {}
    return [f"has:{k}" for k in ("fp_calls", "fp_after_write", "writes_ok", "writes_alias") if st.get(k)]
