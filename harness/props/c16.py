"""C16 — fingerprints track content: never stale, and they notice every change."""
from harness.props import _heap as H

PID = "C16"
TRANSLATE = ["EqFingerprint.v"]     # translator tie: coq/gen_proofs/EqFingerprint.v is re-proved against definitions regenerated from /repo
PRELUDE = H.PRELUDE
FAILING = H.FAILING
SHARD = 60
IMPL_BATCH = 125      # histories per implementation subprocess (each step scans gc.get_objects(): keep batches small)
RULE = ("random histories of 10-40 operations interleaving fingerprint() calls with every write path (element, slice, "
        "mask, index list, promotion, table cell / row / column / region, column replacement, through live column "
        "views) on vectors and tables; values include pairs whose hashes are equal (1, 2**61) and pairs whose hashes "
        "differ by a multiple of 2**61-1; distinct = canonical JSON of the program; non-trivial = a fingerprint was read "
        "both before and after a content change of the same object")
ASSUMED = ["element hashes: CPython numeric hash (ints, integral floats) and the fixed None constant; strings etc. use the "
           "same rolling combination"]
MIX = {"vcat": 2, "newvec": 3, "newtab_dict": 3, "newtab_vecs": 1, "copy": 1, "slice": 1, "colview": 4, "stack": 1, "setv": 9,
       "sett": 5, "setattr": 3, "fp": 12, "read": 1, "drop": 1, "rename": 1, "math": 1}


P61 = (1 << 61) - 1


def planted():
    """deterministic histories: hash-colliding writes (known finding KF1), hash-equal writes (exempt),
    and every write path between two fingerprint() calls on a vector and on its table."""
    out = []
    for a, b in [(1, -(P61 - 1)), (0, P61), (1, P61 + 1), (2, 2.0), (3, 5), (None, 0), (7, None)]:
        out.append({"prog": [["newvec", [5, a, 7], "a", None], ["fp", 0], ["setv", 0, ["int", 1], ["s", b]], ["fp", 0]]})
        out.append({"prog": [["newtab_dict", [["a", [5, a, 7]], ["b", [1, 2, 3]]]], ["drop", 0], ["fp", 0],
                             ["sett", 0, ["cell", 1, 0, b]], ["fp", 0]]})
        out.append({"prog": [["newtab_dict", [["a", [5, a, 7]], ["b", [1, 2, 3]]]], ["drop", 0], ["fp", 0],
                             ["colview", 0, 0], ["setv", 0, ["slice", 1, 2, None], ["l", [b]]], ["fp", 0], ["fp", 1]]})
        out.append({"prog": [["newtab_dict", [["a", [5, a, 7]], ["b", [1, 2, 3]]]], ["drop", 0], ["fp", 0],
                             ["setattr", 0, 0, ["lit", [5, b, 7]]], ["fp", 0]]})
    return out


def streams(rng, tier):
    n = 500 if tier == "quick" else 4000
    return [("planted", planted()), ("histories", [{"prog": H.gen_program(rng, rng.randint(10, 40), MIX)} for _ in range(n)])]


def observe(case):
    return H.observe_program(case)


emit = H.emit_trace
oracle = H.oracle_for(("C16",))
shrink = H.shrink_program


def known(case, obs, why):
    return "KF1" if why.startswith("C16-insensitive-KF1") else None


def nontrivial(case, obs):
    st = obs.get("stats") or {}
    return st.get("fp_after_write", 0) >= 1


def describe(case, obs, stream):
    st = obs.get("stats") or {}
    return [f"has:{k}" for k in ("fp_calls", "fp_after_write", "writes_ok", "writes_alias") if st.get(k)]
