"""C14 — sorting is a stable permutation with direction-independent None placement.

Streams
  exh-table   exhaustive: one key column over {None, 0, 1} with 0..4 rows x reverse x na_last x
              (key by name | by external vector | by the table's own column object)
  exh-vector  exhaustive: Vector.sort_by over {None, 0, 1} with 0..5 elements and over
              {None, 1, True, 1.0} (equal, distinguishable) with 2..4 elements x reverse x na_last
  none-sets   a fixed tie-rich key column of 4..6 rows with None at EVERY subset of positions,
              every direction x na_last, table and vector
  random      0..8 rows, 1..3 keys (names, own columns, external vectors, the same column twice),
              per-key reverse lists, few distinct values (many ties), None anywhere, value pools
              int / str / date / {1, True, 1.0, 0, False} (equal but distinguishable)
  shape       malformed calls (no key, reverse list of the wrong length, key of the wrong length,
              unknown name) and key columns Python cannot order (outside the domain)

The oracle computes THE ordered arrangement directly from the property text: the position of
row i in the output is the number of rows that must precede it under an explicit pairwise
comparison (keys in order, each in its direction, None last/first whatever the direction,
full ties by input position).  No call to sort/sorted is involved.
"""
import itertools
import json

from harness import values as V
from harness.core import cbool, clist, cnat, copt, err_name

PID = "C14"
TRANSLATE = ["EqSort.v"]     # translator tie: coq/gen_proofs/EqSort.v is re-proved against definitions regenerated from /repo
PRELUDE = ("From Coq Require Import List ZArith.\nImport ListNotations.\n"
           "From Serif Require Import Base.PyVal Model.Sort Corr.C14.")
FAILING = "C14.failing"
SHARD = 400
RULE = ("exh-*: every key column over {None,0,1} up to 4 rows (5 for vectors) x direction x na_last x key form; "
        "none-sets: None at every subset of a tie-rich column; random: 0-8 rows, 1-3 keys by name/vector, "
        "per-key directions, few distinct values. Distinct = canonical JSON of the case; non-trivial = "
        ">= 1 pair of rows tying on all keys and >= 1 None key cell.")
EXHAUSTIVE = {"quick": False, "thorough": False}
EXHAUSTIVE_NOTE = ("single-key sorts are enumerated exhaustively up to 4 rows (tables) / 5 elements (vectors) over "
                   "{None,0,1}; multi-key sorts are sampled; induction over length and key count is the theorems' job")
ASSUMED = [
    "list.sort/sorted is a stable sort that looks at elements only through key(a) < key(b), and reverse=True is "
    "reverse-sort-reverse (CPython listobject.c); modelled by stable insertion sort",
    "on the non-None values of one key column Python's < is a strict weak order whose equivalence is == "
    "(NaN and mutually unorderable values are outside the domain: such cases are emitted as CSkip)",
    "a key given by name is resolved to the column of that name (name lookup itself is C17's subject): the model "
    "receives the column number",
]
LEVEL_NOTE = ("input-unchanged is true of the functional model by construction; it is the correspondence run that "
              "observes the table and key vectors after the call")

NAMES = ["a", "b", "c", "d"]
N = ["N"]
POOLS = {
    "int": [["i", 0], ["i", 1], ["i", 2]],
    "int2": [["i", 5], ["i", -1]],
    "str": [["s", "a"], ["s", "b"], ["s", "ab"]],
    "date": [["d", 738000], ["d", 738001]],
    "eq": [["i", 1], ["b", True], ["f", (1.0).hex()], ["i", 0], ["b", False], ["f", (2.5).hex()]],
    # the ends of the float order: None goes first or last by the caller's choice, never "next to" an infinity
    "inf": [["f", float("inf").hex()], ["f", float("-inf").hex()], ["f", (1.0).hex()], ["i", 3]],
}


# ------------------------------------------------------------------ generators

def _table_case(cols, by, reverse, na_last, bare=False):
    return {"op": "table", "names": NAMES[:len(cols)], "cols": cols, "by": by, "bare": bare,
            "reverse": reverse, "na_last": na_last}


def resort_cases(rng, n):
    """tables whose rows already stand in the stable order of an earlier sort by the same keys in the OPPOSITE directions (ties
    keep their id order), sorted again: see observe (case["via_sort"])"""
    cs = []
    for _ in range(n):
        m = rng.randint(2, 7)
        nk = rng.choice([1, 1, 2])
        rows = [[rng.randrange(3) for _ in range(nk)] + [i] for i in range(m)]
        first = [rng.random() < 0.5 for _ in range(nk)]
        for q in reversed(range(nk)):                        # the stable multi-key order under directions `first`
            rows.sort(key=lambda r: r[q], reverse=first[q])
        cols = [[["i", r[c]] for r in rows] for c in range(nk + 1)]
        rev = [not x for x in first]
        c = _table_case(cols, [["n", q] for q in range(nk)], rev if nk > 1 or rng.random() < 0.5 else rev[0], rng.random() < 0.5,
                        bare=(nk == 1 and rng.random() < 0.5))
        c["via_sort"] = first if nk > 1 else first[0]
        cs.append(c)
    return cs


def streams(rng, tier):
    out = []
    alpha = [N, ["i", 0], ["i", 1]]
    exh = []
    for n in range(0, 5):
        for col in itertools.product(alpha, repeat=n):
            col = list(col)
            ids = [["i", 10 + i] for i in range(n)]
            for rev in (False, True):
                for nl in (False, True):
                    exh.append(_table_case([col, ids], [["n", 0]], rev, nl, bare=True))
                    exh.append(_table_case([ids], [["v", col]], rev, nl, bare=(n % 2 == 0)))
                    if n >= 3:
                        exh.append(_table_case([ids, col], [["c", 1]], [rev], nl))
    out.append(("exh-table", exh))
    exv = []
    for n in range(0, 6):
        for col in itertools.product(alpha, repeat=n):
            for rev in (False, True):
                for nl in (False, True):
                    exv.append({"op": "vector", "data": list(col), "reverse": rev, "na_last": nl})
    # equal-but-distinguishable values make stability visible on a bare vector
    alpha2 = [N, ["i", 1], ["b", True], ["f", (1.0).hex()]]
    for n in range(2, 5):
        for col in itertools.product(alpha2, repeat=n):
            for rev in (False, True):
                for nl in (False, True):
                    exv.append({"op": "vector", "data": list(col), "reverse": rev, "na_last": nl})
    if tier == "quick":
        exv = [c for c in exv if len(c["data"]) <= 4] + rng.sample([c for c in exv if len(c["data"]) == 5], 300)
    out.append(("exh-vector", exv))

    ns = []
    bases = [[["i", 1], ["i", 0], ["i", 1], ["i", 0]],
             [["s", "b"], ["s", "a"], ["s", "b"], ["s", "b"], ["s", "a"]],
             [["i", 1], ["b", True], ["i", 0], ["f", (1.0).hex()], ["b", False], ["i", 2]]]
    for base in bases if tier == "thorough" else bases[:2]:
        n = len(base)
        for mask in range(2 ** n):
            col = [N if (mask >> i) & 1 else base[i] for i in range(n)]
            ids = [["i", 10 + i] for i in range(n)]
            for rev in (False, True):
                for nl in (False, True):
                    ns.append(_table_case([ids, col], [["n", 1]], rev, nl, bare=True))
                    ns.append({"op": "vector", "data": col, "reverse": rev, "na_last": nl})
    out.append(("none-sets", ns))

    rnd = [random_case(rng) for _ in range(1500 if tier == "quick" else 20000)]
    out.append(("random", rnd))
    out.append(("shape", shape_cases(rng, 40 if tier == "quick" else 300)))
    out.append(("resort", resort_cases(rng, 150 if tier == "quick" else 1500)))
    # the same cases on operands with a past (values.lived_in / lived_in_table): sorted before in another state,
    # then rewritten in place - a sort is a function of the CURRENT contents
    lived = []
    for name, cases in out:
        cand = [c for c in cases if (c.get("op") == "vector" and len(c.get("data") or []) >= 2)
                or (c.get("op") != "vector" and c.get("cols") and len(c["cols"][0]) >= 2)]
        for c in rng.sample(cand, min(len(cand), 300 if tier == "quick" else 3000)):
            lived.append(dict(c, lived=rng.randrange(1 << 30)))
    out.append(("lived-in", lived))
    # the same cases on a table whose columns EXCHANGED their names through live column views after the table had been
    # sorted by name under the old assignment: a key given by name is the column that carries the name now
    ren = []
    for name, cases in out[:-1]:
        cand = [c for c in cases if c.get("op") != "vector" and c.get("cols") and len(c["cols"]) >= 2 and len(c["cols"][0]) >= 2
                and any(s_[0] == "n" for s_ in c.get("by", ()))]
        for c in rng.sample(cand, min(len(cand), 150 if tier == "quick" else 1500)):
            k = len(c["cols"])
            rot = rng.randrange(1, k)
            ren.append(dict(c, renamed=[(j + rot) % k for j in range(k)]))
    out.append(("renamed", ren))
    reuse = []
    for name, cases in out[:-2]:
        cand = [c for c in cases if c.get("op") != "vector" and c.get("cols") and len(c["cols"][0]) >= 2
                and any(s_[0] == "n" for s_ in c.get("by", ())) and "lived" not in c]
        for c in rng.sample(cand, min(len(cand), 200 if tier == "quick" else 2000)):
            reuse.append(dict(c, reuse_args=True))
    out.append(("reused-keys", reuse))
    return out


def _rand_col(rng, n, pool, p_none):
    return [N if rng.random() < p_none else rng.choice(pool) for _ in range(n)]


def random_case(rng):
    n = rng.choice([0, 1, 2, 3, 4, 5, 5, 6, 6, 7, 8, 8])
    if rng.random() < 0.12:
        pool = POOLS[rng.choice(list(POOLS))]
        return {"op": "vector", "data": _rand_col(rng, n, pool[:rng.randint(1, len(pool))], rng.choice([0, .2, .5])),
                "reverse": rng.random() < 0.5, "na_last": rng.random() < 0.5}
    ncols = rng.randint(1, 4)
    cols = []
    for _ in range(ncols):
        pool = POOLS[rng.choice(list(POOLS))]
        pool = pool[:rng.randint(1, len(pool))] if rng.random() < 0.7 else pool
        cols.append(_rand_col(rng, n, pool, rng.choice([0, .15, .3, .6])))
    if rng.random() < 0.5:
        cols[rng.randrange(ncols)] = [["i", 10 + i] for i in range(n)]       # a row id column
    nk = rng.choice([1, 1, 2, 2, 3, 3])
    by = []
    for _ in range(nk):
        r = rng.random()
        if r < 0.5:
            by.append(["n", rng.randrange(ncols)])
        elif r < 0.65:
            by.append(["c", rng.randrange(ncols)])
        else:
            pool = POOLS[rng.choice(list(POOLS))]
            by.append(["v", _rand_col(rng, n, pool[:rng.randint(1, len(pool))], rng.choice([0, .2, .5]))])
            if rng.random() < 0.5:
                # the external key vector carries a name - often the name of a table column, i.e. of another key
                # (abs(t.x) keeps the name "x"): keys are told apart by what they hold, not by what they are called
                by[-1].append(rng.choice(NAMES[:ncols] + ["k"]))
    if rng.random() < 0.5:
        reverse = rng.random() < 0.5
    else:
        reverse = [rng.random() < 0.5 for _ in range(nk)]
    return _table_case(cols, by, reverse, rng.random() < 0.5, bare=(nk == 1 and rng.random() < 0.5))


def shape_cases(rng, k):
    cs = []
    col = [["i", 1], N, ["i", 0]]
    ids = [["i", 10], ["i", 11], ["i", 12]]
    cs.append(_table_case([col, ids], [], False, True))
    cs.append(_table_case([col, ids], [["n", 0]], [True, False], True))
    cs.append(_table_case([col, ids], [["n", 0], ["n", 1]], [True], True))
    cs.append(_table_case([col, ids], [["v", col[:2]]], False, True))
    cs.append(_table_case([col, ids], [["v", col + col]], False, True, bare=True))
    cs.append(_table_case([col, ids], [["n", 3]], False, True))                 # unknown name
    cs.append(_table_case([[["i", 1], ["s", "x"], N], ids], [["n", 0]], False, True))   # unorderable
    cs.append({"op": "vector", "data": [["i", 1], ["s", "x"], N], "reverse": False, "na_last": True})
    cs.append(_table_case([[["f", float("nan").hex()], ["f", (1.0).hex()], ["f", (0.5).hex()]], ids],
                          [["n", 0]], False, True))                              # NaN key
    while len(cs) < k:
        c = random_case(rng)
        if c["op"] != "table" or not c["cols"][0]:
            continue
        n = len(c["cols"][0])
        m = rng.choice(["short", "long", "revlen", "name"])
        if m == "short":
            c["by"][-1] = ["v", [["i", 1]] * (n - 1)]
        elif m == "long":
            c["by"][0] = ["v", [["i", 1]] * (n + 1)]
        elif m == "revlen":
            c["reverse"] = [True] * (len(c["by"]) + 1)
            c["bare"] = False
        else:
            c["by"][0] = ["n", len(c["cols"])]
        cs.append(c)
    return cs


# ------------------------------------------------------------------ implementation side

def _enc_cols(t):
    return [[V.enc(x) for x in c._underlying] for c in t._underlying]


def observe(case):
    from serif import Table, Vector
    try:
        if case["op"] == "vector":
            if case.get("lived") is not None:
                v = V.lived_in(lambda xs: Vector(xs, name="v"), [V.dec(x) for x in case["data"]], case["lived"])
            else:
                v = Vector([V.dec(x) for x in case["data"]], name="v")
            pre = [V.enc(x) for x in v._underlying]
            try:
                r = v.sort_by(reverse=case["reverse"], na_last=case["na_last"])
            except Exception as e:
                return {"pre": pre, "exc": err_name(e), "msg": f"{type(e).__name__}: {e}"[:160]}
            out = [V.enc(x) for x in r._underlying]
            r2 = r.sort_by(reverse=case["reverse"], na_last=case["na_last"])
            return {"pre": pre, "out": out, "post": [V.enc(x) for x in v._underlying],
                    "again": [V.enc(x) for x in r2._underlying], "is_new": r is not v}
        names = case["names"]
        if case.get("lived") is not None:
            # the table has a past: it was sorted (same keys, same directions) while it held its rows in another
            # order, then every cell was rewritten in place (values.lived_in_table)
            wnames = [names[s_[1]] for s_ in case["by"] if s_[0] in ("n", "c") and s_[1] < len(names)] or names[:1]

            def warm(tt):
                for rv in (case["reverse"], False, True):
                    try:
                        tt.sort_by(wnames if len(wnames) > 1 else wnames[0],
                                   reverse=rv if not isinstance(rv, list) or len(rv) == len(wnames) else False,
                                   na_last=case["na_last"])
                    except Exception:                        # noqa: BLE001
                        pass
            t, _ = V.lived_in_table(lambda cs: Table({nm: list(c) for nm, c in zip(names, cs)}),
                                    [[V.dec(x) for x in col] for col in case["cols"]], case["lived"], warm)
        elif case.get("renamed"):
            perm = case["renamed"]
            t = Table({names[perm[j]]: [V.dec(x) for x in col] for j, col in enumerate(case["cols"])})
            for nm in names:                                 # used under the old names
                for probe in (lambda: t.sort_by(nm), lambda: t[nm], lambda: getattr(t, nm), lambda: t[nm, ]):
                    try:
                        probe()
                    except Exception:                        # noqa: BLE001
                        pass
            live = list(t.cols())
            for j, c in enumerate(live):
                c.name = f"tmp{j}"
            for j, c in enumerate(live):
                c.name = names[j]
        else:
            t = Table({nm: [V.dec(x) for x in col] for nm, col in zip(names, case["cols"])})
        if case.get("via_sort") is not None:
            # the table being sorted IS the result of an earlier sort_by by the same keys in the opposite directions (its rows are
            # already in that order, so that sort was the identity on the cells): whatever such a result remembers about how it
            # came to be, sorting it again is an ordinary stable sort of its rows
            try:
                keys0 = [names[s_[1]] for s_ in case["by"]]
                s0 = t.sort_by(keys0 if len(keys0) > 1 else keys0[0], reverse=case["via_sort"], na_last=case["na_last"])
                if _enc_cols(s0) == _enc_cols(t):
                    t = s0
            except Exception:                                # noqa: BLE001
                pass
        pre = _enc_cols(t)
        vecs, by = [], []
        for spec in case["by"]:
            if spec[0] == "n":
                by.append(names[spec[1]] if spec[1] < len(names) else "nosuch")
            elif spec[0] == "c":
                by.append(t[names[spec[1]]])
            else:
                vec = Vector([V.dec(x) for x in spec[1]], name=(spec[2] if len(spec) > 2 else None))
                vecs.append(vec)
                by.append(vec)
        vpre = [[V.enc(x) for x in vec._underlying] for vec in vecs]
        arg = by[0] if (case.get("bare") and len(by) == 1) else by
        if case.get("reuse_args"):
            # the program keeps its key list (KEYS = ['grp', 'val']) and sorted ANOTHER table of the same shape by it before
            # (the rows in reverse order): sort_by reads its arguments, it does not rewrite them
            try:
                t2 = Table({nm: [V.dec(x) for x in reversed(col)] for nm, col in zip(names, case["cols"])})
                t2.sort_by(arg, reverse=case["reverse"], na_last=case["na_last"])
            except Exception:                                # noqa: BLE001
                pass
        try:
            r = t.sort_by(arg, reverse=case["reverse"], na_last=case["na_last"])
        except Exception as e:
            return {"pre": pre, "vpre": vpre, "exc": err_name(e), "msg": f"{type(e).__name__}: {e}"[:160],
                    "post": _enc_cols(t), "vpost": [[V.enc(x) for x in vec._underlying] for vec in vecs]}
        obs = {"pre": pre, "vpre": vpre, "out": _enc_cols(r), "names": list(r.column_names()),
               "post": _enc_cols(t), "vpost": [[V.enc(x) for x in vec._underlying] for vec in vecs],
               "is_new": r is not t}
        if all(s[0] in ("n", "c") for s in case["by"]):
            by2 = [names[s[1]] if s[0] == "n" else r[names[s[1]]] for s in case["by"]]
            arg2 = by2[0] if (case.get("bare") and len(by2) == 1) else by2
            try:
                obs["again"] = _enc_cols(r.sort_by(arg2, reverse=case["reverse"], na_last=case["na_last"]))
            except Exception as e:
                obs["again"] = f"{type(e).__name__}: {e}"[:120]
        return obs
    except Exception as e:
        return {"fatal": f"{type(e).__name__}: {e}"[:200], "exc": err_name(e), "msg": f"setup: {type(e).__name__}: {e}"[:160]}


# ------------------------------------------------------------------ shared helpers (plain Python semantics)

def _orderable(vals):
    """Python can totally order these non-None values (and == is reflexive on them)."""
    xs = [v for v in vals if v is not None]
    try:
        for a in xs:
            if not (a == a):
                return False
            for b in xs:
                lt, gt, eq = a < b, b < a, a == b
                if (lt + gt + eq) != 1:
                    return False
    except TypeError:
        return False
    return True


def _rev_flags(case):
    """per-key flags, or None when the call is malformed"""
    nk = len(case["by"])
    rv = case["reverse"]
    if isinstance(rv, bool):
        return [rv] * nk
    return list(rv) if len(rv) == nk else None


def _key_columns(case, pre, vpre):
    """the key columns as tag lists (from the table as built), or None when malformed"""
    n = len(pre[0]) if pre else 0
    keys, vi = [], 0
    for spec in case["by"]:
        if spec[0] in ("n", "c"):
            if spec[1] >= len(pre):
                return None
            keys.append(pre[spec[1]])
        else:
            keys.append(vpre[vi])
            vi += 1
        if len(keys[-1]) != n:
            return None
    return keys


def expected_order(keys, flags, na_last, n):
    """THE arrangement the property describes: out[k] = input row expected[k]."""
    cols = [[V.dec(t) for t in k] for k in keys]

    def before(i, j):
        for col, rev in zip(cols, flags):
            a, b = col[i], col[j]
            if a is None and b is None:
                continue
            if a is None:
                return not na_last
            if b is None:
                return na_last
            if a == b:
                continue
            return (b < a) if rev else (a < b)
        return i < j

    pos = [sum(1 for j in range(n) if j != i and before(j, i)) for i in range(n)]
    exp = [None] * n
    for i, p in enumerate(pos):
        exp[p] = i
    return exp


def _domain(case, obs):
    """('ok', keys, flags) | ('malformed',) | ('unordered',)"""
    if case["op"] == "vector":
        if not _orderable([V.dec(t) for t in obs["pre"]]):
            return ("unordered",)
        return ("ok", [obs["pre"]], [case["reverse"]])
    flags = _rev_flags(case)
    if not case["by"] or flags is None:
        return ("malformed",)
    keys = _key_columns(case, obs["pre"], obs["vpre"])
    if keys is None:
        return ("malformed",)
    for k in keys:
        if not _orderable([V.dec(t) for t in k]):
            return ("unordered",)
    return ("ok", keys, flags)


# ------------------------------------------------------------------ independent oracle

def oracle(case, obs):
    if "fatal" in obs:
        return f"setup-raises: {obs['fatal']}"
    dom = _domain(case, obs)
    if dom[0] != "ok":
        return None
    _, keys, flags = dom
    what = "Vector.sort_by" if case["op"] == "vector" else "Table.sort_by"
    if "exc" in obs:
        return f"sort-raises: {what} raised on a well-formed call: {obs['msg']}"
    if case["op"] == "vector":
        pre, out = obs["pre"], obs["out"]
        n = len(pre)
        exp = expected_order(keys, flags, case["na_last"], n)
        want = [pre[i] for i in exp]
        if out != want:
            return _explain("vector", case, [pre], [out], [want], keys, flags)
        if obs["post"] != pre:
            return f"input-modified: the vector is {obs['post']} after sort_by, was {pre}"
        if obs["again"] != out:
            return f"not-idempotent: sorting the sorted vector {out} gives {obs['again']}"
        return None
    pre, out = obs["pre"], obs["out"]
    n = len(pre[0]) if pre else 0
    exp = expected_order(keys, flags, case["na_last"], n)
    want = [[col[i] for i in exp] for col in pre]
    if out != want:
        return _explain("table", case, pre, out, want, keys, flags)
    if obs["post"] != pre:
        return f"input-modified: the table's columns are {obs['post']} after sort_by, were {pre}"
    if obs["vpost"] != obs["vpre"]:
        return f"input-modified: the key vectors are {obs['vpost']} after sort_by, were {obs['vpre']}"
    if not obs.get("is_new", True) and n:
        return "input-modified: sort_by returned the input object itself"
    if "again" in obs and obs["again"] != out:
        return f"not-idempotent: sorting the sorted table {out} again gives {obs['again']}"
    return None


def _explain(kind, case, pre, out, want, keys, flags):
    n = len(pre[0]) if pre else 0
    rows_in = sorted(json.dumps([c[i] for c in pre]) for i in range(n))
    if len(out) != len(pre) or any(len(c) != n for c in out):
        return f"not-a-permutation: {kind} result has shape {[len(c) for c in out]}, input {[len(c) for c in pre]}"
    rows_out = sorted(json.dumps([c[i] for c in out]) for i in range(n))
    if rows_in != rows_out:
        return f"not-a-permutation: {kind} rows {pre} became {out}"
    nl = case["na_last"]
    # which clause: None placement on the first key?
    k0 = keys[0]
    if kind == "vector":
        seq = out[0]
        nones = [t[0] == "N" for t in seq]
        if nones != sorted(nones, reverse=not nl):
            return (f"none-placement: Vector.sort_by(reverse={case['reverse']}, na_last={nl}) of {pre[0]} "
                    f"gave {seq}; None must come {'last' if nl else 'first'} whatever the direction")
    return (f"order: {kind} sort_by keys={keys} reverse={flags} na_last={nl} on {pre} gave {out}, "
            f"the stable lexicographic arrangement is {want}")


def nontrivial(case, obs):
    if "pre" not in obs:
        return False
    dom = _domain(case, obs)
    if dom[0] != "ok":
        return False
    keys = dom[1]
    n = len(keys[0]) if keys else 0
    rows = [tuple(json.dumps(k[i]) for k in keys) for i in range(n)]
    vals = [[V.dec(t) for t in k] for k in keys]

    def tie(i, j):
        return all((c[i] is None and c[j] is None) or (c[i] is not None and c[j] is not None and c[i] == c[j])
                   for c in vals)
    has_tie = any(tie(i, j) for i in range(n) for j in range(i + 1, n))
    has_none = any(t[0] == "N" for k in keys for t in k)
    return bool(rows) and has_tie and has_none


def describe(case, obs, stream):
    if case["op"] == "vector":
        return [f"{stream}:vector-len{len(case['data'])}"]
    dom = _domain(case, obs) if "pre" in obs else ("malformed",)
    if dom[0] != "ok":
        return [f"{stream}:{dom[0]}"]
    n = len(case["cols"][0]) if case["cols"] else 0
    forms = "".join(sorted({s[0] for s in case["by"]}))
    return [f"{stream}:rows{n}", f"{stream}:keys{len(case['by'])}-{forms}",
            f"{stream}:reverse-{'list' if isinstance(case['reverse'], list) else 'bool'}"]


# ------------------------------------------------------------------ Coq emitter

def _ranker(tag_lists):
    """one rank space for the given tag lists: json(tag) -> Coq cell term; None if unorderable"""
    tags = {}
    for l in tag_lists:
        for t in l:
            if t[0] != "N":
                tags.setdefault(json.dumps(t), t)
    items = sorted(tags.items())
    vals = [V.dec(t) for _, t in items]
    if not _orderable(vals):
        return None
    reps = []
    for v in vals:
        if not any(v == r for r in reps):
            reps.append(v)
    # order the representatives with Python's own <
    ordered = []
    for v in reps:
        k = sum(1 for r in reps if r < v)
        ordered.append((k, v))
    ordered.sort(key=lambda kv: kv[0])
    ranked = [v for _, v in ordered]
    m = {}
    for idx, ((js, _), v) in enumerate(zip(items, vals)):
        r = next(i for i, x in enumerate(ranked) if x == v)
        m[js] = f"Some ({r}%Z, {cnat(idx)})"
    return m


def _cells(tags, m):
    return clist("None" if t[0] == "N" else m[json.dumps(t)] for t in tags)


def emit(case, obs):
    if "fatal" in obs:
        return "CBad"
    if case["op"] == "vector":
        m = _ranker([obs["pre"], obs.get("out", []), obs.get("post", [])])
        if m is None:
            return "CSkip"
        if "exc" in obs:
            return "CBad"
        return (f"CVector {cbool(case['reverse'])} {cbool(case['na_last'])} {_cells(obs['pre'], m)} "
                f"{_cells(obs['out'], m)} {_cells(obs['post'], m)}")
    pre, post = obs["pre"], obs["post"]
    out = obs.get("out")
    ncol = len(pre)
    rk = []
    for j in range(ncol):
        ls = [pre[j], post[j] if j < len(post) else []]
        if out is not None and j < len(out):
            ls.append(out[j])
        rk.append(_ranker(ls))
    vrk = [_ranker([a, b]) for a, b in zip(obs["vpre"], obs["vpost"])]
    # a key column that Python cannot order: outside the domain
    vi = 0
    for spec in case["by"]:
        if spec[0] in ("n", "c"):
            if spec[1] < ncol and rk[spec[1]] is None:
                return "CSkip"
        else:
            if vrk[vi] is None:
                return "CSkip"
            vi += 1
    # payload columns whose values carry no order get ids (stable per tag within this case)
    pay = {}

    def cells(tags, m):
        if m is not None:
            return _cells(tags, m)
        out_ = []
        for t in tags:
            if t[0] == "N":
                out_.append("None")
            else:
                out_.append(f"Some (0%Z, {cnat(pay.setdefault(json.dumps(t), len(pay)))})")
        return clist(out_)

    t_term = clist(cells(pre[j], rk[j]) for j in range(ncol))
    after_term = clist(cells(post[j], rk[j] if j < ncol else None) for j in range(len(post)))
    by_terms, vi = [], 0
    for spec in case["by"]:
        if spec[0] in ("n", "c"):
            by_terms.append(f"KCol {cnat(spec[1])}")
        else:
            by_terms.append(f"KVec {cells(obs['vpre'][vi], vrk[vi])}")
            vi += 1
    vafter = clist(cells(obs["vpost"][i], vrk[i]) for i in range(len(vrk)))
    rv = case["reverse"]
    rv_term = f"(RAll {cbool(rv)})" if isinstance(rv, bool) else f"(RList {clist(cbool(b) for b in rv)})"
    if out is None:
        obs_term = "None"
    else:
        obs_term = "(Some " + clist(cells(out[j], rk[j] if j < ncol else None) for j in range(len(out))) + ")"
    return (f"CTable {t_term} {clist(by_terms)} {rv_term} {cbool(case['na_last'])} {obs_term} "
            f"{after_term} {vafter}")


# ------------------------------------------------------------------ shrinking / neighbourhood

def shrink(case):
    if case["op"] == "vector":
        d = case["data"]
        for i in range(len(d)):
            yield dict(case, data=d[:i] + d[i + 1:])
        return
    cols, by = case["cols"], case["by"]
    n = len(cols[0]) if cols else 0
    for i in range(n):
        yield dict(case, cols=[c[:i] + c[i + 1:] for c in cols],
                   by=[s if s[0] != "v" else ["v", s[1][:i] + s[1][i + 1:]] + s[2:] for s in by])
    if len(by) > 1:
        for k in range(len(by)):
            rv = case["reverse"]
            yield dict(case, by=by[:k] + by[k + 1:],
                       reverse=rv if isinstance(rv, bool) else rv[:k] + rv[k + 1:])
    used = {s[1] for s in by if s[0] in ("n", "c")}
    if len(cols) > 1 and (len(cols) - 1) not in used:
        yield dict(case, cols=cols[:-1], names=case["names"][:-1])


def neighbours(case, rng):
    out = []
    if case["op"] == "vector":
        for rev in (False, True):
            for nl in (False, True):
                out.append(dict(case, reverse=rev, na_last=nl))
                out.append(dict(case, reverse=rev, na_last=nl, data=case["data"] + [N, ["i", 0], N, ["i", 0]]))
    else:
        for nl in (False, True):
            for rev in (False, True):
                out.append(dict(case, reverse=rev, na_last=nl))
    return out
