"""C12 — group-by aggregation: one row per key in first-appearance order, correct values.

Streams
  exh-small   exhaustive: every key column over {None,'a','b'} with 0..4 rows; all six aggregates of a
              data column with None, plus a recording custom function
  combos      every subset of the six aggregate arguments (bare / the same column twice / two columns)
              on an interleaved table with a None key; one and two key columns
  shapes      interleaved, single-row, all-None groups, None keys, equal-but-distinguishable keys
              (1, True, 1.0), composite keys agreeing on one component, keys given by name, by the
              table's own column, by external vectors (not stored in the table)
  random      0..10 rows, 1..3 keys, random aggregate arguments and custom functions
  reduce      Vector.sum/mean/min/max/stdev vs aggregate over a constant key: exhaustive over
              {None, 2, 5} up to 4 elements, plus random int / float / str vectors
  malformed   wrong lengths, unknown names, an apply entry that fails after another was evaluated,
              sum of strings / min of unordered values (outside the domain)
Under the thorough tier every stream is run under PYTHONHASHSEED 0, 1, 12345 (string keys).
"""
import itertools
import json

from harness import values as V
from harness.props import _group as G

PID = "C12"
TRANSLATE = ["EqReduce.v", "EqPartition.v"]    # translator tie: coq/gen_proofs/EqReduce.v is re-proved against the reductions regenerated from /repo
PRELUDE = ("From Coq Require Import List ZArith.\nImport ListNotations.\n"
           "From Serif Require Import Base.PyVal Model.Group Corr.GroupCase Corr.C12.")
FAILING = "C12.failing"
SHARD = 300
HASHSEEDS = {"quick": ["0"], "thorough": ["0", "1", "12345"]}
RULE = ("exh-small: all key columns over {None,a,b} up to 4 rows; combos: all 64 subsets of aggregate arguments "
        "x 3 forms; shapes: hand-written partitions; random: 0-10 rows, 1-3 keys by name/vector; reduce: vector "
        "reductions. Distinct = canonical JSON of the case; non-trivial = >= 2 groups whose rows interleave and "
        ">= 1 None among the key or aggregated cells (reduce: a None and a non-None element).")
EXHAUSTIVE = {"quick": False, "thorough": False}
EXHAUSTIVE_NOTE = ("single-key partitions are enumerated exhaustively up to 4 rows and the 64 argument subsets are "
                   "enumerated; everything else is sampled; induction over rows/keys/arguments is the theorems' job")
ASSUMED = G.ASSUMED


def reduce_cases(rng, nrand):
    out = []
    alpha = [G.N, ["i", 2], ["i", 5]]
    for n in range(0, 5):
        for data in itertools.product(alpha, repeat=n):
            for kind in ("sum", "mean", "min", "max", "stdev"):
                out.append({"op": "reduce", "data": list(data), "kind": kind, "key": ["s", "k"]})
    for _ in range(nrand):
        pk = rng.choice(["int", "int", "float", "str"])
        kinds = ("min", "max") if pk == "str" else (("mean", "min", "max", "stdev") if pk == "float"
                                                    else ("sum", "mean", "min", "max", "stdev"))
        n = rng.randint(0, 7)
        out.append({"op": "reduce", "data": G.rand_col(rng, n, G.DPOOLS[pk], rng.choice([0, .2, .5, .9])),
                    "kind": rng.choice(kinds), "key": rng.choice([["s", "k"], G.N, ["i", 1]])})
    return out


def streams(rng, tier):
    q = tier == "quick"
    return [
        ("exh-small", G.exhaustive_small("agg")),
        ("combos", G.combos("agg")),
        ("shapes", G.shapes("agg")),
        ("random", [G.random_call(rng, "agg") for _ in range(700 if q else 5000)]),
        ("history", G.with_history(rng, [G.random_call(rng, "agg") for _ in range(250 if q else 2500)])),
        ("reduce", reduce_cases(rng, 150 if q else 1500)),
        ("malformed", G.malformed("agg")),
        ("classes", G.class_calls(rng, 300 if q else 3000)),   # complex / Fraction / Decimal / float / timedelta values: oracle alone
    ]


observe = G.observe


def emit(case, obs):
    if "fatal" in obs:
        return "CBad"
    if case["op"] == "cls":
        return "CSkip"                                       # decided by the oracle alone
    if case["op"] == "reduce":
        return G.emit_reduce(case, obs)
    return G.emit_call(case, obs, False)


def oracle(case, obs):
    if "fatal" in obs:
        return f"setup-raises: {obs['fatal']}"
    if case["op"] == "cls":
        return obs["agg_verdict"]
    if case["op"] == "reduce":
        return oracle_reduce(case, obs)
    dom = G.domain(obs)
    if dom != "ok":
        return None
    if "exc" in obs:
        return f"aggregate-raises: well-formed aggregate call raised {obs['msg']}"
    res, pre, out = obs["res"], obs["pre"], obs["out"]
    n = len(pre[0]) if pre else 0
    nk = len(res["over"])
    groups = G.group_by_hand(res["over"], n)
    if len(out) < nk:
        return f"key-columns: result has {len(out)} columns for {nk} partition keys"
    if any(len(c) != len(groups) for c in out):
        return (f"row-count: {len(groups)} distinct key tuples {[g[0] for g in groups]!r} but result columns "
                f"have lengths {[len(c) for c in out]}")
    # key columns first, one row per distinct key, in order of first appearance
    for c in range(nk):
        got = [V.dec(t) for t in out[c]]
        want = [g[0][c] for g in groups]
        if not all((a is None and b is None) or (a is not None and b is not None and a == b)
                   for a, b in zip(got, want)):
            return (f"group-order: key column {c} of the result is {got!r}; distinct keys in order of first "
                    f"appearance are {want!r} (keys {res['over']})")
    # every requested aggregate is present with the textbook values (matched as a multiset of columns)
    exp = G.expected_columns(obs, groups)
    got_cols = [[V.dec(t) for t in c] for c in out[nk:]]
    if len(got_cols) != len(exp):
        return f"aggregate-columns: {len(exp)} aggregates requested, result has {len(got_cols)} value columns"
    used = set()
    for label, want in exp:
        for j, got in enumerate(got_cols):
            if j not in used and len(got) == len(want) and all(G.close(a, b) for a, b in zip(got, want)):
                used.add(j)
                break
        else:
            return (f"aggregate-values: no result column holds the {label} per group {want!r} "
                    f"(groups {[(g[0], g[1]) for g in groups]!r}; value columns {got_cols!r})")
    # custom functions: each group's raw values (None included) in row order, exactly once
    want_calls = sorted(json.dumps(c) for c in G.expected_calls(obs, groups))
    got_calls = sorted(json.dumps(c) for c in obs["log"])
    if want_calls != got_calls:
        return f"apply-calls: custom functions received {obs['log']!r}, expected {G.expected_calls(obs, groups)!r}"
    if obs.get("post") != pre:
        return f"input-modified: table columns are {obs.get('post')} after aggregate, were {pre}"
    return None


def oracle_reduce(case, obs):
    vals = [V.dec(t) for t in obs["pre"]]
    kind = case["kind"]
    if not any(v is not None for v in vals):
        return None                                          # the property speaks of >= 1 non-None value
    if kind in ("sum", "mean", "stdev") and not all(v is None or G._is_num(v) for v in vals):
        return None
    if kind in ("min", "max") and not G._orderable(vals):
        return None
    if "aexc" in obs:
        return f"aggregate-raises: single-group aggregate raised {obs['aexc']}"
    agg = obs["agg"]
    if len(agg) != 2 or len(agg[1]) != 1:
        return f"row-count: aggregate over a constant key gave columns {agg}"
    want = V.dec(agg[1][0])
    if "rexc" in obs:
        return (f"reduction-vs-aggregate: Vector.{kind}() of {vals!r} raised {obs['rexc']} while aggregating the "
                f"column as a single group gives {want!r}")
    got = V.dec(obs["red"])
    if not G.close(got, want):
        return (f"reduction-vs-aggregate: Vector.{kind}() of {vals!r} is {got!r} but aggregating the column as a "
                f"single group gives {want!r}")
    if not G.close(got, G.textbook(kind, vals)):
        return f"reduction-value: Vector.{kind}() of {vals!r} is {got!r}, textbook value {G.textbook(kind, vals)!r}"
    return None


def nontrivial(case, obs):
    if "fatal" in obs:
        return False
    if case["op"] == "cls":
        return any(t[0] == "N" for t in case["vals"]) and len({json.dumps(k) for k in case["keys"]}) >= 2
    if case["op"] == "reduce":
        return any(t[0] == "N" for t in case["data"]) and any(t[0] != "N" for t in case["data"])
    if G.domain(obs) != "ok":
        return False
    n = len(obs["pre"][0]) if obs["pre"] else 0
    return G.interleaved(G.group_by_hand(obs["res"]["over"], n)) and G.has_none(obs)


def describe(case, obs, stream):
    if "fatal" in obs:
        return [f"{stream}:fatal"]
    if case["op"] == "cls":
        return [f"classes:{case['cls']}"] + [f"classes:fn:{f}" for f in obs.get("ran", [])]
    if case["op"] == "reduce":
        return [f"{stream}:{case['kind']}", f"{stream}:len{len(case['data'])}"]
    dom = G.domain(obs)
    if dom != "ok":
        return [f"{stream}:{dom}"]
    n = len(obs["pre"][0]) if obs["pre"] else 0
    groups = G.group_by_hand(obs["res"]["over"], n)
    forms = "".join(sorted({s[0] for s in case["over"]}))
    nagg = sum(len(obs["res"]["args"][k] or []) for k in G.KINDS)
    return [f"{stream}:rows{n}", f"{stream}:groups{min(len(groups), 6)}", f"{stream}:keys{len(case['over'])}-{forms}",
            f"{stream}:aggs{min(nagg, 6)}", f"{stream}:apply{len(case['apply'] or [])}",
            f"{stream}:{'interleaved' if G.interleaved(groups) else 'contiguous'}"]


def shrink(case):
    if case["op"] == "cls":
        for i in range(len(case["keys"])):
            yield dict(case, keys=case["keys"][:i] + case["keys"][i + 1:], vals=case["vals"][:i] + case["vals"][i + 1:])
        return
    if case["op"] == "reduce":
        d = case["data"]
        for i in range(len(d)):
            yield dict(case, data=d[:i] + d[i + 1:])
        return
    yield from G.shrink_call(case)


def neighbours(case, rng):
    if case["op"] == "reduce":
        return [dict(case, kind=k) for k in ("sum", "mean", "min", "max", "stdev")]
    out = []
    for _ in range(10):
        c = json.loads(json.dumps(case))
        cols = c["cols"]
        n = len(cols[0]) if cols else 0
        if n >= 2:
            p = list(range(n))
            rng.shuffle(p)
            c["cols"] = [[col[i] for i in p] for col in cols]
        out.append(c)
    return out
