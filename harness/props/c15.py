"""C15 — alias tracking is exact: no leaked write, no spurious refusal."""
from harness.props import _heap as H

PID = "C15"
PRELUDE = H.PRELUDE
FAILING = H.FAILING
SHARD = 60
RULE = ("random histories of 10-45 operations biased towards vectors built over shared caller tuples, writes, column "
        "replacement, promotion (float into int), drops, delayed collection (reference cycles + explicit gc) and "
        "re-allocation of equal-length tuples (identity reuse); distinct = canonical JSON of the program; non-trivial = "
        "a write happened while storage was really shared, or an object was collected before a later successful write")
ASSUMED = ["weak references die exactly at collection; id() of a live object is unique (CPython)",
           "the registry is compared through its live view (dead weak references are invisible to every registry operation)"]
MIX = {"fillna": 1, "dropna": 1, "vcat": 2, "newvec": 8, "newtab_dict": 2, "newtab_vecs": 2, "copy": 2, "slice": 3, "colview": 3, "stack": 2, "setv": 12,
       "sett": 3, "setattr": 4, "fp": 1, "read": 1, "drop": 5, "cycle_drop": 3, "gc": 2, "math": 1, "sort": 1}


def streams(rng, tier):
    n = 300 if tier == "quick" else 4000
    return [("histories", [{"prog": H.gen_program(rng, rng.randint(10, 45), MIX)} for _ in range(n)])]


def observe(case):
    return H.observe_program(case)


emit = H.emit_trace
oracle = H.oracle_for(("C15",))
shrink = H.shrink_program


def nontrivial(case, obs):
    st = obs.get("stats") or {}
    return st.get("shared_now", 0) >= 1 or (st.get("collected", 0) >= 1 and st.get("writes_ok", 0) >= 1)


def describe(case, obs, stream):
    st = obs.get("stats") or {}
    return [f"has:{k}" for k in ("writes_ok", "writes_alias", "shared_now", "collected", "failed_ops", "reuse") if st.get(k)]
