"""C15 — alias tracking is exact: no leaked write, no spurious refusal."""
from harness.props import _heap as H

PID = "C15"
TRANSLATE = ["EqAlias.v"]    # translator tie: alias_tracker.py regenerated, refinement of Model/Heap's registry re-proved
PRELUDE = H.PRELUDE
FAILING = H.FAILING
SHARD = 60
IMPL_BATCH = 125      # histories per implementation subprocess (each step scans gc.get_objects(): keep batches small)
RULE = ("random histories of 10-45 operations biased towards vectors built over shared caller tuples, writes, column "
        "replacement, promotion (float into int), drops, delayed collection (reference cycles + explicit gc) and "
        "re-allocation of equal-length tuples (identity reuse); distinct = canonical JSON of the program; non-trivial = "
        "a write happened while storage was really shared, or an object was collected before a later successful write")
ASSUMED = ["weak references die exactly at collection; id() of a live object is unique (CPython)",
           "the registry is compared through its live view (dead weak references are invisible to every registry operation)"]
MIX = {"sel2d": 2, "transpose": 2, "fillna": 1, "dropna": 1, "vcat": 2, "newvec": 8, "newtab_dict": 2, "newtab_vecs": 2, "copy": 2, "slice": 3, "colview": 3, "stack": 2, "setv": 12,
       "sett": 3, "setattr": 4, "fp": 1, "read": 1, "drop": 5, "cycle_drop": 3, "gc": 2, "math": 1, "sort": 1}


def planted():
    """deterministic histories around the places where alias tracking is known to be delicate (they run in every
    tier, before the random histories): a former sharer whose partner died, in either registration order; a
    promoting write followed by fresh vectors of the same length (the freed intermediate storage's identity comes
    back); whole-range slices, empty concatenations, no-op fills of a live vector; a vector used as its own key or
    value; delayed collection"""
    W = lambda slot, i, x: ["setv", slot, ["int", i], ["s", x]]           # noqa: E731
    ps = []
    for t in (0, 1):                                    # two caller tuples of the harness (lengths 3 and 2)
        for first_dies in (True, False):
            # a, b over one tuple; one of them dies; the survivor writes (moves away); c over the same tuple; c writes
            ps.append([["newvec", [], None, t], ["newvec", [], "b", t], ["drop", 0 if first_dies else 1], W(0, 0, 7),
                       ["newvec", [], "c", t], W(1, 0, 5), W(0, 1, 2)])
            ps.append([["newvec", [], None, t], ["newvec", [], "b", t], ["cycle_drop", 0 if first_dies else 1],
                       W(0, 0, 7), ["gc"], W(0, 0, 7), ["newvec", [], "c", t], W(1, 0, 5)])
        # both alive: refused; partner writes... still refused for the partner too; drop one: writable
        ps.append([["newvec", [], "a", t], ["newvec", [], "b", t], W(0, 0, 1), W(1, 0, 1), ["drop", 1], W(0, 0, 1)])
    for n in (1, 2, 3, 4):
        vals = list(range(n))
        # promotion (a float into an int vector), then fresh same-length vectors, each written at once
        prog = [["newvec", vals, "p", None], W(0, 0, 2.0)]
        for k in range(4):
            prog += [["newvec", [k + 1] * n, None, None], W(k + 1, 0, 9)]
        ps.append(prog)
        ps.append([["newvec", vals, "p", None], ["setv", 0, ["slice", None, None, None], ["l", [4.0] * n]],
                   ["newvec", [7] * n, None, None], W(1, 0, 1), ["newvec", [8] * n, None, None], W(2, 0, 1), W(0, 0, 3)])
        # derivations of a live vector that hold the same values: each is writable, and so is the source
        for der in (["slice", 0, None, None, None], ["slice", 0, 0, 99, 1], ["vcat", 0, []], ["fillna", 0], ["dropna", 0],
                    ["copy", 0], ["sort", 0], ["mask", 0, [True]], ["transpose", 0]):
            ps.append([["newvec", [v + 1 for v in vals], "s", None], der, W(1, 0, 9), W(0, 0, 8), der, W(0, 0, 7), W(2, 0, 6)])
    # a vector that is its own key (perm[perm] = x) or its own value (v[:] = v): nobody else shares its storage
    for vals in ([0, 1, 2], [2, 0, 1], [1, 1, 0, 3]):
        ps.append([["newvec", vals, "perm", None], ["setv", 0, ["idxslot", 0], ["s", 0]], ["setv", 0, ["idxslot", 0], ["s", 1]],
                   W(0, 0, 2)])
    # a column REPLACED by a tuple the caller also holds a vector over (t.col = T, t.col__N = T): the table owns its
    # columns - the new column is writable at once, through its view and through the table, and so is the caller's vector
    for t in (0, 1):
        n = 3 if t == 0 else 2
        tab = ["newtab_dict", [["a", list(range(n))], ["b", list(range(10, 10 + n))]]]
        for ci in (0, 1):
            ps.append([["newvec", [], "held", t], tab, ["drop", 1], ["setattr", 1, ci, ["tup", t]], ["colview", 1, ci],
                       W(2, 0, 5), ["sett", 1, ["cell", 1, ci, 6]], W(0, 0, 4)])
            ps.append([tab, ["drop", 0], ["setattr", 0, ci, ["tup", t]], ["newvec", [], "late", t], ["colview", 0, ci],
                       W(2, 0, 5), W(1, 1, 4)])
    # THREE (and four) vectors over one tuple; all but one die - neighbours in registration order, the first ones, the last ones,
    # alternating - and the survivor writes at once: dead references never count, however many and wherever they sit
    for t in (0, 1):
        for k, dead in ((3, [1, 2]), (3, [0, 1]), (3, [0, 2]), (4, [1, 2]), (4, [1, 2, 3]), (4, [0, 1, 2]), (4, [0, 2, 3]), (4, [0, 1, 3])):
            alive = [q for q in range(k) if q not in dead]
            prog = [["newvec", [], f"v{q}", t] for q in range(k)]
            for d in sorted(dead, reverse=True):
                prog.append(["drop", d])
            # after the drops the survivors sit in slots 0 .. len(alive)-1
            prog += [W(0, 0, 7)] if len(alive) == 1 else [W(0, 0, 7), W(1, 0, 8)]
            ps.append(prog)
            ps.append([["newvec", [], f"v{q}", t] for q in range(k)] + [["cycle_drop", d] for d in sorted(dead, reverse=True)]
                      + [["gc"], W(0, 0, 7)])
    # a table BUILT from a dict whose values are the caller's tuples - one tuple for two columns, or a tuple a live vector was
    # built over: every column owns its storage (cell writes, column views) and the caller's vector stays writable
    for t in (0, 1):
        ps.append([["newtab_dict", [["a", ["tup", t]], ["b", ["tup", t]]]], ["sett", 0, ["cell", 0, 0, 9]], ["colview", 0, 1],
                   W(1, 1, 8), ["sett", 0, ["cell", 1, 1, 7]]])
        ps.append([["newvec", [], "held", t], ["newtab_dict", [["a", ["tup", t]], ["b", list(range(3 if t == 0 else 2))]]],
                   W(0, 0, 4), ["sett", 0, ["cell", 0, 0, 9]], ["colview", 0, 0], W(2, 1, 6)])
    return [{"prog": p} for p in ps]


def streams(rng, tier):
    n = 500 if tier == "quick" else 4000
    return [("planted", planted()),
            ("histories", [{"prog": H.gen_program(rng, rng.randint(10, 45), MIX)} for _ in range(n)])]


def observe(case):
    return H.observe_program(case)


emit = H.emit_trace
oracle = H.oracle_for(("C15",))
shrink = H.shrink_program


def nontrivial(case, obs):
    st = obs.get("stats") or {}
    return st.get("shared_now", 0) >= 1 or (st.get("collected", 0) >= 1 and st.get("writes_ok", 0) >= 1)


def describe(case, obs, stream):
    st = obs.get("stats") or {}
    return [f"has:{k}" for k in ("writes_ok", "writes_alias", "shared_now", "collected", "failed_ops", "reuse") if st.get(k)]
