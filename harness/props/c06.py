"""C06 — None is handled uniformly: propagates, compares False, is skipped by reductions;
isna / dropna / fillna agree with one another.

Streams (every dtype x EVERY None subset of vectors of length 0..5, exhaustive: 63 masks)
  arith     binary operators (vector / list / scalar / reflected operands, None also on the
            right-hand operand) and the three unary operators
  compare   ==, !=, <, <=, >, >= against vector / list / scalar operands
  datecmp   the typed _Date paths: vector of dates / ISO strings / datetimes, list, ISO string,
            datetime and date scalars
  reduce    sum, mean, min, max, stdev, stdev(population=True), any, all, len
  na        isna / dropna / fillna(x) for x = None, same class, wider, narrower, subclass
            instance, incompatible; untyped and object vectors

mean / stdev: the reference is Python's own formula on the None-free list, compared with a
relative tolerance of 1e-12 (never bit for bit); inside Coq the value is an opaque id ("the
value Python computes for the cleaned list").
"""
import itertools

from harness import values as V
from harness.core import cbool, clist, copt, err_name
from harness.props import c05

PID = "C06"
TRANSLATE = ["EqReduce.v", "EqNa.v"]    # translator tie: coq/gen_proofs/EqReduce.v is re-proved against the reductions regenerated from /repo
PRELUDE = ("From Coq Require Import List ZArith.\nImport ListNotations.\n"
           "From Serif Require Import Base.PyVal Model.Dtype Model.Elementwise Model.NoneOps Corr.C05 Corr.C06.")
FAILING = "C06.failing"
SHARD = 700
RULE = ("every dtype (int, bool, float, complex, str, Fraction, Decimal, date, datetime, timedelta, object) x "
        "every None subset of vectors of length 0..5 (63 masks) x operators / comparisons / reductions / "
        "isna-dropna-fillna. Distinct = canonical JSON of the case; non-trivial = the vector holds >= 1 None "
        "and >= 1 non-None element.")
EXHAUSTIVE = {"quick": True, "thorough": True}
EXHAUSTIVE_NOTE = ("exhaustive over None placements: all 63 masks of lengths 0..5 for every dtype and every "
                   "reduction / na operation (and, in the thorough tier, every comparison operator x operand form); "
                   "the element values, the right-hand operands and (quick tier) the operator per mask are sampled.")
ASSUMED = [
    "bool(op(x, y)), sum / min / max of a None-free list, the conversions of _promote are Python's own and enter "
    "the model as finite tables",
    "mean and stdev are opaque functions of the None-free list; the implementation's float is identified with the "
    "reference value when they agree to a relative tolerance of 1e-12",
    "per-group aggregates: the theorem group_agg_skips_none is about C12's model (tied there); here the \"group\" stream checks aggregate / window against Python's reduction of each group's None-free values, by the oracle alone",
]

H = float.hex
POOL = {
    "int": [["i", 3], ["i", -2], ["i", 7], ["i", 0], ["i", 12], ["i", 5]],
    "bool": [["b", True], ["b", False]],
    "float": [["f", H(0.5)], ["f", H(-2.0)], ["f", H(1.5)], ["f", H(3.25)], ["f", H(0.0)], ["f", H(7.0)]],
    "complex": [["c", H(1.0), H(2.0)], ["c", H(0.0), H(-1.0)], ["c", H(2.5), H(0.0)]],
    "str": [["s", "a"], ["s", "bc"], ["s", ""], ["s", "zz"], ["s", "B"]],
    "Fr": [["Fr", 1, 2], ["Fr", -3, 4], ["Fr", 2, 1], ["Fr", 5, 3]],
    "Dec": [["Dec", "1.5"], ["Dec", "-2"], ["Dec", "0.25"], ["Dec", "10"]],
    "date": [["d", 737425], ["d", 730120], ["d", 738000], ["d", 737426]],
    "dt": [["dt", 737425, 3600], ["dt", 730120, 0], ["dt", 738000, 86399], ["dt", 737425, 0]],
    "td": [["td", 1], ["td", -3], ["td", 40], ["td", 0]],
    "obj": [["i", 3], ["s", "a"], ["f", H(1.5)], ["d", 737425]],
}
DTYPES = list(POOL)
# right-hand operand classes that make sense for arithmetic with each dtype
COMPAT = {"int": ["int", "float", "bool", "Fr"], "bool": ["int", "bool", "float"], "float": ["float", "int"],
          "complex": ["complex", "int"], "str": ["str", "int"], "Fr": ["Fr", "int"], "Dec": ["Dec", "int"],
          "date": ["td", "date"], "dt": ["td", "dt"], "td": ["td", "int", "float"], "obj": ["int"]}
OPS = c05.OPS
CMPS = ["eq", "ne", "lt", "le", "gt", "ge"]
REDS = ["sum", "mean", "min", "max", "stdev", "pstdev", "any", "all"]
COQ_RED = {"sum": "RSum", "mean": "RMean", "min": "RMin", "max": "RMax", "stdev": "(RStdev false)",
           "pstdev": "(RStdev true)", "any": "RAny", "all": "RAll"}
MASKS = [m for n in range(0, 6) for m in itertools.product([False, True], repeat=n)]     # True = None


def _vals(rng, ty, mask):
    return [["N"] if m else rng.choice(POOL[ty]) for m in mask]


def _typed(c, ty):
    """all-None / empty vectors keep their element class through an explicit dtype"""
    if ty != "obj" and all(t[0] == "N" for t in c["a"]):
        c["adt"] = ty
    return c


def streams(rng, tier):
    thorough = tier == "thorough"
    out = []
    # ---- arithmetic
    cs = []
    for ty in DTYPES:
        for mask in MASKS:
            n = len(mask)
            for _ in range(24 if thorough else 3):
                fn = rng.choice(OPS)
                form = rng.choice(["vec", "vec", "list", "scalar", "rscalar", "rlist"])
                tb = rng.choice(COMPAT[ty])
                c = {"op": "bin", "fn": fn, "form": form, "a": _vals(rng, ty, mask)}
                if form in ("scalar", "rscalar"):
                    c["b"] = rng.choice(POOL[tb])
                else:
                    c["b"] = [["N"] if rng.random() < 0.3 else rng.choice(POOL[tb]) for _ in range(n)]
                cs.append(_typed(c, ty))
            for fn in c05.UNARY:
                cs.append(_typed({"op": "un", "fn": fn, "a": _vals(rng, ty, mask)}, ty))
    fmts = [["s", "id=%s"], ["s", "%r!"], ["s", "<%s>"]]
    for mask in (MASKS if thorough else rng.sample(MASKS, 16)):
        n = len(mask)
        for form in ("vec", "list"):
            cs.append({"op": "bin", "fn": "mod", "form": form, "a": [rng.choice(fmts) for _ in range(n)],
                       "b": [["N"] if m else rng.choice(POOL["int"] + POOL["str"]) for m in mask]})
        cs.append({"op": "bin", "fn": "mod", "form": "vec", "a": [["N"] if m else rng.choice(fmts) for m in mask],
                   "b": [rng.choice(POOL["int"]) for _ in range(n)]})
    out.append(("arith", cs))
    # ---- comparisons (generic path)
    cs = []
    for ty in DTYPES:
        for mask in MASKS:
            n = len(mask)
            combos = [(f, g) for f in CMPS for g in ("vec", "list", "scalar", "vec_same")]
            for fn, form in (combos if thorough else rng.sample(combos, 4)):
                c = {"op": "cmp", "fn": fn, "form": form, "a": _vals(rng, ty, mask)}
                tb = ty if rng.random() < 0.85 else rng.choice(COMPAT[ty])
                if form == "vec_same":                       # v <op> v: one object on both sides
                    c["b"] = c["a"]
                elif form == "scalar":
                    c["b"] = rng.choice(POOL[tb] + ([["N"]] if fn in ("eq", "ne") else []))
                else:
                    m = n if rng.random() < 0.9 else n + 1
                    c["b"] = [["N"] if rng.random() < 0.3 else rng.choice(POOL[tb]) for _ in range(m)]
                cs.append(_typed(c, ty))
    out.append(("compare", cs))
    # ---- the typed date paths
    cs = []
    forms = ["vec_date", "vec_str", "vec_dt", "list_date", "list_dt", "str", "dt", "date", "vec_none"]
    for mask in MASKS:
        n = len(mask)
        combos = [(f, g) for f in CMPS for g in forms]
        for fn, form in (combos if thorough else rng.sample(combos, 14)):
            c = {"op": "cmp", "fn": fn, "form": form, "a": _vals(rng, "date", mask)}
            m = n if rng.random() < 0.9 else n + 1

            def seq(pool):
                return [["N"] if rng.random() < 0.3 else rng.choice(pool) for _ in range(m)]
            iso = [["s", "2020-01-02"], ["s", "1999-12-31"], ["s", "2021-07-29"], ["s", "2020-01-01"]]
            if form in ("vec_date", "list_date"):
                c["b"] = seq(POOL["date"])
            elif form == "vec_str":
                c["b"] = seq(iso)
            elif form in ("vec_dt", "list_dt"):
                c["b"] = seq(POOL["dt"])
            elif form == "vec_none":
                c["b"] = [["N"]] * m
            elif form == "str":
                c["b"] = rng.choice(iso)
            elif form == "dt":
                c["b"] = rng.choice(POOL["dt"])
            else:
                c["b"] = rng.choice(POOL["date"])
            cs.append(_typed(c, "date"))
    out.append(("datecmp", cs))
    # ---- reductions
    cs = []
    for ty in DTYPES:
        for mask in MASKS:
            for fn in REDS + ["len"]:
                for _ in range(4 if thorough else 1):
                    cs.append(_typed({"op": "red", "fn": fn, "a": _vals(rng, ty, mask)}, ty))
    # reductions must skip None whatever the schema says: vectors that hold None under a dtype that was
    # declared rather than inferred (to_object(), an explicit non-nullable dtype)
    for ty in DTYPES:
        for mask in (MASKS if thorough else rng.sample([m for m in MASKS if any(m) and not all(m)], 6)):
            if not any(mask) or all(mask):
                continue
            for fn in REDS:
                via = rng.choice(["to_object", "declared"])
                cs.append(_typed({"op": "red", "fn": fn, "a": _vals(rng, ty, mask), "via": via}, ty))
    out.append(("reduce", cs))
    # ---- isna / dropna / fillna
    cs = []
    fills = {"int": [["i", 9], ["f", H(2.5)], ["b", True], ["s", "x"], ["c", H(1.0), H(1.0)], ["I2", 4]],
             "bool": [["b", False], ["i", 5], ["f", H(0.5)], ["s", "x"]],
             "float": [["f", H(9.5)], ["i", 4], ["F", H(2.0)], ["c", H(0.0), H(1.0)], ["s", "x"], ["b", True]],
             "complex": [["c", H(9.0), H(1.0)], ["i", 1], ["f", H(0.5)], ["s", "x"]],
             "str": [["s", "fill"], ["S", "sub"], ["i", 0]],
             "Fr": [["Fr", 7, 9], ["i", 1]], "Dec": [["Dec", "9.9"], ["i", 1]],
             "date": [["d", 730000], ["dt", 730000, 60], ["s", "2020-01-01"]],
             "dt": [["dt", 730000, 60], ["d", 730000], ["DT2", 738001, 0]],
             "td": [["td", 9], ["i", 1]],
             "obj": [["i", 0], ["s", "x"], ["O"], ["l", [["i", 1]]]]}
    for ty in DTYPES:
        for mask in MASKS:
            a = _vals(rng, ty, mask)
            cs.append(_typed({"op": "na", "fn": "isna", "a": a}, ty))
            cs.append(_typed({"op": "na", "fn": "dropna", "a": a}, ty))
            cs.append(_typed({"op": "na", "fn": "fillna", "a": a, "v": ["N"]}, ty))
            for v in (fills[ty] if thorough else [fills[ty][0]] + rng.sample(fills[ty][1:], min(2, len(fills[ty]) - 1))):
                cs.append(_typed({"op": "na", "fn": "fillna", "a": _vals(rng, ty, mask), "v": v}, ty))
    # untyped (empty) and all-None object vectors
    for fn in ("isna", "dropna"):
        cs.append({"op": "na", "fn": fn, "a": []})
        for n in (1, 2, 5):
            cs.append({"op": "na", "fn": fn, "a": [["N"]] * n})
    for v in (["N"], ["i", 0], ["s", "x"], ["f", H(0.5)], ["d", 730000]):
        cs.append({"op": "na", "fn": "fillna", "a": [], "v": v})
        for n in (1, 2, 5):
            cs.append({"op": "na", "fn": "fillna", "a": [["N"]] * n, "v": v})
    out.append(("na", cs))
    # the same cases on vectors that RECEIVED their None by assignment (built without None, then v[i] = None):
    # isna / dropna / fillna / reductions / comparisons must not care how the None got there
    assigned = []
    for name, cases in out:
        cand = [c for c in cases if "via" not in c and any(t[0] == "N" for t in (c.get("a") or []))
                and any(t[0] != "N" for t in (c.get("a") or [])) and c.get("op") in ("red", "na", "cmp")]
        for c in rng.sample(cand, min(len(cand), 400 if not thorough else 4000)):
            assigned.append(dict(c, via="assign_none"))
    out.append(("assigned-none", assigned))
    # ... and on vectors that LOST their None: built holding one, the None then overwritten in place (v[i] = x), or left
    # behind by a slice - the dtype legitimately stays nullable although no element is None any more; dropna / fillna
    # still answer with vectors that report themselves non-nullable
    lost = []
    for name, cases in out[:-1]:
        cand = [c for c in cases if "via" not in c and c.get("op") in ("red", "na", "cmp") and (c.get("a") or [])
                and not any(t[0] == "N" for t in c["a"])]
        for c in rng.sample(cand, min(len(cand), 300 if not thorough else 3000)):
            lost.append(dict(c, via=rng.choice(["none_overwritten", "none_sliced_off"])))
    out.append(("lost-none", lost))
    lived = []
    for name, cases in out:
        cand = [c for c in cases if len(c.get("a") or []) >= 2 and "via" not in c]
        for c in rng.sample(cand, min(len(cand), 300 if not thorough else 3000)):
            lived.append(dict(c, lived=rng.randrange(1 << 30)))
    out.append(("lived-in", lived))      # the same cases on lived-in operands (values.lived_in)
    made = []
    for name, cases in out[:-1]:
        cand = [c for c in cases if "via" not in c and c.get("op") in ("bin", "un", "cmp", "red", "na")
                and any(t[0] == "N" for t in (c.get("a") or [])) and any(t[0] != "N" for t in (c.get("a") or []))]
        for c in rng.sample(cand, min(len(cand), 200 if not thorough else 2000)):
            made.append(dict(c, origin=rng.choice(["left", "full"])))
    out.append(("join-made", made))      # the same cases on operands that are columns of a join result (None = padding)
    made = []
    for name, cases in out[:-2]:
        cand = [c for c in cases if "via" not in c and c.get("op") in ("bin", "un", "cmp", "red", "na") and len(c.get("a") or []) >= 2]
        for c in rng.sample(cand, min(len(cand), 300 if not thorough else 3000)):
            made.append(dict(c, origin=rng.choice(["promoted", "objnone", "objnone"])))
    # a vector promoted in place, compared with / combined with operands of the kind it was BORN with (a datetime vector
    # that began as dates against a plain date, floats that began as ints against an int ...)
    born = {"dt": "date", "f": "int", "i": "bool", "c": "float"}
    for name, cases in out[:-2]:
        cand = [c for c in cases if "via" not in c and c.get("op") in ("cmp", "bin") and len(c.get("a") or []) >= 2
                and c.get("form") != "vec_same" and "b" in c
                and {t[0] for t in c["a"] if t[0] != "N"} and len({t[0] for t in c["a"] if t[0] != "N"}) == 1
                and next(t[0] for t in c["a"] if t[0] != "N") in born]
        for c in rng.sample(cand, min(len(cand), 150 if not thorough else 1500)):
            pool = POOL[born[next(t[0] for t in c["a"] if t[0] != "N")]]
            b = c["b"]
            nb = rng.choice(pool) if (b and not isinstance(b[0], list)) else [["N"] if t[0] == "N" else rng.choice(pool) for t in b]
            made.append(dict(c, b=nb, origin="promoted"))
    out.append(("write-made", made))     # ... and on operands promoted in place / object vectors with None assigned later
    # ---- per-group aggregates: every None placement x how the rows fall into groups (one group, one row per group,
    # pairs, alternating), through aggregate and through window.  Decided by the oracle alone (the reference is Python's
    # own reduction of each group's None-free values); the grouping itself is C12's.
    grp = []
    for ty in ("int", "float", "bool", "Fr", "Dec", "str", "date", "td"):
        for mask in MASKS:
            n = len(mask)
            for pat in ("one", "each", "pairs", "alt"):
                keys = {"one": [0] * n, "each": list(range(n)), "pairs": [i // 2 for i in range(n)],
                        "alt": [i % 2 for i in range(n)]}[pat]
                if n <= 1 and pat != "one":
                    continue
                grp.append(_typed({"op": "grp", "fn": "group", "a": _vals(rng, ty, mask), "keys": keys, "pat": pat,
                                   "window": rng.random() < 0.4}, ty))
    out.append(("group", grp))
    return [(name, c05._dedupe(cases)) for name, cases in out]


# ------------------------------------------------------------------ implementation side

def _close(a, b):
    """the same value up to the float tolerance the design allows for mean / stdev"""
    import cmath
    import math
    if type(a) is not type(b):
        return False
    if a == b:
        return True
    if isinstance(a, float):
        return math.isclose(a, b, rel_tol=1e-12, abs_tol=0.0) or (math.isnan(a) and math.isnan(b))
    if isinstance(a, complex):
        return cmath.isclose(a, b, rel_tol=1e-12, abs_tol=0.0)
    return False


def _bools(r):
    vals = list(r._underlying)
    if all(type(x) is bool for x in vals):
        return vals
    return None


def _mk(case, a):
    """the case's left operand; via = "assign_none": built WITHOUT its None values (an object-dtype stand-in of the
    same kind of data: another element of the vector), then the None are assigned in place"""
    if case.get("via") in ("none_overwritten", "none_sliced_off") and a and all(x is not None for x in a):
        try:
            if case["via"] == "none_overwritten":
                i = len(a) // 2
                v = c05._mkvec_fresh([None if j == i else x for j, x in enumerate(a)], None)
                v[i] = a[i]
            else:
                v = c05._mkvec_fresh([None] + list(a), None)[1:]
            if [type(x) for x in v._underlying] == [type(x) for x in a] and list(v._underlying) == list(a):
                return v
        except Exception:                                    # noqa: BLE001
            pass
    if case.get("via") == "assign_none":
        stand = next(x for x in a if x is not None)
        v = c05._mkvec_fresh([stand if x is None else x for x in a], None)
        try:
            for i, x in enumerate(a):
                if x is None:
                    v[i] = None
            if [type(x) for x in v._underlying] == [type(x) for x in a]:
                return v
        except Exception:                                    # noqa: BLE001
            pass
    return c05._mkvec(a, case.get("adt"))


def _obs_cmp(case):
    import datetime as dt
    import operator
    from serif import Vector
    fn, form = case["fn"], case["form"]
    pyop = getattr(operator, fn)
    it = c05._Intern()
    a = [V.dec(t) for t in case["a"]]
    v = _mk(case, a)
    xs = [it.id(x) for x in a]
    scalar = form in ("scalar", "str", "dt", "date")
    o = {"xs": xs, "self_kind": V.schema_obs(v.schema())}
    NONE = object()                      # the scalar None (v == None) is an operand like any other: id 0
    if scalar:
        b = V.dec(case["b"])
        other = b
        ys = [NONE if b is None else b] * len(a)
        o["ys"] = 0 if b is None else it.id(b)
    else:
        b = [V.dec(t) for t in case["b"]]
        other = v if form == "vec_same" else (Vector(list(b)) if form.startswith("vec") else list(b))
        ys = b
        o["ys"] = [it.id(y) for y in b]
        if form.startswith("vec"):
            o["other_kind"] = V.schema_obs(other.schema())
    o["other_cls"] = ("str" if isinstance(other, str) else "datetime" if isinstance(other, dt.datetime) else
                      "vec" if isinstance(other, Vector) else "seq" if isinstance(other, (list, tuple)) else "scalar")
    midnight = dt.time()
    tabs = {"cmp": {}, "iso": {}, "dt": {}}

    def put(tab, k, f):
        if k in tab:
            return
        try:
            r = f()
            tab[k] = bool(r)
        except TypeError:
            tab[k] = "T"
        except Exception:
            tab[k] = "R"
    def yid(y):
        return 0 if y is NONE else it.id(y)

    def yval(y):
        return None if y is NONE else y
    for x, y in zip(a, ys):
        if x is None or y is None:
            continue
        k = (it.id(x), yid(y))
        put(tabs["cmp"], k, lambda: pyop(x, yval(y)))
        if isinstance(x, dt.date) and isinstance(y, str):
            put(tabs["iso"], k, lambda: pyop(x, dt.date.fromisoformat(y)))
        if type(x) is dt.date and isinstance(y, dt.datetime):
            put(tabs["dt"], k, lambda: pyop(dt.datetime.combine(x, midnight), y))
    # the property's reference at each position: which reading applies is decided by the operand's
    # class alone (a date vector against ISO strings / datetimes uses the typed reading)
    is_date = o["self_kind"] is not None and o["self_kind"][0] == "KDate"
    reading = "cmp"
    ok = o.get("other_kind")
    if is_date and (o["other_cls"] == "str" or (o["other_cls"] == "vec" and ok and ok[0] == "KStr")):
        reading = "iso"
    if is_date and (o["other_cls"] == "datetime" or (o["other_cls"] == "vec" and ok and ok[0] == "KDateTime")):
        reading = "dt"
    if not scalar and len(a) != len(b):
        ref = "mismatch"
    else:
        ref = []
        for x, y in zip(a, ys):
            if x is None or y is None:
                ref.append(False)
                continue
            e = tabs[reading].get((it.id(x), yid(y)), "R")
            if e in ("T", "R"):
                ref = "undefined"
                break
            ref.append(e)
    o["ref"] = ref
    o["none_at"] = [x is None or y is None for x, y in zip(a, ys)] if ref != "mismatch" else None
    try:
        r = pyop(v, other)
        if not isinstance(r, Vector):
            o["skip"] = "not a vector"
        else:
            bl = _bools(r)
            if bl is None:
                o["res_bad"] = [V.enc(x) for x in r._underlying][:6]
            o["res"] = bl
            o["schema"] = V.schema_obs(r.schema())
    except Exception as e:
        o["exc"] = err_name(e)
        o["msg"] = f"{type(e).__name__}: {e}"[:160]
    o["tabs"] = {k: [[p[0], p[1], r] for p, r in t.items()] for k, t in tabs.items()}
    return o


def _ref_reduce(fn, clean):
    """Python's own reduction of the None-free list (the property's right-hand side)"""
    if fn == "sum":
        return sum(clean)
    if fn == "any":
        return any(clean)
    if fn == "all":
        return all(clean)
    if fn in ("min", "max"):
        return None if not clean else (min(clean) if fn == "min" else max(clean))
    if fn == "mean":
        return None if not clean else sum(clean) / len(clean)
    if len(clean) < 2:
        return None
    m = sum(clean) / len(clean)
    return (sum((x - m) ** 2 for x in clean) / (len(clean) - (0 if fn == "pstdev" else 1))) ** 0.5


def _obs_red(case):
    fn = case["fn"]
    it = c05._Intern()
    a = [V.dec(t) for t in case["a"]]
    v = _mk(case, a)
    if case.get("via") == "to_object":
        v = v.to_object()
    elif case.get("via") == "declared" and v.schema() is not None:
        from serif import Vector
        from serif.typing import DataType
        v = Vector(list(a), dtype=DataType(v.schema().kind, nullable=False))
    xs = [it.id(x) for x in a]
    clean = [x for x in a if x is not None]
    o = {"xs": xs, "clean": [it.id(x) for x in clean]}
    if fn == "len":
        try:
            o["res"] = len(v)
        except Exception as e:
            o["exc"] = err_name(e)
            o["msg"] = f"{type(e).__name__}: {e}"[:160]
        return o
    # reference
    try:
        refv = _ref_reduce(fn, clean)
        o["ref"] = ["none"] if refv is None else (["bool", refv] if fn in ("any", "all") else ["val", it.id(refv)])
    except Exception as e:
        refv = None
        o["ref"] = ["undefined", type(e).__name__]
    # Python's + along sum()'s accumulator, truthiness
    addtab, acc = [], 0
    o["zero"] = it.id(0)
    for x in clean:
        try:
            nxt = acc + x
            addtab.append([it.id(acc), it.id(x), it.id(nxt)])
            acc = nxt
        except TypeError:
            addtab.append([it.id(acc), it.id(x), "T"])
            break
        except Exception:
            addtab.append([it.id(acc), it.id(x), "R"])
            break
    o["addtab"] = addtab
    o["truth"] = [[it.id(x), bool(x)] for x in clean]
    try:
        r = {"sum": v.sum, "mean": v.mean, "min": v.min, "max": v.max, "any": v.any, "all": v.all,
             "stdev": v.stdev, "pstdev": lambda: v.stdev(population=True)}[fn]()
        if r is None:
            o["res"] = ["none"]
        elif fn in ("any", "all") and type(r) is bool:
            o["res"] = ["bool", r]
        else:
            if o["ref"][0] == "val" and _close(r, refv):
                o["res"] = ["val", o["ref"][1]]          # the same value up to the float tolerance
            else:
                o["res"] = ["val", it.id(r)]
            o["res_repr"] = repr(r)[:60]
    except Exception as e:
        o["exc"] = err_name(e)
        o["msg"] = f"{type(e).__name__}: {e}"[:160]
    o["ref_repr"] = repr(refv)[:60]
    return o


def _conv(kind, x):
    import datetime as dt
    if kind == "KInt":
        return int(x)
    if kind == "KFloat":
        return float(x)
    if kind == "KComplex":
        return complex(x)
    if kind == "KDateTime":
        return dt.datetime.combine(x, dt.datetime.min.time())
    raise TypeError(kind)


def _obs_na(case):
    from serif import Vector
    fn = case["fn"]
    it = c05._Intern()
    a = [V.dec(t) for t in case["a"]]
    v = _mk(case, a)
    xs = [it.id(x) for x in a]
    o = {"xs": xs, "dt": V.schema_obs(v.schema())}
    try:
        o["mask"] = [bool(m) for m in v.isna()._underlying]
    except Exception as e:
        o["mask"] = None
    try:
        if fn == "isna":
            r = v.isna()
            o["res"] = _bools(r)
        elif fn == "dropna":
            r = v.dropna()
            o["res"] = [it.id(x) for x in r._underlying]
        else:
            val = V.dec(case["v"])
            o["v"] = it.id(val)
            o["cls"] = [[it.id(x), V.enc(x)] for x in a + [val] if x is not None]
            conv = []
            if val is not None:
                tk = V.tag_kind(V.enc(val))
                for x in a:
                    if x is None:
                        continue
                    try:
                        conv.append([tk, it.id(x), it.id(_conv(tk, x))])
                    except Exception:
                        pass
            o["conv"] = conv
            r = v.fillna(val)
            out = list(r._underlying)
            o["res"] = [it.id(x) for x in out]
            o["len_ok"] = len(out) == len(a)
            # untouched positions: equal to the original under Python's == (a promotion may convert 1 -> 1.0)
            def same(i, x):
                if not (i < len(out) and out[i] is not None):
                    return False
                if bool(out[i] == x):
                    return True
                try:                       # the documented ladder conversion (date -> datetime at midnight ...)
                    return val is not None and bool(out[i] == _conv(V.tag_kind(V.enc(val)), x))
                except Exception:
                    return False
            o["kept"] = [True if x is None else same(i, x) for i, x in enumerate(a)]
            o["filled"] = [True if x is not None else (i < len(out) and (out[i] is val or (val is not None and type(out[i]) is type(val) and out[i] == val)))
                           for i, x in enumerate(a)]
        if not isinstance(r, Vector):
            o["skip"] = "not a vector"
        o["schema"] = V.schema_obs(r.schema())
        o["fresh"] = r is not v
        o["self_kept"] = [it.id(x) for x in v._underlying] == xs
    except Exception as e:
        o["exc"] = err_name(e)
        o["msg"] = f"{type(e).__name__}: {e}"[:160]
    return o


GRP_FNS = ["sum", "mean", "min", "max", "count", "stdev"]


def _grp_same(x, y):
    import math
    if x is None or y is None:
        return x is None and y is None
    if isinstance(y, float) and isinstance(x, (int, float)) and not isinstance(x, bool):
        return math.isclose(x, y, rel_tol=1e-9, abs_tol=1e-12)
    return x == y


def _obs_grp(case):
    """aggregate / window of ONE value column over ONE key column, one call per function.  The reference: the groups
    in first-appearance order, each reduced by Python over its None-free values in row order."""
    from serif import Table, Vector
    a = [V.dec(t) for t in case["a"]]
    keys = case["keys"]
    v = _mk(case, a).copy()
    v.name = "v"
    t = Table([Vector(list(keys), name="k"), v])
    order = list(dict.fromkeys(keys))
    groups = {k: [x for kk, x in zip(keys, a) if kk == k and x is not None] for k in order}
    bad, ran = [], []
    for fn in GRP_FNS:
        try:
            if fn == "count":
                ref = {k: len(g) for k, g in groups.items()}
            elif fn == "stdev":
                import statistics
                ref = {k: (statistics.stdev(g) if len(g) >= 2 else None) for k, g in groups.items()}
            else:
                ref = {k: _ref_reduce(fn, g) for k, g in groups.items()}
        except Exception:                                    # noqa: BLE001  Python does not define it on these values
            continue
        want = [ref[k] for k in (keys if case["window"] else order)]
        try:
            r = (t.window if case["window"] else t.aggregate)(over=t.k, **{fn + "_over": t.v})
            got = list(r.cols()[-1])
        except Exception as e:                               # noqa: BLE001
            try:                                             # the same call on the rows that hold a value
                rows = [(k, x) for k, x in zip(keys, a) if x is not None]
                t2 = Table([Vector([k for k, _ in rows], name="k"), c05._mkvec_fresh([x for _, x in rows], case.get("adt")).alias("v")
                            if hasattr(Vector, "alias") else Vector([x for _, x in rows], name="v")])
                (t2.window if case["window"] else t2.aggregate)(over=t2.k, **{fn + "_over": t2.v})
            except Exception:                                # noqa: BLE001  serif does not define it on these values at all
                continue
            bad.append(f"{fn}: raises {type(e).__name__}: {e} (it does not on the rows that hold a value)"[:200])
            continue
        ran.append(fn)
        if len(got) != len(want) or not all(_grp_same(x, y) for x, y in zip(got, want)):
            bad.append(f"{fn}: gives {got!r}; Python's reduction of each group's None-free values gives {want!r}"[:300])
    return {"bad": bad, "ran": ran}


def observe(case):
    try:
        op = case["op"]
        if op in ("bin", "un"):
            return c05.observe(case)
        c05._LIVED = case.get("lived")
        c05._ORIGIN = case.get("origin")
        before = V.LIVED_REALISED[0]
        obefore = c05.ORIGIN_REALISED[0]
        o = {"cmp": _obs_cmp, "red": _obs_red, "na": _obs_na, "grp": _obs_grp}[op](case)
        if c05._LIVED is not None:
            o["lived_ok"] = V.LIVED_REALISED[0] > before
        if c05._ORIGIN is not None:
            o["origin_ok"] = c05.ORIGIN_REALISED[0] > obefore
        return o
    except Exception as e:
        return {"broken": f"{type(e).__name__}: {e}"[:200]}


# ------------------------------------------------------------------ Coq emitter

_cid, _cids = c05._cid, c05._cids


def _ctab(tab):
    def ent(r):
        return "STypeErr" if r == "T" else ("SRaise" if r == "R" else f"(SOk {cbool(r)})")
    return clist(f"(({a}, {b}), {ent(r)})" for a, b, r in tab)


def _odt(s):
    return "None" if s is None else f"(Some {V.coq_dtype(s)})"


def _vinfo(tag):
    return V.tag_vinfo(tag)[len("(Some "):-1]


def emit(case, obs):
    if "broken" in obs:
        return "KBad"
    if "skip" in obs:
        return "KSkip"
    op = case["op"]
    if op == "grp":
        return "KSkip"
    if op in ("bin", "un"):
        t = c05.emit(case, obs)
        return {"CSkip": "KSkip", "CBad": "KBad"}.get(t, f"KArith ({t})")
    if op == "cmp":
        if obs.get("res") is None and "exc" not in obs:
            return "KBad"
        form = case["form"]
        scalar = form in ("scalar", "str", "dt", "date")
        co = "CObsErr" if "exc" in obs else f"(CObsOk {clist(cbool(b) for b in obs['res'])} {_odt(obs['schema'])})"
        sk = obs["self_kind"]
        if sk is not None and sk[0] == "KDate":
            oc = obs["other_cls"]
            if oc == "vec":
                ok = obs.get("other_kind")
                other = f"(DCVec {'None' if ok is None else '(Some ' + ok[0] + ')'} {_cids(obs['ys'])})"
            elif oc == "seq":
                other = f"(DCSeq {_cids(obs['ys'])})"
            elif oc == "str":
                other = f"(DCStr {obs['ys']})"
            elif oc == "datetime":
                other = f"(DCDatetime {obs['ys']})"
            else:
                other = f"(DCScalar {obs['ys']})"
            t = obs["tabs"]
            return f"KDateCompare {_ctab(t['cmp'])} {_ctab(t['iso'])} {_ctab(t['dt'])} {_cids(obs['xs'])} {other} {co}"
        other = (f"(OScalar {obs['ys']})" if scalar else
                 (f"(OVec {_cids(obs['ys'])})" if form.startswith("vec") else f"(OSeq {_cids(obs['ys'])})"))
        return f"KCompare {_ctab(obs['tabs']['cmp'])} {_cids(obs['xs'])} {other} {co}"
    if op == "red":
        if case["fn"] == "len":
            return "KBad" if "exc" in obs else f"KLen {_cids(obs['xs'])} {obs['res']}"
        if "exc" in obs:
            ro = "RErr"
        else:
            r = obs["res"]
            ro = "RNone" if r[0] == "none" else (f"(RBool {cbool(r[1])})" if r[0] == "bool" else f"(RVal {r[1]})")
        ref = obs["ref"]
        fres = f"(SOk {ref[1]})" if ref[0] == "val" else "SRaise"
        ftab = clist([f"({clist(str(i) for i in obs['clean'])}, {fres})"])
        truth = clist(f"({i}, {cbool(b)})" for i, b in obs["truth"])
        return (f"KReduce {COQ_RED[case['fn']]} {c05._tab2(obs['addtab'])} {obs['zero']} {truth} {ftab} "
                f"{_cids(obs['xs'])} {ro}")
    if op == "na":
        fn = case["fn"]
        if fn == "isna":
            if "exc" in obs or obs["res"] is None:
                return "KBad"
            return f"KIsna {_cids(obs['xs'])} {clist(cbool(b) for b in obs['res'])} {_odt(obs['schema'])}"
        if fn == "dropna":
            if "exc" in obs:
                return "KBad"
            return f"KDropna {_odt(obs['dt'])} {_cids(obs['xs'])} {_cids(obs['res'])} {_odt(obs['schema'])}"
        if "v" not in obs:
            return "KBad"
        if any(tag[0] == "?" for _, tag in obs["cls"]):
            return "KSkip"
        cl = clist(f"({i}, {_vinfo(tag)})" for i, tag in obs["cls"])
        cv = clist(f"(({k}, {i}), {r})" for k, i, r in obs["conv"])
        fo = "FObsErr" if "exc" in obs else f"(FObsOk {_cids(obs['res'])} {_odt(obs['schema'])})"
        return f"KFillna {cl} {cv} {_cid(obs['v'])} {_cids(obs['xs'])} {_odt(obs['dt'])} {fo}"
    return "KBad"


# ------------------------------------------------------------------ independent oracle

def _w(case):
    extra = f" b={case['b']}" if "b" in case else (f" v={case['v']}" if "v" in case else "")
    form = f"/{case['form']}" if "form" in case else ""
    adt = f" dtype={case['adt']}" if "adt" in case else ""
    return f"{case['fn']}{form} a={case['a']}{extra}{adt}"


def oracle(case, obs):
    if "broken" in obs:
        return f"observer-broken: {obs['broken']}"
    if "skip" in obs:
        return None
    op = case["op"]
    if op in ("bin", "un"):
        ref = obs.get("ref")
        if ref in ("mismatch", "undefined"):
            return None if (ref == "undefined" or "exc" in obs) else c05.oracle(case, obs)
        if "exc" in obs:
            return (f"arith-none-raises: {_w(case)} raised {obs['msg']} although Python defines the operation on "
                    f"every pair of non-None operands")
        got = obs["res"].get("vals")
        if got is None or len(got) != len(ref):
            return f"arith-shape: {_w(case)} returned {obs['res']}"
        for i, e in enumerate(ref):
            if e is None and got[i] is not None:
                return f"arith-none-not-propagated: {_w(case)}: position {i} has a None operand but the result holds a value"
            if e is not None and got[i] is None:
                return f"arith-value-lost: {_w(case)}: position {i} has two values but the result is None"
        return None
    if op == "cmp":
        ref = obs["ref"]
        if ref == "mismatch":
            return None if "exc" in obs else f"cmp-length-mismatch-accepted: {_w(case)}"
        if ref == "undefined":
            return None
        if "exc" in obs:
            return (f"cmp-none-raises: {_w(case)} raised {obs['msg']} although Python defines the comparison on "
                    f"every pair of non-None operands")
        res = obs["res"]
        if res is None:
            return f"cmp-not-bool: {_w(case)} returned non-bool elements {obs.get('res_bad')}"
        if len(res) != len(ref):
            return f"cmp-shape: {_w(case)} returned {len(res)} elements for {len(ref)}"
        for i, na in enumerate(obs["none_at"]):
            if na and res[i] is not False:
                return f"cmp-none-not-false: {_w(case)}: position {i} has a None operand but compares {res[i]}"
        if obs["schema"] != ["KBool", False]:
            return f"cmp-dtype: {_w(case)} reports {obs['schema']}, not a non-nullable bool vector"
        return None
    if op == "grp":
        if obs["bad"]:
            return (f"group-aggregate-none: {'window' if case['window'] else 'aggregate'} of {case['a']} over keys "
                    f"{case['keys']}: {obs['bad'][0]}")
        return None
    if op == "red":
        if case["fn"] == "len":
            if "exc" in obs or obs["res"] != len(case["a"]):
                return f"len-wrong: len of {case['a']} is {obs.get('res', obs.get('msg'))}"
            return None
        ref = obs["ref"]
        if ref[0] == "undefined":
            return None
        if "exc" in obs:
            return (f"reduce-raises: {_w(case)} raised {obs['msg']}; Python's own {case['fn']} of the None-free "
                    f"list is {obs['ref_repr']}")
        if obs["res"] != ref:
            return (f"reduce-wrong: {_w(case)} = {obs.get('res_repr', obs['res'])}; the reduction of the None-free "
                    f"list is {obs['ref_repr']}")
        return None
    if op == "na":
        fn = case["fn"]
        a = case["a"]
        isnone = [t[0] == "N" for t in a]
        if fn == "isna":
            if "exc" in obs:
                return f"isna-raises: {_w(case)} raised {obs['msg']}"
            if obs["res"] != isnone:
                return f"isna-wrong: {_w(case)} = {obs['res']}"
            if obs["schema"] != ["KBool", False]:
                return f"isna-dtype: {_w(case)} reports {obs['schema']}"
            return None
        mask = obs.get("mask")
        if mask != isnone:
            return f"isna-wrong: isna of {a} = {mask}"
        if fn == "dropna":
            if "exc" in obs:
                return f"dropna-raises: {_w(case)} raised {obs['msg']}"
            want = [x for x, m in zip(obs["xs"], mask) if not m]
            if obs["res"] != want:
                return f"dropna-isna-disagree: {_w(case)} kept ids {obs['res']}, isna marks {mask} (ids {obs['xs']})"
            if obs["schema"] is not None and obs["schema"][1]:
                return f"dropna-nullable: {_w(case)} reports {obs['schema']}"
            if obs["dt"] is not None and (obs["schema"] is None or obs["schema"][0] != obs["dt"][0]):
                return f"dropna-kind: {_w(case)} reports {obs['schema']} for a {obs['dt']} vector"
            if not obs["fresh"] or not obs["self_kept"]:
                return f"dropna-in-place: {_w(case)} changed or returned its operand"
            return None
        v = case["v"]
        k = obs["dt"][0] if obs["dt"] is not None else None
        in_domain = (v[0] == "N" or k is None or k == "KObject" or
                     V.join_kind(k, V.tag_kind(v)) != "KObject")
        if "exc" in obs:
            if in_domain:
                return f"fillna-raises: {_w(case)} raised {obs['msg']}"
            return None
        if not obs["len_ok"]:
            return f"fillna-length: {_w(case)} changed the length"
        for i, m in enumerate(mask):
            if m and not obs["filled"][i]:
                return f"fillna-not-filled: {_w(case)}: position {i} is None but was not replaced by the value"
            if not m and not obs["kept"][i]:
                return f"fillna-touched: {_w(case)}: position {i} held a value and was changed"
        if v[0] != "N" and obs["schema"] is not None and obs["schema"][1]:
            return f"fillna-nullable: {_w(case)} reports {obs['schema']} although no None is left"
        if v[0] != "N" and k is not None and obs["schema"] is None:
            return f"fillna-untyped: {_w(case)} lost its dtype"
        if not obs["fresh"] or not obs["self_kept"]:
            return f"fillna-in-place: {_w(case)} changed or returned its operand"
        return None
    return None


def nontrivial(case, obs):
    if "skip" in obs or "broken" in obs:
        return False
    a = case["a"]
    return any(t[0] == "N" for t in a) and any(t[0] != "N" for t in a)


def describe(case, obs, stream):
    if "origin" in case:
        return ["origin:" + (case["origin"] if obs.get("origin_ok") else "fell back to a fresh vector")]
    if "lived" in case:
        return ["lived-in:" + ("history realised" if obs.get("lived_ok") else "fell back to a fresh vector")]
    return _describe(case, obs, stream)


def _describe(case, obs, stream):
    if "skip" in obs:
        return [f"{stream}:skipped"]
    if case["op"] == "grp":
        return [f"group:{case['pat']}:{'window' if case['window'] else 'aggregate'}"] + [f"group:fn:{f}" for f in obs.get("ran", [])]
    ref = obs.get("ref")
    tail = "exc" if "exc" in obs else ("undefined" if ref == "undefined" or (isinstance(ref, list) and ref and ref[0] == "undefined")
                                       else ("mismatch" if ref == "mismatch" else "defined"))
    n = sum(1 for t in case["a"] if t[0] == "N")
    return [f"{stream}:{case['fn']}:{tail}", f"{stream}:len{len(case['a'])}", f"{stream}:nones{n}"]


def shrink(case):
    a = case["a"]
    b = case.get("b")
    paired = isinstance(b, list) and (not b or isinstance(b[0], list)) and len(b) == len(a) and case["op"] in ("bin", "cmp")
    for i in range(len(a)):
        c = dict(case, a=a[:i] + a[i + 1:])
        if paired:
            c["b"] = b[:i] + b[i + 1:]
        elif isinstance(b, list) and (not b or isinstance(b[0], list)) and case["op"] in ("bin", "cmp"):
            continue
        if all(t[0] == "N" for t in c["a"]) and "adt" not in c:
            continue                               # would silently change the vector's dtype to object
        yield c
