"""C09 — inner_join returns exactly the key-equal row pairs, in left-major order.

Streams
  random    table pairs with 0-8 rows, 0-3 payload columns, 1-3 key columns over
            int/str/bool/date/mixed/None with heavy duplication, keys by name and by external
            Vector, partially equal composite keys, first-row-unmatched
  small     the same generator restricted to <= 3 rows (dense coverage of the small shapes)
  strkeys   string keys only (the hash-seed sensitive ones)
  refused   key specifications the library refuses (dtype kinds differ, float keys, missing
            column, wrong lengths): observed only as "an error"
"""
from harness.props import _joins as J

PID = "C09"
TRANSLATE = ["EqJoinIndex.v"]    # translator tie: the right-side hash index loops regenerated from /repo (coq/gen_proofs/EqJoinIndex.v)
PRELUDE = J.PRELUDE_FMT % PID
FAILING = "C09.failing"
SHARD = 300
HASHSEEDS = {"quick": ["0"], "thorough": ["0", "1", "12345"]}
HASH_INDEPENDENT_STREAMS = ("refused",)
ASSUMED = J.ASSUMED
RULE = ("random table pairs (0-8 rows, 0-3 payload columns, 1-3 key columns over int/str/bool/date/mixed/None "
        "drawn from pools of 1-4 values so that keys repeat heavily; keys by name or external Vector; a "
        "sentinel forces first-row-unmatched in a quarter of the cases). Distinct = canonical JSON of the case; "
        "non-trivial = some key occurs >= 2 times on BOTH sides, or composite keys of a left and a right row "
        "agree on a proper, non-empty subset of components.")
EXHAUSTIVE = {"quick": False, "thorough": False}
DESIGN_REF = "DESIGN.md section 4, C09 / C10 / C11"
LEVEL_TEXT = ("theorems (all tables, any number of key columns, == an equivalence): the hash index returns the "
              "ascending matching right rows; inner_join's table holds exactly the nested-loop row pairs, left "
              "cells then right cells, names left ++ right; the specification determines the result uniquely")
LEVEL_NOTE = ("Trusted: Coq 8.16.1 kernel and vm_compute; the hand-written model Model/Join.v (tied to table.py by "
              "the correspondence check on the generated table pairs only); the dict-as-association-list assumption "
              "(hash-seed independence is tested under 3 seeds, not proved); the harness. Result schemas and 'inputs "
              "unchanged' are checked by the oracle, not proved.")


def streams(rng, tier):
    nrand, nsmall, nstr, nref = (1200, 800, 400, 150) if tier == "quick" else (7000, 3000, 3000, 400)
    out = []
    rand = []
    for _ in range(nrand):
        c = J.gen_pair(rng, how="inner")
        _pick_expect(rng, c)
        rand.append(c)
    out.append(("random", rand))
    small = []
    for _ in range(nsmall):
        c = J.gen_pair(rng, maxrows=3, how="inner")
        _pick_expect(rng, c)
        small.append(c)
    out.append(("small", small))
    # keys unique on both sides (every expectation holds): the place for "unique side" fast paths; rows must
    # still come out in left-row order, whatever the expectation says
    uniq = []
    for _ in range(250 if tier == "quick" else 2500):
        c = J.gen_pair(rng, how="inner", min_rows=4, force_sort=rng.choice(["int", "str", "hash", "date"]))
        try:
            c = J.dedupe_side(J.dedupe_side(c, "L"), "R")
            ok = [e for e in J.EXPECTS + [None] if J.must_raise(c, c["how"], e) is None]
        except Exception:                                    # noqa: BLE001
            continue
        if ok:
            c["expect"] = rng.choice(ok)
            uniq.append(c)
    out.append(("unique", uniq))
    out.append(("strkeys", [J.gen_pair(rng, how="inner", force_sort="str", min_rows=2) for _ in range(nstr)]))
    out.append(("refused", [J.gen_refused(rng, how="inner") for _ in range(nref)]))
    return out


def _pick_expect(rng, c):
    """mostly many_to_many; sometimes another expectation that the generated keys satisfy; sometimes ANY expectation,
    the default included ("any_expect": when the call answers with a table, that table holds exactly the key-equal
    pairs - whether the call should have been refused instead is C11's subject, not judged here)"""
    r = rng.random()
    if r < 0.25:
        ok = [e for e in J.EXPECTS + [None] if J.must_raise(c, c["how"], e) is None]
        c["expect"] = rng.choice(ok)
    elif r < 0.40:
        c["expect"] = rng.choice(J.EXPECTS + [None, None])
        c["any_expect"] = True


def observe(case):
    return J.observe_join(case)


def emit(case, obs):
    return J.emit_join(case, obs)


def oracle(case, obs):
    if "broken" in obs:
        return "observer: " + obs["broken"]
    if case.get("any_expect"):
        if "exc" in obs["res"]:
            return J.inputs_unchanged(obs)
        why = J.judge_call(case, obs, obs["res"], case["how"], "many_to_many")
    else:
        why = J.judge_call(case, obs, obs["res"], case["how"], case["expect"])
    return why or J.inputs_unchanged(obs)


def nontrivial(case, obs):
    if "broken" in obs or not J.in_domain(case, obs):
        return False
    return J.dup_both_sides(case) or J.partial_agreement(case)


def describe(case, obs, stream):
    return J.shape_labels(case, obs, stream)


def shrink(case):
    return J.shrink_join(case)


def neighbours(case, rng):
    out = []
    for c2 in J.shrink_join(case):
        out.append(c2)
    for _ in range(30):
        out.append(J.gen_pair(rng, how=case["how"]))
    return out[:120]
