"""C03 — a vector's reported dtype is always truthful.

Two kinds of streams.

(1) dedicated: PROGRAMS over the alphabet of Model/Typed.v (construction by inference, __setitem__,
    _promote, reflected / binary arithmetic, unary operators, ~, << and >>, cast, fillna, dropna, isna,
    comparisons, __getitem__, sort_by, copy / copy(new_values), to_object, T, Vector.new, method
    broadcasting, table construction, row views, Table.T).  After every operation the implementation's
    result (or the mutated operand) is observed: element tags, schema(), and WRITE-BACK (v[i] = v[i]
    for every position, on the vector itself unless it refuses with AliasError / is a row view, then
    on a copy).  Coq runs the model on the same program and compares dtype and element classes step
    by step; the Python oracle states the property directly.
      ops      every operation x every operand column (8 kinds x nullable, mixed-ladder columns,
               subclass instances, Decimal, empty, all-None) x a scalar / sequence / vector operand of
               every class
      setitem  every column x every value class x key form, with the odd value at each position
      ragged   >> with operands of unequal length and what can be done with the result
      progs    random compositions (2-6 operations)
(2) foreign:<cxx> — the GLOBAL MONITOR required by the quantifier "every output of every other check":
    a sample (quick) / all (thorough) of the cases of the other 19 modules, executed through THEIR
    observe() with install_monitor() active: the public and operator methods of Vector, Table, Row,
    the typed subclasses and MethodProxy are wrapped in the implementation subprocess so that every
    Vector / Table they return (tables: every column, recursively) and `self` after every mutating call
    is tested for truthfulness and for write-back on an independent copy.  A hit is counted only when
    all Vector operands of the call were truthful on entry (preservation), so vectors that a foreign
    case deliberately builds with an explicit, lying dtype= are not blamed on the library.
"""
import importlib
import itertools
import json

from harness import values as V
from harness.core import cbool, clist, cnat, cz, err_name

PID = "C03"
TRANSLATE = ["EqTyping.v"]   # translator tie: infer_dtype / promote_with / validate_scalar regenerated; Part 3 restates C03 for them
PRELUDE = ("From Coq Require Import List ZArith.\nImport ListNotations.\n"
           "From Serif Require Import Base.PyVal Base.StErr Spec.PySlice Model.Index Model.SetItem Model.Typed Corr.C03.")
FAILING = "C03.failing"
SHARD = 1500
RULE = ("dedicated: programs over the operation alphabet — every operation x operand column (8 kinds x nullable, "
        "mixed-ladder, subclass, Decimal, empty, all-None) x operand class, every column x value class x key form for "
        "__setitem__, ragged >>, random compositions; foreign: the other modules' own cases run under the global "
        "monitor. Distinct = canonical JSON of the case. Non-trivial = (dedicated) some step's result dtype differs "
        "from its left operand's dtype, or the step is one of the non-re-inferring paths (setitem, _promote, <<, >>, "
        "cast, fillna, dropna, isna / comparisons, getitem, sort_by, copy, to_object, T, new, ~, table / row); "
        "(foreign) the monitor checked at least one vector returned by a non-re-inferring method or whose dtype "
        "differs from the receiver's.")
EXHAUSTIVE = {"quick": False, "thorough": False}
EXHAUSTIVE_NOTE = ("the (operation, operand column, operand class) table and the (column, value class, key form) table of "
                   "__setitem__ are enumerated completely in both tiers; compositions and foreign cases are sampled "
                   "(quick) / all foreign cases are run (thorough). The theorems cover all lengths and values.")
ASSUMED = [
    "a value is seen by the typing code only through infer_kind(value) / type(value) (as in C04)",
    "DataType kinds are in the range of infer_kind: cast(<a subclass of a ladder class>, e.g. an IntEnum or class F(float)) "
    "yields a kind the ladder code does not know; its elements are instances of that kind, yet write-back is refused "
    "(reported as an observation, outside the generator domain)",
    "int(x), float(x), complex(x), datetime.combine(x, ...) return an instance of exactly that class (conv_ok); T(x) "
    "returns an instance of T",
    "a Vector object that is an ELEMENT of another vector (ragged >>) is modelled by the class its dtype dispatches to "
    "(_Int, _Float, _String, _Date, Vector); after an in-place promotion the Python class stays what it was, such steps are "
    "not compared",
    "the global monitor sees what passes through the wrapped public methods in the harness subprocess; a hit is blamed on a "
    "call only if all its Vector operands were truthful on entry",
]
HASH_INDEPENDENT_STREAMS = ("ops", "setitem", "ragged", "progs")
OTHERS = ["c01", "c02", "c04", "c05", "c06", "c07", "c08", "c09", "c10", "c11", "c12", "c13", "c14", "c15", "c16",
          "c17", "c18", "c19", "c20", "_views"]       # _views: table view histories of this check's own (harness/props/_views.py)
QUICK_PER_MODULE = 320

# ------------------------------------------------------------------ generators

H = lambda x: float(x).hex()
COLUMNS = {
    "bool": [["b", True], ["b", False], ["b", True]],
    "bool?": [["b", True], ["N"], ["b", False]],
    "int": [["i", 1], ["i", 2], ["i", -3]],
    "int?": [["i", 1], ["N"], ["i", 3]],
    "float": [["f", H(1.5)], ["f", H(2.0)], ["f", H(-0.5)]],
    "float?": [["f", H(1.5)], ["N"], ["f", H(3.25)]],
    "complex": [["c", H(1.0), H(2.0)], ["c", H(0.0), H(0.0)], ["c", H(3.0), H(0.0)]],
    "complex?": [["c", H(1.0), H(2.0)], ["N"], ["c", H(3.0), H(0.0)]],
    "str": [["s", "p"], ["s", "2020-01-05"], ["s", "rr"]],
    "str?": [["s", "p"], ["N"], ["s", "2020-01-05"]],
    "isostr": [["s", "2020-01-05"], ["s", "2021-12-31"]],
    "date": [["d", 738000], ["d", 738001], ["d", 737000]],
    "date?": [["d", 738000], ["N"], ["d", 738002]],
    "datetime": [["dt", 738000, 60], ["dt", 738001, 0], ["dt", 737002, 5]],
    "datetime?": [["dt", 738000, 60], ["N"], ["dt", 738002, 5]],
    "object": [["i", 1], ["s", "q"], ["f", H(2.5)]],
    "object?": [["i", 1], ["s", "q"], ["N"]],
    "float/int": [["i", 1], ["f", H(2.5)], ["b", True]],            # <float> holding an int and a bool
    "int/bool": [["b", True], ["i", 2], ["N"]],                      # <int?> holding a bool
    "datetime/date": [["d", 738000], ["dt", 738001, 30]],            # <datetime> holding a date
    "int/sub": [["i", 1], ["IE", 2], ["I2", 4]],
    "float/sub": [["F", H(2.0)], ["f", H(1.5)]],
    "str/sub": [["S", "zz"], ["s", "a"]],
    "datetime/sub": [["DT2", 738001, 0], ["dt", 738000, 60]],
    "Decimal": [["Dec", "1.5"], ["Dec", "2"]],
    "bytes": [["y", "6162"], ["y", "00"]],
    "list": [["l", [["i", 1]]], ["l", []]],
    "empty": [],
    "allnone": [["N"], ["N"]],
    "one": [["i", 5]],
}
VALUES = [["N"], ["b", True], ["i", 7], ["f", H(2.5)], ["c", H(0.0), H(1.0)], ["s", "z"], ["y", "6162"],
          ["d", 738100], ["dt", 738100, 30], ["Dec", "9"], ["F", H(4.0)], ["IE", 3], ["S", "zz"], ["I2", 5],
          ["DT2", 738001, 0], ["td", 2], ["l", [["i", 1]]]]
CAST_TARGETS = ["bool", "int", "float", "complex", "str", "date", "datetime", "Decimal", "list", "tuple", "callable",
                "object"]
ARITH = ["add", "sub", "mul", "truediv", "floordiv", "mod", "pow", "rsub", "rmul", "rtruediv", "rpow"]
CMP = ["eq", "ne", "lt", "le", "gt", "ge"]
METHODS = {"str": [("upper", []), ("startswith", [["s", "p"]]), ("split", []), ("encode", []), ("count", [["s", "r"]]),
                   ("find", [["s", "q"]]), ("before", [["s", "-"]])],
           "date": [("isoformat", []), ("weekday", []), ("replace", []), ("eomonth", []), ("prop:year", []),
                    ("toordinal", [])],
           "int": [("bit_length", []), ("prop:real", []), ("to_bytes", [["i", 4], ["s", "big"]])],
           "float": [("is_integer", []), ("hex", []), ("prop:imag", [])]}
NONREINFER = {"set", "promote", "lshift", "rshift", "cast", "fillna", "dropna", "isna", "isinstance", "compare", "getitem",
              "sort", "copy", "copy_new", "to_object", "T", "new", "invert", "table", "row", "tableT", "fallback"}


def _col(name):
    return [list(x) for x in COLUMNS[name]]


def _vec(name):
    return {"op": "vector", "l": _col(name)}


def _prog(*ops):
    return {"ops": list(ops)}


def _others_for(name, rng=None):
    """scalar / sequence / vector operands for a column of length n"""
    n = len(COLUMNS[name])
    out = [["scalar", v] for v in VALUES]
    for v in VALUES[:12]:
        seq = [v] + [COLUMNS[name][j] if COLUMNS[name] else v for j in range(1, n)]
        out.append(["list", seq[:n]])
        seq2 = ([COLUMNS[name][j] for j in range(0, n - 1)] + [v]) if n else []
        out.append(["vecl", seq2])
    return out


def ops_cases():
    cs = []
    for name in COLUMNS:
        n = len(COLUMNS[name])
        base = _vec(name)
        # reflected addition and binary arithmetic: a wider / narrower / incompatible operand on either side
        for o in _others_for(name):
            pre = [base]
            if o[0] == "vecl":                      # a Vector operand: a second input of the program
                pre = [base, {"op": "vector", "l": o[1]}]
                o = ["vec", 1]
            cs.append({"ops": pre + [{"op": "radd", "i": 0, "other": o}]})
            cs.append({"ops": pre + [{"op": "arith", "fn": "add", "i": 0, "other": o}]})
            cs.append({"ops": pre + [{"op": "lshift", "i": 0, "other": o}]})
            cs.append({"ops": pre + [{"op": "rshift", "i": 0, "other": o}]})
        for fn in ARITH:
            # (negative and zero ints: int ** -1 is a float, int // -2 floors, x % -3 takes the divisor's sign)
            for v in (["b", True], ["i", 2], ["f", H(0.5)], ["c", H(0.0), H(1.0)], ["N"], ["s", "x"], ["td", 1], ["i", -1], ["i", -2], ["i", 0]):
                cs.append(_prog(base, {"op": "arith", "fn": fn, "i": 0, "other": ["scalar", v]}))
        for fn in ("neg", "pos", "abs"):
            cs.append(_prog(base, {"op": "unary", "fn": fn, "i": 0}))
        cs.append(_prog(base, {"op": "invert", "i": 0}))
        for t in CAST_TARGETS:
            cs.append(_prog(base, {"op": "cast", "i": 0, "t": t}))
        for v in VALUES:
            cs.append(_prog(base, {"op": "fillna", "i": 0, "v": v}))
        for o in ("dropna", "isna", "copy", "to_object", "T"):
            cs.append(_prog(base, {"op": o, "i": 0}))
        cs.append(_prog(base, {"op": "isinstance", "i": 0, "types": ["int", "float"]}))
        for fn in CMP:
            for v in (["i", 2], ["f", H(1.5)], ["s", "p"], ["N"], ["d", 738000], ["dt", 738000, 60]):
                cs.append(_prog(base, {"op": "compare", "fn": fn, "i": 0, "other": ["scalar", v]}))
        cs.append(_prog(base, {"op": "compare", "fn": "eq", "i": 0, "other": ["list", _col(name)]}))
        for key in (["slice", 0, 2, None], ["slice", None, None, -1], ["slice", 5, 9, None], ["maskv", [j % 2 == 0 for j in range(n)]],
                    ["list", [["b", j % 2 == 1] for j in range(n)]], ["list", [["i", -1], ["i", 0]]], ["idxv", [0, 0]]):
            cs.append(_prog(base, {"op": "getitem", "i": 0, "key": key}))
        for rev in (False, True):
            for nal in (True, False):
                cs.append(_prog(base, {"op": "sort", "i": 0, "reverse": rev, "na_last": nal}))
        for k in ("int", "float", "complex", "datetime", "str", "bool"):
            cs.append(_prog(base, {"op": "promote", "i": 0, "k": k}))
        for v in VALUES[:10]:
            cs.append(_prog(base, {"op": "copy_new", "i": 0, "l": [v] + _col(name)[:1]}))
        cs.append(_prog(base, {"op": "copy_new", "i": 0, "l": _col(name)[::-1]}))
        cs.append(_prog(base, {"op": "copy_new", "i": 0, "l": []}))
        # tables: construction keeps the column vectors; row views; transposition
        for other in ("int", "float?", "str", "int?", "bool", "date?"):
            if len(COLUMNS[other]) == n and n:
                both = _prog(base, _vec(other))
                cs.append(_prog(base, _vec(other), {"op": "table", "js": [0, 1]}))
                for r in range(n):
                    cs.append(_prog(base, _vec(other), {"op": "row", "js": [0, 1], "r": r}))
                    cs.append(_prog(base, {"op": "row", "js": [0, 0], "r": r}))
                cs.append(_prog(base, _vec(other), {"op": "tableT", "js": [0, 1]}))
                cs.append(_prog(base, _vec(other), {"op": "lshift", "i": 0, "other": ["vec", 1]}))
                cs.append(_prog(base, _vec(other), {"op": "rshift", "i": 0, "other": ["vec", 1]}))
                cs.append(_prog(base, _vec(other), {"op": "rshift", "i": 0, "other": ["tab", [1, 1]]}))
                cs.append(_prog(base, _vec(other), {"op": "lshift", "i": 0, "other": ["tab", [1]]}))
                cs.append(_prog(base, _vec(other), {"op": "arith", "fn": "add", "i": 0, "other": ["vec", 1]}))
                cs.append(_prog(base, _vec(other), {"op": "radd", "i": 0, "other": ["vec", 1]}))
        kind = name.rstrip("?").split("/")[0]
        for (m, args) in METHODS.get(kind, []):
            cs.append(_prog(base, {"op": "method", "i": 0, "name": m, "args": args}))
        if kind == "date":
            for o in (["scalar", ["i", 3]], ["scalar", ["b", True]], ["scalar", ["td", 1]], ["list", [["i", 1]] * n],
                      ["vecl", [["i", 1]] * n], ["vecl", [["i", 1], ["N"], ["i", 2]][:n]]):
                cs.append(_prog(base, {"op": "arith", "fn": "add", "i": 0, "other": o}))
            for o in (["scalar", ["s", "2020-01-05"]], ["scalar", ["dt", 738000, 0]], ["vecl", _col("datetime")[:n]]):
                cs.append(_prog(base, {"op": "compare", "fn": "lt", "i": 0, "other": o}))
    for v in VALUES:
        for n in (0, 1, 3):
            for ts in (False, True):
                cs.append(_prog({"op": "new", "x": v, "n": n, "typesafe": ts}))
    return cs


def setitem_cases():
    cs = []
    for name in COLUMNS:
        n = len(COLUMNS[name])
        if n == 0:
            cs.append(_prog(_vec(name), {"op": "set", "i": 0, "key": ["slice", None, None, None], "value": ["list", []]}))
            continue
        last = COLUMNS[name][-1]
        for v in VALUES:
            base = _vec(name)
            cs.append(_prog(base, {"op": "set", "i": 0, "key": ["int", 0], "value": ["scalar", v]}))
            cs.append(_prog(base, {"op": "set", "i": 0, "key": ["int", -1], "value": ["scalar", v]}))
            cs.append(_prog(base, {"op": "set", "i": 0, "key": ["maskv", [True] + [False] * (n - 1)], "value": ["scalar", v]}))
            if n >= 2:
                # multi-value writes with the odd value at each position
                cs.append(_prog(base, {"op": "set", "i": 0, "key": ["slice", 0, 2, None], "value": ["list", [v, last]]}))
                cs.append(_prog(base, {"op": "set", "i": 0, "key": ["slice", 0, 2, None], "value": ["list", [last, v]]}))
                cs.append(_prog(base, {"op": "set", "i": 0, "key": ["list", [["i", -1], ["i", 0]]], "value": ["tuple", [v, last]]}))
                cs.append(_prog(base, {"op": "set", "i": 0, "key": ["slice", None, None, None],
                                       "value": ["vector", [v] * n]}))
        # a promoting value first, an incompatible / None value later, and the reverse
        for a, b in (( ["f", H(2.5)], ["s", "z"]), (["s", "z"], ["f", H(2.5)]), (["f", H(2.5)], ["N"]), (["N"], ["c", H(0.0), H(1.0)]),
                     (["i", 7], ["f", H(2.5)]), (["dt", 738100, 30], ["N"])):
            if n >= 2:
                cs.append(_prog(_vec(name), {"op": "set", "i": 0, "key": ["slice", 0, 2, None], "value": ["list", [a, b]]}))
        # the write-back itself as an operation
        for j in range(n):
            cs.append(_prog(_vec(name), {"op": "set", "i": 0, "key": ["int", j], "value": ["scalar", COLUMNS[name][j]]}))
    return cs


def ragged_cases():
    cs = []
    names = ["int", "int?", "float", "float?", "str?", "date", "object?", "bool?"]
    for a in names:
        for b in ("one", "empty", "Decimal", "datetime/date"):
            base = _prog(_vec(a), _vec(b))["ops"]
            cs.append({"ops": base + [{"op": "rshift", "i": 0, "other": ["vec", 1]}]})
            cs.append({"ops": base + [{"op": "rshift", "i": 1, "other": ["vec", 0]}]})
            cs.append({"ops": base + [{"op": "rshift", "i": 0, "other": ["tab", [1]]}]})
            cs.append({"ops": base + [{"op": "rshift", "i": 0, "other": ["tab", [1, 1]]}]})
            cs.append({"ops": base + [{"op": "rshift", "i": 0, "other": ["list", _col(b)]}]})
            cs.append({"ops": base + [{"op": "table", "js": [0, 1]}]})
            cs.append({"ops": base + [{"op": "row", "js": [0, 1], "r": 0}]})
            for follow in ({"op": "cast", "i": 2, "t": "int"}, {"op": "cast", "i": 2, "t": "str"}, {"op": "copy", "i": 2},
                           {"op": "to_object", "i": 2}, {"op": "dropna", "i": 2}, {"op": "isna", "i": 2},
                           {"op": "fillna", "i": 2, "v": ["i", 1]}, {"op": "getitem", "i": 2, "key": ["slice", 0, 1, None]},
                           {"op": "lshift", "i": 2, "other": ["scalar", ["i", 1]]}, {"op": "T", "i": 2},
                           {"op": "sort", "i": 2, "reverse": False, "na_last": True}):
                cs.append({"ops": base + [{"op": "rshift", "i": 0, "other": ["vec", 1]}, follow]})
    return cs


def _rand_op(rng, heap_names, nheap):
    """one random operation over heap positions < nheap"""
    i = rng.randrange(nheap)
    kind = rng.choice(["radd", "arith", "unary", "invert", "set", "set", "promote", "lshift", "lshift", "rshift", "cast",
                       "fillna", "dropna", "isna", "compare", "getitem", "sort", "copy", "to_object", "T", "table", "row",
                       "copy_new", "vector", "method"])
    v = rng.choice(VALUES)
    if kind == "vector":
        return _vec(rng.choice(list(COLUMNS)))
    if kind in ("radd", "lshift", "rshift"):
        other = rng.choice([["scalar", v], ["list", [rng.choice(VALUES) for _ in range(rng.randint(0, 3))]],
                            ["vec", rng.randrange(nheap)], ["tab", [rng.randrange(nheap) for _ in range(rng.randint(1, 2))]]])
        if kind == "radd" and other[0] == "tab":
            other = ["scalar", v]
        return {"op": kind, "i": i, "other": other}
    if kind == "arith":
        return {"op": "arith", "fn": rng.choice(ARITH), "i": i,
                "other": rng.choice([["scalar", v], ["vec", rng.randrange(nheap)]])}
    if kind == "unary":
        return {"op": "unary", "fn": rng.choice(["neg", "pos", "abs"]), "i": i}
    if kind == "set":
        key = rng.choice([["int", rng.randint(-2, 2)], ["slice", 0, 2, None], ["slice", None, None, None],
                          ["maskv", [True, False, True]], ["list", [["i", 0], ["i", -1]]]])
        val = rng.choice([["scalar", v], ["list", [rng.choice(VALUES) for _ in range(rng.randint(1, 3))]],
                          ["tuple", [v, rng.choice(VALUES)]]])
        return {"op": "set", "i": i, "key": key, "value": val}
    if kind == "promote":
        return {"op": "promote", "i": i, "k": rng.choice(["int", "float", "complex", "datetime"])}
    if kind == "cast":
        return {"op": "cast", "i": i, "t": rng.choice(CAST_TARGETS)}
    if kind == "fillna":
        return {"op": "fillna", "i": i, "v": v}
    if kind == "compare":
        return {"op": "compare", "fn": rng.choice(CMP), "i": i, "other": ["scalar", v]}
    if kind == "getitem":
        return {"op": "getitem", "i": i, "key": rng.choice([["slice", 0, 2, None], ["slice", None, None, -1],
                                                            ["list", [["i", 0]]], ["maskv", [True, False, True]]])}
    if kind == "sort":
        return {"op": "sort", "i": i, "reverse": rng.random() < 0.5, "na_last": rng.random() < 0.5}
    if kind in ("table",):
        return {"op": "table", "js": [rng.randrange(nheap) for _ in range(rng.randint(1, 3))]}
    if kind == "row":
        return {"op": "row", "js": [rng.randrange(nheap) for _ in range(rng.randint(1, 3))], "r": rng.randint(0, 2)}
    if kind == "copy_new":
        return {"op": "copy_new", "i": i, "l": [rng.choice(VALUES) for _ in range(rng.randint(0, 2))]}
    if kind == "method":
        k = rng.choice(list(METHODS))
        m, args = rng.choice(METHODS[k])
        return {"op": "method", "i": i, "name": m, "args": args}
    return {"op": kind, "i": i}


def prog_cases(rng, n):
    cs = []
    names = list(COLUMNS)
    for _ in range(n):
        k = rng.randint(1, 3)
        ops = [_vec(rng.choice(names)) for _ in range(k)]
        nheap = k
        for _ in range(rng.randint(2, 6)):
            o = _rand_op(rng, names, nheap)
            ops.append(o)
            nheap += 1          # an upper bound is not needed: references are drawn below the lower bound
            nheap = min(nheap, k + 2)
        cs.append({"ops": ops})
    return cs


def foreign_streams(rng, tier):
    import random
    out = []
    for m in OTHERS:
        mod = importlib.import_module("harness.props." + m)
        sub = random.Random(f"C03-foreign-{m}-{rng.random()}")
        sts = mod.streams(sub, tier)
        cases = []
        if tier == "quick":
            total = sum(len(c) for _, c in sts)
            for sname, cs in sts:
                if not cs:
                    continue
                k = max(1, min(len(cs), round(QUICK_PER_MODULE * len(cs) / max(1, total))))
                k = max(k, min(len(cs), 12))
                step = len(cs) / k
                cases.extend(cs[int(j * step)] for j in range(k))     # deterministic, evenly spaced
        else:
            for sname, cs in sts:
                cases.extend(cs)
        out.append((f"foreign:{m}", [{"foreign": m, "case": c} for c in cases]))
    return out


def streams(rng, tier):
    out = [("ops", ops_cases()), ("setitem", setitem_cases()), ("ragged", ragged_cases()),
           ("progs", prog_cases(rng, 600 if tier == "quick" else 12000))]
    out.extend(foreign_streams(rng, tier))
    return out


# ------------------------------------------------------------------ truthfulness on real objects (in-process)

_VCLS = {"_Int": 20, "_Float": 21, "_String": 22, "_Date": 23, "Vector": 24, "Table": 25, "Row": 24}


def classify(x):
    """the isinstance chain of the property (bool before int, datetime before date)"""
    import datetime as dt
    for c in (bool, int, float, complex, str, bytes, dt.datetime, dt.date, list, dict, tuple):
        if isinstance(x, c):
            return c
    return type(x)


_NUM = None


def belongs_py(x, dtype):
    """the property, on a real object and a real DataType"""
    import datetime as dt
    if dtype is None:
        return False
    if x is None:
        return bool(dtype.nullable)
    k = dtype.kind
    if k is object:
        return True
    c = classify(x)
    if c is k:
        return True
    num = (bool, int, float, complex)
    if c in num and k in num:
        return num.index(c) <= num.index(k)
    if c is dt.date and k is dt.datetime:
        return True
    if k in num or k in (str, bytes, dt.date, dt.datetime, list, dict, tuple):
        return False
    try:
        return isinstance(x, k)
    except TypeError:
        return False


def enc3(x):
    from serif import Vector
    if isinstance(x, Vector):
        return ["V", type(x).__name__]
    return V.enc(x)


def schema3(dtype):
    from serif import Vector
    if dtype is None:
        return None
    try:
        if isinstance(dtype.kind, type) and issubclass(dtype.kind, Vector):
            return [f"(KOther {_VCLS.get(dtype.kind.__name__, 24)})", bool(dtype.nullable)]
    except TypeError:
        pass
    return V.schema_obs(dtype)


def _raw(v):
    """(values tuple, dtype) of any Vector-like, read without triggering __getattr__"""
    d = getattr(v, "__dict__", {})
    if "_underlying" in d:
        return d["_underlying"], d.get("_dtype", type(v)._dtype if hasattr(type(v), "_dtype") else None)
    # Row: a hollow view - its cells through the `_underlying` property every Vector-like answers to (no private layout assumed)
    try:
        return tuple(v._underlying), object.__getattribute__(v, "_dtype")
    except Exception:
        return None, None


def untruth(v, depth=0):
    """None if v is truthful, else a short text.  Tables: every column; vectors of vectors: the elements too."""
    from serif import Vector, Table
    vals, dtype = _raw(v)
    if vals is None:
        return None
    if isinstance(v, Table):
        for j, c in enumerate(vals):
            if isinstance(c, Vector) and depth < 4:
                w = untruth(c, depth + 1)
                if w:
                    return f"column {j}: {w}"
        return None
    if dtype is None:
        return None if len(vals) == 0 else f"schema() is None but the vector holds {len(vals)} element(s)"
    for j, x in enumerate(vals):
        if not belongs_py(x, dtype):
            return f"element {j} = {_short(x)} does not belong to {dtype!r}"
        if isinstance(x, Vector) and depth < 4:
            w = untruth(x, depth + 1)
            if w:
                return f"element {j}: {w}"
    return None


def _short(x):
    from serif import Vector
    if isinstance(x, Vector):
        return f"<{type(x).__name__} object>"
    try:
        return repr(x)[:40]
    except Exception:
        return f"<{type(x).__name__}>"


class _DummyTracker:
    def register(self, vec, tuple_id):
        pass

    def unregister(self, vec, tuple_id):
        pass

    def check_writable(self, vec, tuple_id):
        return True


_DUMMY = _DummyTracker()


def writeback_copy(v, limit=8):
    """write every (representative) element back into its own position of an INDEPENDENT copy, built and
    written with the alias tracker swapped for a dummy so that the real registry is never touched.
    None if all accepted and the dtype unchanged, else a text."""
    import serif.vector as sv
    from serif import Vector, Table
    if isinstance(v, Table):
        vals, _ = _raw(v)
        for j, c in enumerate(vals or ()):
            if isinstance(c, Vector):
                w = writeback_copy(c, limit)
                if w:
                    return f"column {j}: {w}"
        return None
    vals, dtype = _raw(v)
    if vals is None or dtype is None or not vals or any(isinstance(x, Vector) for x in vals):
        return None
    seen, reps = set(), []
    for j, x in enumerate(vals):
        t = type(x)
        if t not in seen:
            seen.add(t)
            reps.append(j)
        if len(reps) >= limit:
            break
    real = sv._ALIAS_TRACKER
    sv._ALIAS_TRACKER = _DUMMY
    try:
        c = Vector(list(vals), dtype=dtype)
        for j in reps:
            try:
                sv.Vector.__setitem__(c, j, vals[j])
            except Exception as e:
                return f"writing element {j} = {_short(vals[j])} back into {dtype!r} is refused: {type(e).__name__}"
            if c._dtype != dtype:
                return f"writing element {j} = {_short(vals[j])} back changes the dtype {dtype!r} -> {c._dtype!r}"
    except Exception as e:
        return None
    finally:
        sv._ALIAS_TRACKER = real
    return None


# ------------------------------------------------------------------ the global monitor

class _Monitor:
    def __init__(self):
        self.hits = []
        self.stats = {"calls": 0, "checked": 0, "nonreinfer": 0, "dtchange": 0}
        self.busy = False
        self.enabled = True

    def reset(self):
        self.hits = []
        self.stats = {"calls": 0, "checked": 0, "nonreinfer": 0, "dtchange": 0}


_MON = None
MUTATING = {"__setitem__", "_promote", "__setattr__", "rename_column", "rename_columns", "alias", "rename"}
_SKIP = {"__init__", "__new__", "__repr__", "__len__", "__iter__", "__bool__", "__dir__", "__getattribute__", "schema",
         "fingerprint", "__class__", "__hash__", "__str__", "__format__", "__sizeof__", "__reduce__", "__reduce_ex__",
         "__init_subclass__", "__subclasshook__", "__delattr__", "__doc__", "__module__", "__dict__", "__weakref__",
         "__slots__", "set_index", "column_names", "ndims", "cols", "argsort", "shape", "name", "_", "peek_"}
_MON_NONREINFER = {"__setitem__", "_promote", "__lshift__", "__rshift__", "cast", "fillna", "dropna", "isna",
                   "isinstance", "__getitem__", "sort_by", "copy", "to_object", "T", "new", "__invert__", "__eq__",
                   "__ne__", "__lt__", "__le__", "__gt__", "__ge__", "__setattr__"}


def _vec_operands(args, kwargs):
    from serif import Vector
    out = []
    for a in list(args) + list(kwargs.values()):
        if isinstance(a, Vector):
            out.append(a)
        elif type(a).__name__ == "MethodProxy":
            pv = a.__dict__.get("_vector")
            if isinstance(pv, Vector):
                out.append(pv)
        elif isinstance(a, (list, tuple)) and len(a) <= 64:
            out.extend(x for x in a if isinstance(x, Vector))
        elif isinstance(a, dict) and len(a) <= 64:
            out.extend(x for x in a.values() if isinstance(x, Vector))
    return out


def _enc_arg(a, depth=0):
    from serif import Vector
    try:
        if isinstance(a, Vector):
            vals, dtype = _raw(a)
            return {"vector": type(a).__name__, "vals": [enc3(x) for x in (vals or ())][:40], "dt": schema3(dtype)}
        if isinstance(a, slice):
            return {"slice": [a.start, a.stop, a.step]}
        if isinstance(a, type):
            return {"type": a.__name__}
        if isinstance(a, (list, tuple)) and depth < 2 and len(a) <= 40 and any(isinstance(x, Vector) for x in a):
            return {"seq": [_enc_arg(x, depth + 1) for x in a]}
        t = V.enc(a)
        json.dumps(t)
        return {"tag": t}
    except Exception:
        return {"repr": _short(a)}


def _record(mon, qual, args, kwargs, obj, what, why):
    if len(mon.hits) >= 6:
        mon.hits.append({"method": qual})
        return
    vals, dtype = _raw(obj)
    mon.hits.append({
        "method": qual, "what": what, "why": why,
        "args": [_enc_arg(a) for a in args][:6], "kwargs": {k: _enc_arg(v) for k, v in list(kwargs.items())[:6]},
        "result": {"cls": type(obj).__name__, "vals": [enc3(x) for x in (vals or ())][:40], "dt": schema3(dtype)},
    })


def _make_wrapper(qual, name, fn):
    import functools
    mutating = name in MUTATING

    @functools.wraps(fn)
    def wrapper(*args, **kwargs):
        mon = _MON
        if mon is None or mon.busy or not mon.enabled:
            return fn(*args, **kwargs)
        from serif import Vector
        mon.busy = True
        try:
            mon.stats["calls"] += 1
            ops = _vec_operands(args, kwargs)
            pre_ok = all(untruth(o) is None for o in ops)
            self_dt = _raw(args[0])[1] if args and isinstance(args[0], Vector) else None
        except Exception:
            pre_ok, ops, self_dt = False, [], None
        finally:
            mon.busy = False
        try:
            r = fn(*args, **kwargs)
        except BaseException:
            if mutating and pre_ok and args and isinstance(args[0], Vector):
                _check(mon, qual, name, args, kwargs, args[0], "self after the (failed) call", self_dt)
            raise
        if pre_ok:
            if mutating and args and isinstance(args[0], Vector):
                _check(mon, qual, name, args, kwargs, args[0], "self after the call", self_dt)
            if isinstance(r, Vector):
                _check(mon, qual, name, args, kwargs, r, "the returned object", self_dt)
        return r
    wrapper._c03_wrapped = True
    return wrapper


def _check(mon, qual, name, args, kwargs, obj, what, self_dt):
    mon.busy = True
    try:
        mon.stats["checked"] += 1
        if name in _MON_NONREINFER:
            mon.stats["nonreinfer"] += 1
        else:
            d = _raw(obj)[1]
            if d is not None and self_dt is not None and d != self_dt:
                mon.stats["dtchange"] += 1
        why = untruth(obj)
        if why is None:
            why = writeback_copy(obj)
            if why is not None:
                why = "write-back: " + why
        if why is not None:
            _record(mon, qual, args, kwargs, obj, what, why)
    except Exception:
        pass
    finally:
        mon.busy = False


def check_held(obj, what):
    """for observers that HOLD a vector (a row view) across somebody else's write: the monitor only looks at what calls return
    or mutate, so an object that stops being truthful without being called is reported here"""
    mon = _MON
    if mon is None or not mon.enabled:
        return
    mon.busy = True
    try:
        mon.stats["checked"] += 1
        why = untruth(obj)
        if why is not None:
            _record(mon, "held object", (), {}, obj, what, why)
    except Exception:                                        # noqa: BLE001
        pass
    finally:
        mon.busy = False


def install_monitor():
    """Wrap (in THIS process only — the implementation subprocess of the harness) the public and operator
    methods of serif.Vector, the typed subclasses, Table, Row and MethodProxy.  Idempotent."""
    global _MON
    if _MON is not None:
        return _MON
    import serif.vector as sv
    import serif.table as st
    _MON = _Monitor()
    classes = [sv.Vector, sv._Float, sv._Int, sv._String, sv._Date, st.Table, st.Row, sv.MethodProxy]
    for cls in classes:
        for name, attr in list(vars(cls).items()):
            if name in _SKIP:
                continue
            public = not name.startswith("_") or (name.startswith("__") and name.endswith("__")) or name == "_promote"
            if not public:
                continue
            qual = f"{cls.__name__}.{name}"
            if isinstance(attr, property):
                if name not in ("T",) or attr.fget is None:
                    continue
                setattr(cls, name, property(_make_wrapper(qual, name, attr.fget), attr.fset, attr.fdel, attr.__doc__))
            elif isinstance(attr, classmethod):
                f = attr.__func__
                setattr(cls, name, classmethod(_make_wrapper(qual, name, f)))
            elif isinstance(attr, staticmethod):
                continue
            elif callable(attr) and hasattr(attr, "__code__"):
                if getattr(attr, "_c03_wrapped", False):
                    continue
                setattr(cls, name, _make_wrapper(qual, name, attr))
    # module-level entry point that returns tables
    import serif
    import serif.csv as sc
    w = _make_wrapper("read_csv", "read_csv", sc.read_csv)
    sc.read_csv = w
    serif.read_csv = w
    return _MON


def _observe_foreign(case):
    mon = install_monitor()
    mon.reset()
    mon.enabled = True
    err = None
    try:
        mod = importlib.import_module("harness.props." + case["foreign"])
        mod.observe(case["case"])
    except BaseException as e:                      # their observe never raises; be safe
        err = f"{type(e).__name__}: {e}"[:200]
    finally:
        mon.enabled = False
    hits = [h for h in mon.hits if "why" in h]
    return {"foreign": case["foreign"], "hits": hits[:4], "nhits": len(mon.hits), "stats": dict(mon.stats), "err": err}


# ------------------------------------------------------------------ dedicated programs: implementation side

def _exc(e):
    return {"exc": err_name(e), "cls": type(e).__name__, "msg": f"{type(e).__name__}: {e}"[:140]}


_TYPES = None


def _type(name):
    import datetime as dt
    import decimal
    return {"bool": bool, "int": int, "float": float, "complex": complex, "str": str, "date": dt.date,
            "datetime": dt.datetime, "Decimal": decimal.Decimal, "list": list, "tuple": tuple, "bytes": bytes,
            "object": object, "callable": (lambda x: x)}[name]


def _vobs(v):
    """values, schema, in-process truthfulness of elements the tags cannot describe, and write-back on the
    vector itself (on a copy if it refuses with AliasError or is a row view)"""
    from serif import Vector, Table, AliasError
    from serif.table import Row
    vals, dtype = _raw(v)
    tags = [enc3(x) for x in vals]
    o = {"cls": type(v).__name__, "vals": tags, "dt": schema3(dtype)}
    unk = {str(j): bool(belongs_py(x, dtype)) for j, x in enumerate(vals) if tags[j][0] == "?"}
    if unk:
        o["unk"] = unk
    if dtype is not None and not isinstance(v, Table):
        wb = None
        # on the vector itself; on a copy for a row view, and for a vector already seen to be untruthful (the
        # write-back would repair its dtype and hide the defect from the following operations)
        target = v.copy() if (isinstance(v, Row) or untruth(v) is not None) else v
        for j in range(len(vals)):
            x = vals[j]
            if isinstance(x, Vector):
                continue
            before = target.schema()
            try:
                try:
                    target[j] = x
                except AliasError:
                    target = v.copy()
                    target[j] = x
            except Exception as e:
                wb = {"i": j, "exc": type(e).__name__, "on": "copy" if target is not v else "self"}
                break
            if target.schema() != before:
                wb = {"i": j, "dt": schema3(target.schema()), "on": "copy" if target is not v else "self"}
                break
        if wb:
            o["wb"] = wb
    return o


def _operand(heap, other):
    from serif import Vector, Table
    form = other[0]
    if form == "scalar":
        return V.dec(other[1])
    if form == "list":
        return [V.dec(t) for t in other[1]]
    if form == "vecl":
        return Vector([V.dec(t) for t in other[1]])
    if form == "vec":
        return heap[other[1]]
    if form == "tab":
        return Table([heap[j] for j in other[1]])
    raise ValueError(other)


def _run_op(o, heap):
    """execute one operation; returns ('push', [vectors]) / ('mut', index) — or raises"""
    import operator
    from serif import Vector, Table
    from harness.props import c07, c08
    op = o["op"]
    if op == "vector":
        return "push", [Vector([V.dec(t) for t in o["l"]])]
    if op == "new":
        return "push", [Vector.new(V.dec(o["x"]), o["n"], typesafe=o["typesafe"])]
    v = heap[o["i"]] if "i" in o else None
    if op == "radd":
        other = _operand(heap, o["other"])
        if isinstance(other, Vector):
            return "push", [v.__radd__(other)]
        return "push", [other + v]
    if op == "arith":
        fn = o["fn"]
        other = _operand(heap, o["other"])
        if fn.startswith("r"):
            f = getattr(operator, fn[1:])
            if isinstance(other, Vector):
                return "push", [getattr(v, f"__r{fn[1:]}__")(other)]
            return "push", [f(other, v)]
        return "push", [getattr(operator, fn)(v, other)]
    if op == "unary":
        return "push", [{"neg": operator.neg, "pos": operator.pos, "abs": operator.abs}[o["fn"]](v)]
    if op == "invert":
        return "push", [~v]
    if op == "set":
        v[c08._mk_key(o["key"])] = c08._mk_value(o["value"])
        return "mut", o["i"]
    if op == "promote":
        v._promote(_type(o["k"]))
        return "mut", o["i"]
    if op == "lshift":
        return "push", [v << _operand(heap, o["other"])]
    if op == "rshift":
        r = v >> _operand(heap, o["other"])
        if isinstance(r, Table):
            return "push", list(r._underlying)
        return "push", [r]
    if op == "cast":
        return "push", [v.cast(_type(o["t"]))]
    if op == "fillna":
        return "push", [v.fillna(V.dec(o["v"]))]
    if op == "dropna":
        return "push", [v.dropna()]
    if op == "isna":
        return "push", [v.isna()]
    if op == "isinstance":
        return "push", [v.isinstance(tuple(_type(t) for t in o["types"]))]
    if op == "compare":
        return "push", [getattr(operator, o["fn"])(v, _operand(heap, o["other"]))]
    if op == "getitem":
        r = v[c07._mk_key(o["key"])]
        if not isinstance(r, Vector):
            raise TypeError("scalar result")
        return "push", [r]
    if op == "sort":
        return "push", [v.sort_by(reverse=o["reverse"], na_last=o["na_last"])]
    if op == "copy":
        return "push", [v.copy()]
    if op == "copy_new":
        return "push", [v.copy([V.dec(t) for t in o["l"]])]
    if op == "to_object":
        return "push", [v.to_object()]
    if op == "T":
        return "push", [v.T]
    if op == "method":
        nm = o["name"]
        if nm.startswith("prop:"):
            return "push", [getattr(v, nm[5:])]
        return "push", [getattr(v, nm)(*[V.dec(t) for t in o["args"]])]
    if op == "table":
        t = Table([heap[j] for j in o["js"]])
        return "push", list(t._underlying)
    if op == "row":
        t = Table([heap[j] for j in o["js"]])
        r = t[o["r"]]
        r._underlying                                   # materialise: an out-of-range row raises here
        return "push", [r]
    if op == "tableT":
        t = Table([heap[j] for j in o["js"]]).T
        return "push", list(t._underlying)
    raise ValueError(op)


def _sort_perm(src, res):
    """positions of the source elements in the result, matched by identity (first unused)"""
    used, out = set(), []
    for x in res:
        for j, y in enumerate(src):
            if j not in used and (y is x):
                used.add(j)
                out.append(j)
                break
        else:
            return None
    return out


def _observe_prog(case):
    from serif import Vector, Table
    heap, steps = [], []
    for o in case["ops"]:
        st = {}
        try:
            if any(not (0 <= j < len(heap)) for j in _operand_idx(o)):
                steps.append({"exc": "OtherError", "cls": "IndexError", "msg": "no such heap position", "noheap": True})
                continue
            src = None
            if o["op"] == "sort":
                src = tuple(_raw(heap[o["i"]])[0])
            kind, r = _run_op(o, heap)
        except Exception as e:
            st = _exc(e)
            steps.append(st)
            continue
        try:
            if kind == "push":
                if any(isinstance(x, Table) or not isinstance(x, Vector) for x in r):
                    st = {"skip": "a table / non-vector result"}
                    steps.append(st)
                    # keep the heap aligned with the model: nothing pushed, so stop observing this program
                    steps.append({"stop": True})
                    break
                idx = list(range(len(heap), len(heap) + len(r)))
                st = {"idx": idx, "vecs": [_vobs(x) for x in r]}
                # a row view is observed as it is; later operations use an ordinary copy of it
                heap.extend(x.copy() if type(x).__name__ == "Row" else x for x in r)
                if o["op"] == "sort":
                    st["perm"] = _sort_perm(src, _raw(r[0])[0])
                if o["op"] == "arith":        # any Vector / iterable operand (a list may come as a "scalar" tag)
                    vals = _raw(r[0])[0]
                    a = _raw(heap[o["i"]])[0]
                    st["fallback"] = bool(vals) and len(vals) == len(a) and all(
                        type(x) is tuple and len(x) == 2 and x[0] is y for x, y in zip(vals, a))
            else:
                st = {"idx": [r], "vecs": [_vobs(heap[r])]}
        except Exception as e:
            st = {"broken": f"{type(e).__name__}: {e}"[:160]}
        steps.append(st)
    return {"steps": steps}


def observe(case):
    try:
        if "foreign" in case:
            return _observe_foreign(case)
        if _MON is not None:
            _MON.enabled = False
        return _observe_prog(case)
    except Exception as e:
        return {"broken": f"{type(e).__name__}: {e}"[:200]}


def observe_all(cases):
    """harness.implrun entry point for a whole batch.
    Some modules' observers (the heap model of C01 / C02 / C15 / C16) walk gc.get_objects() at every step, so
    the case dicts of a batch and the module objects would be scanned again and again, and core.py runs the streams one
    after the other with one process per 2000 cases.  Therefore: (a) a large batch of foreign cases is split over
    child processes (same interpreter, same environment, same entry point); (b) a process keeps its batch as JSON
    strings (not tracked by the collector), decodes one case at a time, and freezes what exists before the first."""
    import gc
    import os
    import subprocess
    import sys
    import concurrent.futures as cf
    texts = [json.dumps(c) for c in cases]
    cases.clear()
    foreign = any(t.startswith('{"foreign"') for t in texts)
    if foreign and len(texts) > 60 and not os.environ.get("C03_CHILD"):
        workers = 5 if len(texts) >= 2000 else 8
        size = max(25, -(-len(texts) // (workers * 3)))
        chunks = [texts[i:i + size] for i in range(0, len(texts), size)]
        env = dict(os.environ, C03_CHILD="1")

        def one(chunk):
            r = subprocess.run([sys.executable, "-m", "harness.implrun", "c03"], input="[" + ",".join(chunk) + "]",
                               capture_output=True, text=True, env=env)
            if r.returncode != 0:
                raise RuntimeError("C03 child observer failed: " + r.stderr[-2000:])
            return json.loads(r.stdout)
        with cf.ThreadPoolExecutor(max_workers=workers) as ex:
            res = list(ex.map(one, chunks))
        return [o for part in res for o in part]
    if foreign:
        install_monitor()
        for m in OTHERS:
            try:
                importlib.import_module("harness.props." + m)
            except Exception:
                pass
        gc.collect()
        gc.freeze()
    outs = []
    for t in texts:
        c = json.loads(t)
        o = observe(c)
        outs.append(json.dumps(o, default=str))
        del c, o
    return [json.loads(t) for t in outs]


# ------------------------------------------------------------------ Coq emitter

_KTOK = {"bool": "KBool", "int": "KInt", "float": "KFloat", "complex": "KComplex", "str": "KStr", "date": "KDate",
         "datetime": "KDateTime", "Decimal": "(KOther 0)", "list": "KList", "tuple": "KTuple", "bytes": "KBytes",
         "object": "KObject"}


class Unknown(Exception):
    pass


def _vi(t):
    if t[0] == "N":
        return None
    if t[0] == "V":
        return f"(mkV (KOther {_VCLS.get(t[1], 24)}) true)"
    if t[0] == "?":
        raise Unknown()
    k, ex = V._TAG_KIND[t[0]]
    return f"(mkV {k} {cbool(ex)})"


def _pyv(t):
    x = _vi(t)
    return "None" if x is None else f"(Some {x})"


def _elt(t):
    x = _vi(t)
    return "None" if x is None else f"(Some ({x}, 0%Z))"


def _elts(ts):
    return clist(_elt(t) for t in ts)


def _cdt(o):
    return "None" if o is None else f"(Some {V.coq_dtype(o)})"


def _cvobs(o):
    return f"(VO {_cdt(o['dt'])} {clist(_pyv(t) for t in o['vals'])})"


def _oref(other):
    form = other[0]
    if form == "scalar" and other[1][0] in ("l", "t"):
        return f"(ASeq {_elts(other[1][1])})"
    if form == "scalar":
        return f"(AScalar {_elt(other[1])})"
    if form == "list":
        return f"(ASeq {_elts(other[1])})"
    if form == "vec":
        return f"(AtVec {cnat(other[1])})"
    if form == "tab":
        return f"(AtTab {clist(cnat(j) for j in other[1])})"
    return None


def _target(t):
    if t == "date":
        return "TDate"
    if t == "datetime":
        return "TDateTime"
    if t == "callable":
        return "TCallable"
    return f"(TType {_KTOK[t]})"


SCALAR_SEMANTICS = {"radd", "arith", "unary", "invert", "method", "compare", "isinstance"}


def _emit_step(o, st, aux):
    """-> list of Coq cstep terms for one operation (possibly none), or None to stop the program here"""
    from harness.props import c07, c08
    op = o["op"]
    raised = "exc" in st
    obs = "None" if raised else "(Some " + clist(_cvobs(x) for x in st["vecs"]) + ")"
    i = cnat(o["i"]) if "i" in o else None
    if op == "vector":
        return [f"SOp (OpVector {_elts(o['l'])} None) {obs}"]
    if op == "new":
        return [f"SOp (OpNew {_elt(o['x'])} {cnat(o['n'])} {cbool(o['typesafe'])}) {obs}"]
    if op in ("radd", "arith", "method"):
        if raised:
            return []                                   # Python's scalar operation decides: nothing to compare
        if op == "arith" and st.get("fallback"):
            return [f"SOp (OpFallback {cnat(len(st['vecs'][0]['vals']))}) {obs}"]
        if op == "arith" and aux.get("date_add"):
            return [f"SOp (OpVector {_elts(st['vecs'][0]['vals'])} None) {obs}"]
        if op == "method":
            return [f"SOp (OpVector {_elts(st['vecs'][0]['vals'])} None) {obs}"]
        return [f"SOp (OpInferred {_elts(st['vecs'][0]['vals'])}) {obs}"]
    if op == "unary":
        return [] if raised else [f"SOp (OpUnary {i} {_elts(st['vecs'][0]['vals'])}) {obs}"]
    if op == "invert":
        return [] if raised else [f"SOp (OpInvert {i} {_elts(st['vecs'][0]['vals'])}) {obs}"]
    if op in ("compare", "isinstance"):
        if raised:
            return []
        bs = clist(cbool(t == ["b", True]) for t in st["vecs"][0]["vals"])
        return [f"SOp (OpCompare {bs}) {obs}"]
    if op == "set":
        if raised and st.get("cls") == "AliasError":
            return []          # shared storage (v << [] returns the same tuple): C01 / C15's subject; nothing changed
        ids = c08.Ids()
        val = o["value"]
        if val[0] == "scalar" and val[1][0] in ("l", "t"):
            val = ["list" if val[1][0] == "l" else "tuple", val[1][1]]
        if o["key"][0] in ("int", "bool") and val[0] not in ("scalar", "list", "tuple"):
            return None
        return [f"SOp (OpSet {i} {c08.coq_skey(o['key'])} {c08.coq_value(ids, val)}) {obs}"]
    if op == "promote":
        return [f"SOp (OpPromote {i} {_KTOK[o['k']]}) {obs}"]
    if op in ("lshift", "rshift"):
        other = o["other"]
        if other[0] == "vecl":
            return None
        ctor = "OpLshift" if op == "lshift" else "OpRshift"
        return [f"SOp ({ctor} {i} {_oref(other)}) {obs}"]
    if op == "cast":
        if raised and st.get("noheap"):
            return [f"SOp (OpCast {i} {_target(o['t'])} []) None"]
        if raised:
            return [f"SCastRaised {i} {_target(o['t'])}"]
        return [f"SOp (OpCast {i} {_target(o['t'])} {_elts(st['vecs'][0]['vals'])}) {obs}"]
    if op == "fillna":
        return [f"SOp (OpFillna {i} {_elt(o['v'])}) {obs}"]
    if op in ("dropna", "isna", "to_object", "T"):
        ctor = {"dropna": "OpDropna", "isna": "OpIsna", "to_object": "OpToObject", "T": "OpT"}[op]
        return [f"SOp ({ctor} {i}) {obs}"]
    if op == "getitem":
        return [f"SOp (OpGetitem {i} {c07.coq_key(o['key'])}) {obs}"]
    if op == "sort":
        if raised:
            return []                                   # sorted() on incomparable values: Python decides
        if st.get("perm") is None:
            return None
        return [f"SOp (OpTake {i} {clist(cnat(j) for j in st['perm'])}) {obs}"]
    if op == "copy":
        return [f"SOp (OpCopy {i} None) {obs}"]
    if op == "copy_new":
        return [f"SOp (OpCopy {i} (Some {_elts(o['l'])})) {obs}"]
    if op == "table":
        return [f"SOp (OpTable {clist(cnat(j) for j in o['js'])}) {obs}"]
    if op == "row":
        return [f"SOp (OpRow {clist(cnat(j) for j in o['js'])} {cnat(o['r'])}) {obs}"]
    if op == "tableT":
        return [f"SOp (OpTableT {clist(cnat(j) for j in o['js'])}) {obs}"]
    return None


def emit(case, obs):
    if "broken" in obs:
        return "CBad"
    if "foreign" in case:
        return f"CForeign {cnat(min(int(obs.get('nhits', 0)), 4000))}"
    terms = []
    heap_dt = []                     # observed dtype kinds, to recognise _Date.__add__ (typed by Vector(results))
    promoted_in_place = False
    try:
        for o, st in zip(case["ops"], obs["steps"]):
            if "broken" in st:
                return "CBad"
            if "skip" in st or "stop" in st:
                break
            aux = {}
            if o["op"] == "arith" and o["fn"] == "add" and "exc" not in st and o["i"] < len(heap_dt):
                d = heap_dt[o["i"]]
                other = o["other"]
                if d is not None and d[0] == "KDate":
                    # _Date.__add__ with an int / an int vector builds Vector(<dates>) — typed like a constructor call
                    if other[0] == "scalar" and other[1][0] in ("i", "b", "IE", "I2"):
                        aux["date_add"] = True
                    elif other[0] == "vec" and other[1] < len(heap_dt) and heap_dt[other[1]] is not None \
                            and heap_dt[other[1]][0] == "KInt":
                        aux["date_add"] = True
            if "exc" not in st and o["op"] in ("set", "promote") and st["idx"][0] < len(heap_dt):
                d0, d1 = heap_dt[st["idx"][0]], st["vecs"][0]["dt"]
                if d0 is not None and d1 is not None and d0[0] != d1[0]:
                    promoted_in_place = True
            if promoted_in_place and "exc" not in st and any(t[0] == "V" for vo in st["vecs"] for t in vo["vals"]):
                break        # an in-place promotion keeps the Python CLASS of the vector object (_Int stays _Int): the
                             # model derives the class of a vector seen as an element from its dtype (see ASSUMED)
            t = _emit_step(o, st, aux)
            if t is None:
                break
            terms.extend(t)
            if "exc" not in st:
                for j, vo in zip(st["idx"], st["vecs"]):
                    while len(heap_dt) <= j:
                        heap_dt.append(None)
                    heap_dt[j] = vo["dt"]
    except Unknown:
        return "CSkip"
    return "CProg " + clist(terms)


# ------------------------------------------------------------------ independent oracle

def belongs_tag(tag, schema, unk=None, j=None):
    """the property on one element tag and an observed schema [kind token, nullable]"""
    if schema is None:
        return False
    if tag[0] == "N":
        return bool(schema[1])
    if tag[0] == "?":
        return bool(unk and unk.get(str(j), False))
    if tag[0] == "V":
        k = f"(KOther {_VCLS.get(tag[1], 24)})"
    else:
        k = V.tag_kind(tag)
    s = schema[0]
    return s == "KObject" or V.join_kind(k, s) == s


def vec_untruth(vo):
    """None / text: the property on one observed vector (incl. write-back)"""
    if vo["dt"] is None:
        if vo["cls"] == "Table":
            return None
        return None if not vo["vals"] else f"schema() is None but it holds {vo['vals']}"
    for j, t in enumerate(vo["vals"]):
        if not belongs_tag(t, vo["dt"], vo.get("unk"), j):
            return f"element {j} = {t} does not belong to the reported {vo['dt']}"
    wb = vo.get("wb")
    if wb:
        if "exc" in wb:
            return f"write-back of element {wb['i']} = {vo['vals'][wb['i']]} into {vo['dt']} is refused ({wb['exc']})"
        return f"write-back of element {wb['i']} = {vo['vals'][wb['i']]} changes the dtype {vo['dt']} -> {wb['dt']}"
    return None


def _operand_idx(o):
    out = []
    if "i" in o:
        out.append(o["i"])
    if "js" in o:
        out.extend(o["js"])
    other = o.get("other")
    if other:
        if other[0] == "vec":
            out.append(other[1])
        if other[0] == "tab":
            out.extend(other[1])
    return out


def _wkey(o):
    return o["op"] if o["op"] != "arith" else "arith"


def oracle(case, obs):
    if "broken" in obs:
        return f"observer-broken: {obs['broken']}"
    if "foreign" in case:
        if obs.get("err"):
            return None                                    # their observe() raised: their module's business
        for h in obs.get("hits", []):
            m = h["method"].split(".")[-1]
            return (f"untruthful-{_norm_method(m)}: [monitor, module {case['foreign']}] {h['method']}: {h['what']}: "
                    f"{h['why']}; args {json.dumps(h.get('args'))[:300]}")
        return None
    # in-place operations: the operand's state before = the last recorded state of that heap position
    f = first_failure_inplace(case, obs)
    if f is None:
        return None
    n, o, text = f
    return f"untruthful-{_wkey(o)}: step {n} {json.dumps(o)[:200]}: {text}"


def first_failure_inplace(case, obs):
    ok = {}
    for n, (o, st) in enumerate(zip(case["ops"], obs["steps"])):
        if "stop" in st or "skip" in st:
            break
        if "broken" in st:
            return (n, o, "observer-broken: " + st["broken"])
        if "exc" in st:
            continue
        operands_ok = all(ok.get(j, True) for j in _operand_idx(o))
        bad = None
        for j, vo in zip(st["idx"], st["vecs"]):
            w = vec_untruth(vo)
            ok[j] = w is None
            if w and bad is None:
                bad = w
        if bad and operands_ok:
            return (n, o, bad)
    return None


_METHOD_OP = {"to_object": "to_object", "cast": "cast", "fillna": "fillna", "dropna": "dropna", "copy": "copy",
              "__lshift__": "lshift", "__rshift__": "rshift", "__radd__": "radd", "__neg__": "unary", "__pos__": "unary",
              "__abs__": "unary", "__invert__": "invert", "sort_by": "sort", "T": "T", "isna": "isna",
              "__setitem__": "set", "_promote": "promote", "__getitem__": "getitem", "new": "new"}


def _norm_method(m):
    return _METHOD_OP.get(m, m)


# ------------------------------------------------------------------ evidence helpers

def nontrivial(case, obs):
    if "broken" in obs:
        return False
    if "foreign" in case:
        s = obs.get("stats") or {}
        return s.get("nonreinfer", 0) > 0 or s.get("dtchange", 0) > 0
    dts = {}
    nt = False
    for o, st in zip(case["ops"], obs.get("steps", [])):
        if "stop" in st or "skip" in st or "broken" in st:
            break
        if "exc" in st:
            continue
        left = dts.get(o.get("i"))
        for j, vo in zip(st["idx"], st["vecs"]):
            if o["op"] in NONREINFER or (o["op"] == "arith" and st.get("fallback")):
                nt = True
            elif o["op"] != "vector" and left is not None and vo["dt"] != left:
                nt = True
            dts[j] = vo["dt"]
    return nt


def _kname(dt):
    if dt is None:
        return "untyped"
    return dt[0].replace("(KOther ", "O").replace(")", "").replace("K", "", 1).lower() + ("?" if dt[1] else "")


def describe(case, obs, stream):
    if "broken" in obs:
        return [f"{stream}:broken"]
    if "foreign" in case:
        s = obs.get("stats") or {}
        c = s.get("checked", 0)
        b = "0" if c == 0 else "1-9" if c < 10 else "10-99" if c < 100 else "100+"
        out = [f"{stream}:checked:{b}"]
        if s.get("nonreinfer", 0):
            out.append(f"{stream}:has-nonreinfer")
        if obs.get("nhits"):
            out.append(f"{stream}:hit")
        return out
    out = []
    dts = {}
    for o, st in zip(case["ops"], obs.get("steps", [])):
        if "stop" in st or "skip" in st or "broken" in st:
            out.append(f"{stream}:cut")
            break
        if o["op"] == "vector" and "exc" not in st:
            dts[st["idx"][0]] = st["vecs"][0]["dt"]
            continue
        if "exc" in st:
            out.append(f"op:{o['op']}:raised")
            continue
        left = dts.get(o.get("i"))
        vo = st["vecs"][0]
        out.append(f"op:{o['op']}:{_kname(left) if 'i' in o else '-'}->{_kname(vo['dt'])}")
        for j, x in zip(st["idx"], st["vecs"]):
            dts[j] = x["dt"]
    return out[:8]


def hit_to_case(hit):
    """a monitor hit as a dedicated program, when the receiver and the arguments are plain tagged values"""
    m = hit["method"].split(".")[-1]
    args = hit.get("args") or []
    if not args or "vector" not in args[0] or args[0]["vector"] in ("Table", "Row"):
        return None
    vals = args[0]["vals"]
    if any(t[0] in ("?", "V") for t in vals):
        return None
    base = {"op": "vector", "l": vals}
    rest = args[1:]

    def tag(a):
        return a.get("tag") if isinstance(a, dict) else None
    if m in ("to_object", "dropna", "isna", "copy", "T") and not rest:
        return {"ops": [base, {"op": m, "i": 0}]}
    if m in ("__neg__", "__pos__", "__abs__"):
        return {"ops": [base, {"op": "unary", "fn": m.strip("_"), "i": 0}]}
    if m == "__invert__":
        return {"ops": [base, {"op": "invert", "i": 0}]}
    if m == "fillna" and rest and tag(rest[0]):
        return {"ops": [base, {"op": "fillna", "i": 0, "v": tag(rest[0])}]}
    if m == "cast" and rest and "type" in rest[0] and rest[0]["type"] in _KTOK:
        return {"ops": [base, {"op": "cast", "i": 0, "t": rest[0]["type"]}]}
    if m in ("__lshift__", "__rshift__", "__radd__") and rest:
        op = {"__lshift__": "lshift", "__rshift__": "rshift", "__radd__": "radd"}[m]
        t = tag(rest[0])
        if t is not None:
            other = ["list", t[1]] if t[0] in ("l", "t") else ["scalar", t]
            return {"ops": [base, {"op": op, "i": 0, "other": other}]}
        if "vector" in rest[0] and rest[0]["vector"] not in ("Table", "Row") and \
                not any(x[0] in ("?", "V") for x in rest[0]["vals"]):
            return {"ops": [base, {"op": "vector", "l": rest[0]["vals"]}, {"op": op, "i": 0, "other": ["vec", 1]}]}
    if m == "sort_by":
        kw = hit.get("kwargs") or {}
        return {"ops": [base, {"op": "sort", "i": 0, "reverse": bool((kw.get("reverse") or {}).get("tag", ["b", False])[1]),
                               "na_last": bool((kw.get("na_last") or {}).get("tag", ["b", True])[1])}]}
    if m == "__setitem__" and len(rest) == 2:
        k, v = rest
        kt, vt = tag(k), tag(v)
        if "slice" in k:
            key = ["slice"] + list(k["slice"])
        elif kt is not None and kt[0] in ("i", "b"):
            key = ["int", int(kt[1])]
        elif kt is not None and kt[0] in ("l", "t"):
            key = ["list" if kt[0] == "l" else "tuple", kt[1]]
        else:
            return None
        if vt is None:
            return None
        val = ["list" if vt[0] == "l" else "tuple", vt[1]] if vt[0] in ("l", "t") else ["scalar", vt]
        return {"ops": [base, {"op": "set", "i": 0, "key": key, "value": val}]}
    return None


def shrink(case):
    if "foreign" in case:
        # replay the hit as a dedicated program where the operands are plain values ...
        try:
            from harness.core import run_impl
            obs = run_impl("c03", [case])[0]
            for h in obs.get("hits", []):
                c = hit_to_case(h)
                if c:
                    yield c
        except Exception:
            pass
        # ... and otherwise shrink with the owning module's shrinker
        try:
            mod = importlib.import_module("harness.props." + case["foreign"])
            if hasattr(mod, "shrink"):
                for n, c in enumerate(mod.shrink(case["case"])):
                    if n >= 40:
                        break
                    yield {"foreign": case["foreign"], "case": c}
        except Exception:
            pass
        return
    ops = case["ops"]
    for k in range(1, len(ops)):
        yield {"ops": ops[:k]}
    # drop an input the remaining operations do not mention (renumbering is not attempted)
    for n, o in enumerate(ops):
        if o["op"] == "vector" and len(o["l"]) > 1:
            for j in range(len(o["l"])):
                yield {"ops": ops[:n] + [dict(o, l=o["l"][:j] + o["l"][j + 1:])] + ops[n + 1:]}
        if "other" in o and o["other"][0] in ("list",) and len(o["other"][1]) > 1:
            for j in range(len(o["other"][1])):
                yield {"ops": ops[:n] + [dict(o, other=["list", o["other"][1][:j] + o["other"][1][j + 1:]])] + ops[n + 1:]}


def neighbours(case, rng):
    """model and implementation disagree but every observed vector is truthful: look around the disagreeing
    program for an input on which the property fails (same operations, every operand column / value)"""
    if "foreign" in case:
        return []
    out = []
    ops = case["ops"]
    last = ops[-1]
    for name in COLUMNS:
        new = []
        replaced = False
        for o in ops:
            if o["op"] == "vector" and not replaced:
                new.append(_vec(name))
                replaced = True
            else:
                new.append(o)
        out.append({"ops": new})
        for follow in ({"op": "copy", "i": len(ops) - 1}, {"op": "getitem", "i": len(ops) - 1, "key": ["slice", 0, 1, None]}):
            out.append({"ops": new + [follow]})
    for v in VALUES:
        for n, o in enumerate(ops):
            if "other" in o and o["other"][0] == "scalar":
                out.append({"ops": ops[:n] + [dict(o, other=["scalar", v])] + ops[n + 1:]})
            if "v" in o:
                out.append({"ops": ops[:n] + [dict(o, v=v)] + ops[n + 1:]})
            if o["op"] == "set":
                out.append({"ops": ops[:n] + [dict(o, value=["scalar", v])] + ops[n + 1:]})
    return out[:400]
