"""C18 — names propagate by fixed rules: math drops them, structure keeps them.

Streams
  single     every operation of the expression language once on fresh operands, over a name pool
  trees      random expression trees of depth <= 5 over named / unnamed vectors and tables with
             repeated / unsanitary / missing column names; the names of EVERY node are observed
  agg        aggregate / window argument lists: same column aggregated twice, keys named like
             outputs (a_sum, a_sum2, key), "" and None names, apply names that collide
"""
import re

from harness.core import cbool, clist, cnat, cstr, err_name

PID = "C18"
TRANSLATE = ["EqNames.v", "EqAggNames.v", "EqSanitize.v"]     # translator tie: coq/gen_proofs/EqNames.v is re-proved against definitions regenerated from /repo
FAILING = "(C18.failing RES ROUTED)"
SHARD = 250
RULE = ("random expression trees of depth <= 5 over the operations (binop, compare, copy/slice/mask/index/sort/"
        "setitem/promote, table(op)scalar, scalar(op)table, table(op)table, Table([...]), >>, masks/slices/sort, column "
        "slices, three joins, aggregate/window) on vectors and tables whose names are drawn from a pool with repeats, "
        "unsanitary, empty and missing names; every node's names are compared. Distinct = canonical JSON; "
        "non-trivial = the tree has >= 2 operations and at least one named operand.")
EXHAUSTIVE = {"quick": False, "thorough": False}
ASSUMED = [
    "names are str or None (printable ASCII); other name types are outside the C18 model",
    "only names are modelled: operand values are ints/floats/bools chosen so that every operation is defined; "
    "binary operands are cut to a common length by explicit slice nodes",
]
DESIGN_REF = "DESIGN.md section 4, C18"

NAMES = [None, "a", "b", "A", "Total Sales", "a b", "x", "", "sum", "copy", "a_sum", "a_sum2", "key", "col",
         "col_sum", "3d", "$", "key2", "a__1", "a_", "count", "A B"]
FNS = ["sum", "mean", "min", "max", "count", "stdev"]
VKEEP = ["copy", "slice", "mask", "index", "sort", "sortr", "sortn", "sortnr", "maskn", "setitem", "promote", "unary",
         "T", "cast", "fillna"]
CLAIMED_VKEEP = {"copy", "slice", "mask", "index", "sort", "sortr", "sortn", "sortnr", "maskn", "setitem", "promote",
                 "fit"}
TKEEP = ["mask", "slice", "index", "sort", "copy"]


# ------------------------------------------------------------------ generators

def _name(rng, pool):
    return rng.choice(pool)


def _fitv(e):
    return ["keep", "fit", e]


def _fitt(e):
    return ["tkeep", "fit", e]


def _gen_v_or_empty(rng, d, pool):
    """the operand of an operation that also takes an EMPTY vector: now and then a named, typed vector with no element
    (what a filter that matches no row leaves behind) - names propagate by the same rules whatever the length"""
    if rng.random() < 0.15:
        return ["lit", _name(rng, pool), "empty"]
    return gen_v(rng, d, pool)


def gen_v(rng, d, pool):
    if d <= 0 or rng.random() < 0.2:
        return ["lit", _name(rng, pool)]
    k = rng.random()
    if k < 0.14:
        return ["bin", rng.choice(["add", "sub", "mul"]), _fitv(gen_v(rng, d - 1, pool)), _fitv(gen_v(rng, d - 1, pool))]
    if k < 0.24:
        return ["bins", rng.choice(["add", "radd", "mul", "rmul", "sub", "rsub"]), _gen_v_or_empty(rng, d - 1, pool)]
    if k < 0.31:
        return ["cmp", _fitv(gen_v(rng, d - 1, pool)), _fitv(gen_v(rng, d - 1, pool))]
    if k < 0.36:
        return ["cmps", _gen_v_or_empty(rng, d - 1, pool)]
    if k < 0.70:
        return ["keep", rng.choice(VKEEP), gen_v(rng, d - 1, pool)]
    if k < 0.75:
        return ["copyas", _name(rng, pool), _gen_v_or_empty(rng, d - 1, pool)]
    if k < 0.78:
        return ["drop", _gen_v_or_empty(rng, d - 1, pool)]
    t, w = gen_t(rng, d - 1, pool)
    return ["col", rng.randrange(w), t]


def gen_t(rng, d, pool, width=None):
    """-> (expr, width); width >= 1 always (the empty inner join is only generated at the root)."""
    if d <= 0 or rng.random() < 0.2 or width is not None:
        w = width or rng.randint(1, 4)
        names = [_name(rng, pool) for _ in range(w)]
        form = "dict" if (len(set(names)) == w and None not in names and rng.random() < 0.5) else "vecs"
        return ["tlit", names, form], w
    k = rng.random()
    if k < 0.08:
        n = rng.randint(1, 3)
        return ["tofvecs", [_fitv(gen_v(rng, d - 1, pool)) for _ in range(n)]], n
    if k < 0.18:
        t, w = gen_t(rng, d - 1, pool)
        u, x = gen_t(rng, d - 1, pool)
        return ["appt", _fitt(t), _fitt(u)], w + x
    if k < 0.26:
        t, w = gen_t(rng, d - 1, pool)
        return ["appv", _fitt(t), _fitv(gen_v(rng, d - 1, pool))], w + 1
    if k < 0.31:
        t, w = gen_t(rng, d - 1, pool)
        keys = list(dict.fromkeys(_name(rng, [p for p in pool if p is not None] or ["q"]) for _ in range(rng.randint(1, 2))))
        return ["appd", t, keys], w + len(keys)
    if k < 0.49:
        t, w = gen_t(rng, d - 1, pool)
        return ["tkeep", rng.choice(TKEEP), t], w
    if k < 0.55:
        t, w = gen_t(rng, d - 1, pool)
        a = rng.randrange(w)
        b = rng.randint(a + 1, w)
        return ["colslice", a, b, t], b - a
    if k < 0.67:
        t, w = gen_t(rng, d - 1, pool)
        u, x = gen_t(rng, d - 1, pool)
        return ["join", rng.choice(["inner_join", "join", "full_join"]), False, t, u], w + x
    if k < 0.75:
        t, w = gen_t(rng, d - 1, pool)
        return ["scalar", rng.choice(["add", "mul", "sub"]), t], w
    if k < 0.80:
        t, w = gen_t(rng, d - 1, pool)
        return ["rscalar", rng.choice(["rmul", "rsub"]), t], w
    if k < 0.90:
        t, w = gen_t(rng, d - 1, pool)
        u, _ = gen_t(rng, 0, pool, width=w)
        if rng.random() < 0.5:                      # a right operand likely to agree on some names
            u = ["tlit", [rng.choice([None, "a", pool[0]]) for _ in range(w)], "vecs"]
        return ["ttable", rng.choice(["add", "sub", "mul"]), _fitt(t), _fitt(u)], w
    if k < 0.93:
        t, w = gen_t(rng, d - 1, pool)
        return ["tcmps", t], w
    t, w = gen_t(rng, d - 1, pool)
    return _gen_agg(rng, t, w, pool)


def _gen_agg(rng, t, w, pool):
    keys = [rng.randrange(w) for _ in range(rng.randint(1, 2))]
    aggs = [[] for _ in FNS]
    for _ in range(rng.randint(0, 4)):
        aggs[rng.randrange(6)].append(rng.randrange(w))
    apply = list(dict.fromkeys(rng.choice(["a_sum", "key", "z", "a_sum2", "col_count", "x"])
                               for _ in range(rng.choice([0, 0, 1, 2]))))
    width = len(keys) + sum(len(a) for a in aggs) + len(apply)
    return ["agg", rng.random() < 0.4, keys, aggs, apply, t], width


def streams(rng, tier):
    quick = tier == "quick"
    out = [("meta", [{"op": "meta"}])]
    single = []
    small = [None, "a", "b", "Total Sales", "", "sum"]
    for n in small:
        lit = ["lit", n]
        for kind in VKEEP:
            single.append({"op": "v", "e": ["keep", kind, lit]})
        for m in small[:4]:
            single.append({"op": "v", "e": ["bin", "add", _fitv(lit), _fitv(["lit", m])]})
            single.append({"op": "v", "e": ["cmp", _fitv(lit), _fitv(["lit", m])]})
            single.append({"op": "v", "e": ["copyas", m, lit]})
        for var in ("add", "radd", "mul", "rmul", "sub", "rsub"):
            single.append({"op": "v", "e": ["bins", var, lit]})
        single.append({"op": "v", "e": ["cmps", lit]})
        single.append({"op": "v", "e": ["drop", lit]})
        emp = ["lit", n, "empty"]
        for var in ("add", "radd", "mul", "rmul", "sub", "rsub"):
            single.append({"op": "v", "e": ["bins", var, emp]})
            single.append({"op": "v", "e": ["bins", var, ["copyas", "kept", emp]]})
        single.append({"op": "v", "e": ["cmps", emp]})
        single.append({"op": "v", "e": ["drop", emp]})
        single.append({"op": "v", "e": ["copyas", "b", emp]})
    for l in small:
        for r in small:
            single.append({"op": "t", "e": ["ttable", "add", _fitt(["tlit", [l, "x"], "vecs"]), _fitt(["tlit", [r, "x"], "vecs"])]})
    base = ["tlit", ["a", None, "a", "Total Sales"], "vecs"]
    other = ["tlit", ["b", "a", None], "vecs"]
    for kind in TKEEP:
        single.append({"op": "t", "e": ["tkeep", kind, base]})
    for var in ("add", "mul", "sub"):
        single.append({"op": "t", "e": ["scalar", var, base]})
    for var in ("rmul", "rsub"):
        single.append({"op": "t", "e": ["rscalar", var, base]})
    for how in ("inner_join", "join", "full_join"):
        for nm in (False, True):
            single.append({"op": "t", "e": ["join", how, nm, base, other]})
    single += [{"op": "t", "e": ["appt", _fitt(base), _fitt(other)]},
               {"op": "t", "e": ["appv", _fitt(base), _fitv(["lit", "q"])]},
               {"op": "t", "e": ["appv", _fitt(base), _fitv(["lit", None])]},
               {"op": "t", "e": ["appd", base, ["a", "new"]]},
               {"op": "t", "e": ["colslice", 1, 3, base]},
               {"op": "t", "e": ["tcmps", base]},
               {"op": "t", "e": ["tofvecs", [_fitv(["lit", "a"]), _fitv(["lit", None]), _fitv(["lit", "a"])]]},
               {"op": "t", "e": ["tlit", ["p", "q"], "dict"]}]
    out.append(("single", single))

    trees = []
    n = 900 if quick else 9000
    for i in range(n):
        pool = rng.sample(NAMES, rng.randint(2, 5)) + [None]
        d = rng.randint(2, 5)
        if i % 2:
            trees.append({"op": "v", "e": gen_v(rng, d, pool)})
        else:
            e, w = gen_t(rng, d, pool)
            if rng.random() < 0.05:                # an inner join without matches, at the root only
                u, _ = gen_t(rng, 1, pool)
                e = ["join", "inner_join", True, e, u]
            trees.append({"op": "t", "e": e})
    out.append(("trees", trees))

    agg = []
    for _ in range(400 if quick else 4000):
        w = rng.randint(1, 4)
        pool = rng.sample(NAMES, rng.randint(1, 3)) + rng.sample(["a", "a_sum", "a_sum2", "key", "", None, "col", "col_sum"], 3)
        t = ["tlit", [rng.choice(pool) for _ in range(w)], "vecs"]
        e, _ = _gen_agg(rng, t, w, pool)
        if rng.random() < 0.5 and e[3][0]:
            e[3][0] = e[3][0] + [e[3][0][0]] * rng.randint(1, 2)      # the same column summed again
        agg.append({"op": "t", "e": e})
    out.append(("agg", agg))

    # column labels that are not strings: equal-but-differently-written labels (2024 == 2024.0, 1 == 1.0 == True) are
    # different columns with different sanitised forms, in whichever order they were first seen by the process
    labels = []
    LAB = [2024, 2024.0, "2024", 1, 1.0, True, "1", 0, False, 0.0, -0.0, "a", None, 7, 7.5, "7_5", 2 ** 61 - 1 + 3, 3]
    for i in range(150 if quick else 1500):
        w = rng.randint(2, 4)
        pool = []
        for x in rng.sample(LAB, len(LAB)):              # equal-but-differently-written labels never meet in one case
            if x is not None and str(x) in [str(y) for y in pool]:
                continue                                      # 1 and "1" are one label for the model (labels are seen as text)
            if isinstance(x, str) or x is None or all(isinstance(y, str) or y is None or y != x for y in pool):
                pool.append(x)
        pool = pool[:4]
        t = ["tlit", [rng.choice(pool) for _ in range(w)], "vecs"]
        e, _ = _gen_agg(rng, t, w, pool)
        labels.append({"op": "t", "e": e})
    out.append(("agg-labels", labels))
    # the same kind of labels through the structure-keeping operations: a label stays the very object it was (the int 2019 does
    # not become the text '2019').  Decided by the oracle alone (the model knows names as text only).
    typed = []
    OPS = ["scalar", "rscalar", "ttable_same", "ttable_unnamed", "slice", "mask", "sort", "copy", "colslice", "stack", "index",
           "join", "setcol"]
    for _ in range(200 if quick else 2000):
        pool = []
        for x in rng.sample(LAB, len(LAB)):
            if x is None or isinstance(x, str) or all(isinstance(y, str) or y is None or y != x for y in pool):
                pool.append(x)
        typed.append({"op": "lab", "labels": [rng.choice(pool[:5]) for _ in range(rng.randint(1, 4))], "what": rng.choice(OPS)})
    out.append(("typed-labels", typed))
    return out


# ------------------------------------------------------------------ implementation side

class _Skip(Exception):
    pass


class _OperandRenamed(RuntimeError):
    """an operation changed the stored name of one of its OPERANDS (names are kept by the sources too)"""


def _vec(n, name, shift=0):
    from serif import Vector
    return Vector([shift + i for i in range(n)], name=name)


def _cut(x, m):
    return x[0:m]


def _ev_fit_pair(ev_a, ev_b, a, b, rec, path):
    """Children are explicit fit nodes: evaluate their operands, cut both to the common length."""
    xa = ev_a(a[2], rec, path + "0.")
    xb = ev_b(b[2], rec, path + "1.")
    m = min(len(xa), len(xb))
    if m == 0:
        raise _Skip("empty operand")
    ra, rb = _cut(xa, m), _cut(xb, m)
    return ra, rb


def _same_names(k, pairs):
    for obj, before in pairs:
        now = _names(obj)
        if now != before:
            raise _OperandRenamed(f"operand-renamed: after {k} an operand's stored name(s) changed from {before} to {now}")


def _probe_column_assignment(t):
    """column replacement t.<accessor> = <named vector>, tried on a COPY of the table (the observed tree is untouched):
    the vector that was assigned keeps its own stored name - a free-standing one, and a live column of the same table
    (t.a = t.b leaves every OTHER column, b included, named as it was)"""
    from serif import Vector
    tc = t.copy()
    cols = tc.cols()
    if not cols or len(tc) == 0:
        return
    try:
        cmap = tc._build_column_map()
    except Exception:                                        # noqa: BLE001
        return
    acc = {v: k for k, v in reversed(list(cmap.items()))}
    for j in range(len(cols)):
        if j not in acc:
            continue
        w = Vector(list(range(len(tc))), name="kept src")
        before_t = _names(tc)
        setattr(tc, acc[j], w)
        _same_names("t.col = v", [(w, {"v": "kept src"})])
        after = _names(tc)["t"]
        if [n for i, n in enumerate(after) if i != j] != [n for i, n in enumerate(before_t["t"]) if i != j]:
            raise _OperandRenamed(f"operand-renamed: after t.{acc[j]} = v the OTHER columns are named {after}, were {before_t['t']}")
        if len(cols) >= 2:
            o = (j + 1) % len(cols)
            src = tc.cols()[o]
            src_before, names_before = _names(src), _names(tc)["t"]
            setattr(tc, acc[j], src)
            if _names(tc.cols()[o]) != src_before or [n for i, n in enumerate(_names(tc)["t"]) if i != j] != \
                    [n for i, n in enumerate(names_before) if i != j]:
                raise _OperandRenamed(f"operand-renamed: after t.{acc[j]} = t.<column {o}> the columns are named "
                                      f"{_names(tc)['t']}, were {names_before} (only column {j} was assigned)")


def _names(x):
    from serif import Table
    if isinstance(x, Table):
        return {"t": [_s(n) for n in x.column_names()]}
    return {"v": _s(x.name)}


def ev_v(e, rec, path=""):
    import operator
    from serif import Table, Vector
    k = e[0]
    if k == "lit":
        r = _vec(3, e[1])
        if len(e) > 2:                       # "empty": what a mask that matches no row leaves - typed, named, no element
            r = r[[False, False, False]]
    elif k in ("bin", "cmp"):
        a, b = (e[2], e[3]) if k == "bin" else (e[1], e[2])
        xa, xb = _ev_fit_pair(ev_v, ev_v, a, b, rec, path)
        rec.append((a, _names(xa)))
        rec.append((b, _names(xb)))
        r = getattr(operator, e[1])(xa, xb) if k == "bin" else (xa < xb)
    elif k == "bins":
        a = ev_v(e[2], rec, path)
        r = {"add": lambda: a + 2, "radd": lambda: 2 + a, "mul": lambda: a * 2, "rmul": lambda: 2 * a,
             "sub": lambda: a - 2, "rsub": lambda: 2 - a}[e[1]]()
    elif k == "cmps":
        a = ev_v(e[1], rec, path)
        r = a < 2
    elif k == "keep":
        a = ev_v(e[2], rec, path)
        n = len(a)
        if n == 0:
            raise _Skip("empty vector")
        kind = e[1]
        if kind == "fit":
            r = a[0:n]
        elif kind == "copy":
            r = a.copy()
        elif kind == "slice":
            r = a[0:max(1, n - 1)]
        elif kind == "mask":
            r = a[[True] * (n - 1) + [False]] if n > 1 else a[[True]]
        elif kind == "index":
            r = a[[n - 1, 0]]
        elif kind == "sort":
            r = a.sort_by()
        elif kind == "sortr":
            r = a.sort_by(reverse=True)
        elif kind in ("sortn", "sortnr", "maskn"):           # the same on a vector that holds a None
            a = a.copy()
            a[n - 1] = None
            if kind == "maskn":
                r = a[[True] * n]
            else:
                r = a.sort_by(reverse=(kind == "sortnr"), na_last=(kind == "sortn"))
        elif kind == "setitem":
            a[0] = a[0]
            r = a
        elif kind == "promote":
            a[0] = 1.5
            r = a
        elif kind == "unary":
            r = -a
        elif kind == "T":
            r = a.T
        elif kind == "cast":
            r = a.cast(float)
        elif kind == "fillna":
            r = a.fillna(0)
        else:
            raise _Skip("unknown keep")
    elif k == "copyas":
        a = ev_v(e[2], rec, path)
        r = a.copy(name=e[1])
    elif k == "drop":
        a = ev_v(e[1], rec, path)
        r = a.isna()
    elif k == "col":
        t = ev_t(e[2], rec, path)
        r = t.cols(e[1])
    else:
        raise _Skip("unknown vexpr")
    if not isinstance(r, Vector) or isinstance(r, Table):
        raise _Skip("not a vector")
    rec.append((e, _names(r)))
    return r


def ev_t(e, rec, path=""):
    import operator
    from serif import Table, Vector
    k = e[0]
    if k == "tlit":
        if e[2] == "dict":
            r = Table({nm: [j + i for i in range(3)] for j, nm in enumerate(e[1])})
        else:
            r = Table([_vec(3, nm, j) for j, nm in enumerate(e[1])])
        _probe_column_assignment(r)
    elif k == "tofvecs":
        xs = [ev_v(c[2], rec, path + f"{i}.") for i, c in enumerate(e[1])]
        m = min(len(x) for x in xs)
        if m == 0:
            raise _Skip("empty operand")
        xs = [_cut(x, m) for x in xs]
        for c, x in zip(e[1], xs):
            rec.append((c, _names(x)))
        r = Table(xs)
    elif k in ("appt", "ttable"):
        a, b = (e[1], e[2]) if k == "appt" else (e[2], e[3])
        xa, xb = _ev_fit_pair(ev_t, ev_t, a, b, rec, path)
        rec.append((a, _names(xa)))
        rec.append((b, _names(xb)))
        r = (xa >> xb) if k == "appt" else getattr(operator, e[1])(xa, xb)
        _same_names(k, [(xa, rec[-2][1]), (xb, rec[-1][1])])
    elif k == "appv":
        xa, xb = _ev_fit_pair(ev_t, ev_v, e[1], e[2], rec, path)
        rec.append((e[1], _names(xa)))
        rec.append((e[2], _names(xb)))
        r = xa >> xb
        _same_names(k, [(xa, rec[-2][1]), (xb, rec[-1][1])])
    elif k == "appd":
        t = ev_t(e[1], rec, path)
        before = _names(t)
        if len(t) % 2:
            # the dict's values are named vectors the program keeps (a free-standing one, a live column of another table):
            # the label goes on the NEW column, the sources keep their stored names
            other = Table([_vec(len(t), "kept", 7)])
            src = {key: (other.cols()[0] if i == 0 else _vec(len(t), f"src{i}", i)) for i, key in enumerate(e[2])}
            held = [(v, _names(v)) for v in src.values()] + [(other, _names(other))]
            r = t >> src
            _same_names(k, held)
        else:
            r = t >> {key: list(range(len(t))) for key in e[2]}
        _same_names(k, [(t, before)])
    elif k == "tkeep":
        t = ev_t(e[2], rec, path)
        n = len(t)
        if n == 0:
            raise _Skip("empty table")
        kind = e[1]
        if kind == "fit":
            r = t[0:n]
        elif kind == "mask":
            r = t[Vector(([True] * (n - 1) + [False]) if n > 1 else [True])]
        elif kind == "slice":
            r = t[0:max(1, n - 1)]
        elif kind == "index":
            r = t[Vector([n - 1, 0])]
        elif kind == "sort":
            r = t.sort_by(t.cols()[0])
        elif kind == "copy":
            r = t.copy()
        else:
            raise _Skip("unknown tkeep")
    elif k == "colslice":
        t = ev_t(e[3], rec, path)
        r = t[:, e[1]:e[2]]
    elif k == "join":
        xa = ev_t(e[3], rec, path + "0.")
        xb = ev_t(e[4], rec, path + "1.")
        if len(xa) == 0 or len(xb) == 0:
            raise _Skip("empty operand")
        off = 1000 if e[2] else 0
        r = getattr(xa, e[1])(xb, Vector(list(range(len(xa)))), Vector([off + i for i in range(len(xb))]),
                              expect="many_to_many")
    elif k == "scalar":
        t = ev_t(e[2], rec, path)
        r = {"add": lambda: t + 2, "mul": lambda: t * 2, "sub": lambda: t - 2}[e[1]]()
    elif k == "rscalar":
        t = ev_t(e[2], rec, path)
        r = {"rmul": lambda: 2 * t, "rsub": lambda: 2 - t}[e[1]]()
    elif k == "tcmps":
        t = ev_t(e[1], rec, path)
        r = (t == 2)
    elif k == "agg":
        t = ev_t(e[5], rec, path)
        cols = t.cols()
        kw = {}
        for fn, idxs in zip(FNS, e[3]):
            if idxs:
                kw[fn + "_over"] = [cols[i] for i in idxs]
        if e[4]:
            kw["apply"] = {nm: (cols[0], len) for nm in e[4]}
        f = t.window if e[1] else t.aggregate
        r = f(over=[cols[i] for i in e[2]], **kw)
    else:
        raise _Skip("unknown texpr")
    if not isinstance(r, Table):
        raise _Skip("not a table")
    rec.append((e, _names(r)))
    return r


def _meta():
    from serif import Table, Vector
    from serif.naming import _get_reserved_names
    t = Table([Vector([1, 2], name="a")])
    return {"reserved": sorted(_get_reserved_names()), "routed": (2 * t).column_names() == ["a"]}


def _tag(n):
    return None if n is None else [type(n).__name__, repr(n)]


def _observe_lab(case):
    import operator
    from serif import Table, Vector
    labels, what = case["labels"], case["what"]
    n = 3
    t = Table([Vector([10 * j + i for i in range(n)], name=lab) for j, lab in enumerate(labels)])
    want = list(labels)
    if what == "scalar":
        r = t * 2
    elif what == "rscalar":
        r = 2 * t
    elif what == "ttable_same":
        r = t + t
    elif what == "ttable_unnamed":
        r = t - Table([Vector([1] * n) for _ in labels])
    elif what == "slice":
        r = t[0:2]
    elif what == "mask":
        r = t[[True, False, True]]
    elif what == "index":
        r = t[[2, 0]]
    elif what == "sort":
        r = t.sort_by(t.cols()[0], reverse=True)
    elif what == "copy":
        r = t.copy()
    elif what == "colslice":
        r = t[:, 0:max(1, len(labels) - 1)]
        want = want[:max(1, len(labels) - 1)]
    elif what == "stack":
        r = t >> Vector([7] * n, name=labels[-1])
        want = want + [labels[-1]]
    elif what == "join":
        o = Table([Vector(list(range(n)), name="k2"), Vector([5] * n, name=labels[0])])
        r = (Table([Vector(list(range(n)), name="k1")]) >> t).join(o, "k1", "k2")
        want = ["k1"] + want + ["k2", labels[0]]
    else:
        r = t.copy()
        cmap = r._build_column_map()
        acc = next(k for k, v in cmap.items() if v == 0)
        setattr(r, acc, Vector([0] * n, name="other"))
    got = list(r.column_names())
    return {"lab": True, "got": [_tag(x) for x in got], "want": [_tag(x) for x in want],
            "src": [_tag(x) for x in t.column_names()], "src_want": [_tag(x) for x in labels]}


def observe(case):
    try:
        if case["op"] == "lab":
            return _observe_lab(case)
        if case["op"] == "meta":
            return _meta()
        rec = []
        try:
            (ev_v if case["op"] == "v" else ev_t)(case["e"], rec)
        except _Skip as e:
            return {"skip": str(e)}
        except (TypeError, ValueError, ZeroDivisionError, OverflowError, AssertionError) as e:
            # the values made some operation undefined: outside the property (names only)
            return {"skip": f"{type(e).__name__}: {e}"[:160]}
        return {"nodes": [n for _, n in rec]}
    except Exception as e:      # noqa: BLE001
        return {"exc": err_name(e), "msg": f"{type(e).__name__}: {e}"[:200]}


# ------------------------------------------------------------------ walking a tree in the observer's order

def _walk_v(e, out):
    k = e[0]
    if k in ("bin", "cmp"):
        a, b = (e[2], e[3]) if k == "bin" else (e[1], e[2])
        _walk_v(a[2], out)
        _walk_v(b[2], out)
        out.append(("v", a))
        out.append(("v", b))
    elif k in ("bins", "keep", "copyas"):
        _walk_v(e[2], out)
    elif k in ("cmps", "drop"):
        _walk_v(e[1], out)
    elif k == "col":
        _walk_t(e[2], out)
    out.append(("v", e))


def _walk_t(e, out):
    k = e[0]
    if k == "tofvecs":
        for c in e[1]:
            _walk_v(c[2], out)
        for c in e[1]:
            out.append(("v", c))
    elif k in ("appt", "ttable"):
        a, b = (e[1], e[2]) if k == "appt" else (e[2], e[3])
        _walk_t(a[2], out)
        _walk_t(b[2], out)
        out.append(("t", a))
        out.append(("t", b))
    elif k == "appv":
        _walk_t(e[1][2], out)
        _walk_v(e[2][2], out)
        out.append(("t", e[1]))
        out.append(("v", e[2]))
    elif k == "appd":
        _walk_t(e[1], out)
    elif k in ("tkeep", "scalar", "rscalar"):
        _walk_t(e[2], out)
    elif k == "colslice":
        _walk_t(e[3], out)
    elif k == "join":
        _walk_t(e[3], out)
        _walk_t(e[4], out)
    elif k == "tcmps":
        _walk_t(e[1], out)
    elif k == "agg":
        _walk_t(e[5], out)
    out.append(("t", e))


def _nodes(case):
    out = []
    (_walk_v if case["op"] == "v" else _walk_t)(case["e"], out)
    return out


# ------------------------------------------------------------------ Coq emitter

_META = None


def _meta_cached():
    global _META
    if _META is None:
        from harness import core
        _META = core.run_impl("c18", [{"op": "meta"}])[0]
        if "exc" in _META:
            raise RuntimeError("cannot read the reserved set: " + _META["msg"])
    return _META


def __getattr__(name):
    if name == "PRELUDE":
        m = _meta_cached()
        return ("From Coq Require Import List String.\nImport ListNotations.\nOpen Scope string_scope.\n"
                "From Serif Require Import Base.PyVal Model.Naming Model.Names Corr.C18.\n"
                "Definition RES : list str := ss " + clist(cstr(r) for r in m["reserved"]) + ".\n"
                "Definition ROUTED : bool := true.")   # the repaired code (/repo 79667e6) defines the reflected table operators; no longer probed
    raise AttributeError(name)


def _s(n):
    """Column labels that are not strings (ints, floats, bools: only in the "agg-labels" stream) are seen by the model
    and the oracle through str(), which is what the sanitiser starts from."""
    return n if n is None or isinstance(n, str) else str(n)


def _cn(n):
    return "None" if n is None else f"(Q {cstr(_s(n))})"


_KEEP = {"copy": "KCopy", "slice": "KSlice", "fit": "KSlice", "mask": "KMask", "index": "KIndex", "sort": "KSort",
         "sortr": "KSort", "sortn": "KSort", "sortnr": "KSort", "maskn": "KMask",
         "setitem": "KSetitem", "promote": "KPromote", "unary": "KUnary", "T": "KT", "cast": "KCast", "fillna": "KFillna"}
_TKEEP = {"mask": "TKMask", "slice": "TKSlice", "fit": "TKSlice", "index": "TKIndex", "sort": "TKSort", "copy": "TKCopy"}
_JK = {"inner_join": "JInner", "join": "JLeft", "full_join": "JFull"}


def coq_v(e):
    k = e[0]
    if k == "lit":
        return f"(VLit {_cn(e[1])})"
    if k == "bin":
        return f"(VBin {coq_v(e[2])} {coq_v(e[3])})"
    if k == "bins":
        return f"(VBinS {coq_v(e[2])})"
    if k == "cmp":
        return f"(VCmp {coq_v(e[1])} {coq_v(e[2])})"
    if k == "cmps":
        return f"(VCmpS {coq_v(e[1])})"
    if k == "keep":
        return f"(VKeep {_KEEP[e[1]]} {coq_v(e[2])})"
    if k == "copyas":
        return f"(VCopyAs {_cn(e[1])} {coq_v(e[2])})"
    if k == "drop":
        return f"(VDrop {coq_v(e[1])})"
    if k == "col":
        return f"(VCol {cnat(e[1])} {coq_t(e[2])})"
    raise ValueError(k)


def coq_t(e):
    k = e[0]
    if k == "tlit":
        return f"(TLit {clist(_cn(n) for n in e[1])})"
    if k == "tofvecs":
        return f"(TOfVecs {clist(coq_v(c) for c in e[1])})"
    if k == "appt":
        return f"(TAppendT {coq_t(e[1])} {coq_t(e[2])})"
    if k == "appv":
        return f"(TAppendV {coq_t(e[1])} {coq_v(e[2])})"
    if k == "appd":
        return f"(TAppendD {coq_t(e[1])} (ss {clist(cstr(x) for x in e[2])}))"
    if k == "tkeep":
        return f"(TKeep {_TKEEP[e[1]]} {coq_t(e[2])})"
    if k == "colslice":
        return f"(TColSlice {cnat(e[1])} {cnat(e[2])} {coq_t(e[3])})"
    if k == "join":
        return f"(TJoin {_JK[e[1]]} {cbool(e[2])} {coq_t(e[3])} {coq_t(e[4])})"
    if k == "scalar":
        return f"(TScalar {coq_t(e[2])})"
    if k == "rscalar":
        return f"(TRScalar {coq_t(e[2])})"
    if k == "ttable":
        return f"(TTable {coq_t(e[2])} {coq_t(e[3])})"
    if k == "tcmps":
        return f"(TCmpS {coq_t(e[1])})"
    if k == "agg":
        aggs = clist(clist(cnat(i) for i in l) for l in e[3])
        return (f"(TAgg {cbool(e[1])} {clist(cnat(i) for i in e[2])} {aggs} "
                f"(ss {clist(cstr(x) for x in e[4])}) {coq_t(e[5])})")
    raise ValueError(k)


def _ascii(n):
    return n is None or (isinstance(n, str) and all(32 <= ord(c) < 127 for c in n))


def emit(case, obs):
    if "exc" in obs:
        return "CBad"
    if case["op"] in ("meta", "lab"):
        return "CSkip"
    if "skip" in obs:
        return "CSkip"
    nodes = _nodes(case)
    if len(nodes) != len(obs["nodes"]):
        return "CBad"
    terms = []
    for (kind, e), o in zip(nodes, obs["nodes"]):
        if kind == "v":
            if "v" not in o or not _ascii(o["v"]):
                return "CBad"
            terms.append(f"CV {coq_v(e)} {_cn(o['v'])}")
        else:
            if "t" not in o or not all(_ascii(x) for x in o["t"]):
                return "CBad"
            terms.append(f"CT {coq_t(e)} {clist(_cn(x) for x in o['t'])}")
    # the root is last; inner nodes are checked too (every derived object)
    return "CAll " + clist(terms)


# ------------------------------------------------------------------ independent oracle

OKCH = set("abcdefghijklmnopqrstuvwxyz0123456789_")


def _rules_body(name):
    out, run = [], False
    for ch in name.lower():
        if ch in OKCH:
            out.append(ch)
            run = False
        elif not run:
            out.append("_")
            run = True
    body = "".join(out).strip("_")
    if not body:
        return None
    return ("c" + body) if body[0] in "0123456789" else body


def _agg_ok(e, src, got):
    """aggregate/window output names: key names (or "key"), then <sanitised column>_<function>, then the apply
    names; pairwise distinct; each is its base or its base plus a numeric suffix."""
    pats = []
    for i in e[2]:
        pats.append(re.escape(src[i] or "key"))
    for fn, idxs in zip(FNS, e[3]):
        for i in idxs:
            body = _rules_body(src[i] or "col") or "col"
            pats.append(re.escape(body) + r"_{0,2}_" + fn)
    for nm in e[4]:
        pats.append(re.escape(nm))
    if len(got) != len(pats):
        return f"{len(got)} output columns for {len(pats)} requested"
    if len(set(got)) != len(got):
        return f"output names {got!r} are not pairwise distinct"
    for g, p in zip(got, pats):
        if not isinstance(g, str) or re.fullmatch(p + r"(\d+)?", g) is None:
            return f"output name {g!r} is not {p!r} plus an optional numeric suffix"
        m = re.fullmatch(p + r"(\d+)", g)
        if m and re.fullmatch(p, g) is None and int(m.group(1)) < 2:
            return f"output name {g!r} carries a suffix below 2"
    return None


def oracle(case, obs):
    if "exc" in obs:
        return f"raises: {obs['msg']}"
    if case["op"] == "lab":
        if obs["got"] != obs["want"]:
            return (f"typed-labels: {case['what']} on a table labelled {obs['src_want']} gives columns labelled {obs['got']}; "
                    f"the stored labels are kept as they are: {obs['want']}")
        if obs["src"] != obs["src_want"]:
            return f"typed-labels: {case['what']} changed the labels of its operand to {obs['src']}, were {obs['src_want']}"
        return None
    if case["op"] == "meta" or "skip" in obs:
        return None
    nodes = _nodes(case)
    if len(nodes) != len(obs["nodes"]):
        return "trace-shape: observer and walker disagree on the tree"
    seen = {}                       # id(node) -> observed names

    def got(e):
        return seen[id(e)]

    for (kind, e), o in zip(nodes, obs["nodes"]):
        val = o["v"] if kind == "v" else o["t"]
        seen[id(e)] = val
        k = e[0]
        want, what = None, None
        if kind == "v":
            if k == "lit":
                want, what = [e[1]], "a fresh vector keeps the name it was given"
            elif k in ("bin", "bins"):
                want, what = [None], "binary arithmetic gives an unnamed result"
            elif k in ("cmp", "cmps"):
                want, what = [None], "a comparison gives an unnamed result"
            elif k == "keep" and e[1] in CLAIMED_VKEEP:
                want, what = [got(e[2])], f"{e[1]} keeps the vector's name"
            elif k == "col":
                want, what = [got(e[2])[e[1]]], "a column taken from a table carries its stored name"
            if want is not None and val != want[0]:
                return f"vector-{k}: {what}: expected {want[0]!r}, got {val!r} at {e}"
            continue
        if k == "tlit":
            want, what = [_s(n) for n in e[1]], "a table built from named columns keeps the names"
        elif k == "tofvecs":
            want, what = [got(c) for c in e[1]], "a table built from vectors keeps each vector's name"
        elif k == "appt":
            want, what = got(e[1]) + got(e[2]), ">> keeps the names of both sides in order"
        elif k == "appv":
            want, what = got(e[1]) + [got(e[2])], ">> keeps the names of both sides in order"
        elif k == "appd":
            want, what = got(e[1]) + list(e[2]), ">> keeps the names of both sides in order"
        elif k == "tkeep":
            want, what = got(e[2]), f"{e[1]} keeps the column names in order"
        elif k == "colslice":
            want, what = got(e[3])[e[1]:e[2]], "a column slice keeps the selected names in order"
        elif k == "join":
            if not (e[1] == "inner_join" and e[2]):
                want, what = got(e[3]) + got(e[4]), "a join keeps the left names then the right names"
        elif k == "scalar":
            want, what = got(e[2]), "table-with-scalar arithmetic keeps every column name"
        elif k == "rscalar":
            if val != got(e[2]):
                return (f"rscalar-drops-names: table-with-scalar arithmetic keeps every column name: scalar {e[1]} table "
                        f"named {got(e[2])!r} gives {val!r}")
            continue
        elif k == "ttable":
            l, r = got(e[2]), got(e[3])
            want = [a if (b is None or b == a) else None for a, b in zip(l, r)]
            what = "table-with-table arithmetic keeps a left name only when the right name is absent or equal"
        elif k == "tcmps":
            want, what = [None] * len(got(e[1])), "a comparison gives unnamed results"
        elif k == "agg":
            bad = _agg_ok(e, got(e[5]), val)
            if bad:
                return f"agg-names: {'window' if e[1] else 'aggregate'} over columns named {got(e[5])!r}: {bad}"
            continue
        if want is not None and val != want:
            return f"table-{k}: {what}: expected {want!r}, got {val!r} at {str(e)[:200]}"
    return None


def known(case, obs, why):
    """NEW-C18-1: Table defines no reflected operators, so scalar (op) table runs Vector's and drops the names."""
    if why.startswith("rscalar-drops-names"):
        return "NEW-C18-1"
    return None


# ------------------------------------------------------------------ evidence helpers

_ALLK = {"lit", "bin", "bins", "cmp", "cmps", "keep", "copyas", "drop", "col", "tlit", "tofvecs", "appt", "appv",
         "appd", "tkeep", "colslice", "join", "scalar", "rscalar", "ttable", "tcmps", "agg"}


def nontrivial(case, obs):
    if case["op"] == "lab":
        return "exc" not in obs and any(not isinstance(x, str) and x is not None for x in case["labels"])
    if case["op"] == "meta" or "skip" in obs or "exc" in obs:
        return False
    nodes = _nodes(case)
    named = any((o.get("v") is not None) or any(x is not None for x in o.get("t", [])) for o in obs["nodes"])
    return len(nodes) >= 2 and named


def describe(case, obs, stream):
    if "exc" in obs:
        return [f"{stream}:exc"]
    if "skip" in obs:
        return [f"{stream}:skipped"]
    if case["op"] == "meta":
        return []
    if case["op"] == "lab":
        return [f"typed-labels:{case['what']}"]
    return list({f"{stream}:{e[0]}" + (f"-{e[1]}" if e[0] in ("keep", "tkeep", "join") else "") for _, e in _nodes(case)})


def shrink(case):
    if case["op"] == "lab":
        for i in range(len(case["labels"])):
            if len(case["labels"]) > 1:
                yield dict(case, labels=case["labels"][:i] + case["labels"][i + 1:])
        return
    if case["op"] == "meta":
        return
    e = case["e"]

    def subs(x):
        for y in x:
            if isinstance(y, list) and y and isinstance(y[0], str) and y[0] in _ALLK:
                yield y
            elif isinstance(y, list):
                for z in y:
                    if isinstance(z, list) and z and isinstance(z[0], str) and z[0] in _ALLK:
                        yield z

    for sub in subs(e):
        inner = sub[2] if sub[0] in ("keep", "tkeep") and sub[1] == "fit" else sub
        op = "t" if inner[0] in ("tlit", "tofvecs", "appt", "appv", "appd", "tkeep", "colslice", "join", "scalar",
                                 "rscalar", "ttable", "tcmps", "agg") else "v"
        yield {"op": op, "e": inner}


def neighbours(case, rng):
    out = []
    for _ in range(20):
        pool = rng.sample(NAMES, 3) + [None]
        out.append({"op": "v", "e": gen_v(rng, 3, pool)})
        out.append({"op": "t", "e": gen_t(rng, 3, pool)[0]})
    return out
