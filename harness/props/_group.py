"""Shared machinery of C12 (aggregate, vector reductions) and C13 (window).

A case is one call
    {"op": "agg" | "win", "names", "cols", "over": [spec..], "over_bare": bool,
     "args": {"sum" | "mean" | "min" | "max" | "stdev" | "count": None | {"bare": spec} | {"list": [spec..]}},
     "apply": None | [[name, spec, fid], ..]}
    {"op": "reduce", "data": [tags], "kind": "sum" | "mean" | "min" | "max" | "stdev", "key": tag}
with spec = ["n", j] (column name) | ["c", j] (the table's own column object) | ["v", [tags]] (a Vector
that is not stored in the table).  The custom functions are fid 0: tuple(vals), 1: len(vals), 2: None;
each records the argument it receives.

The oracles group the rows by hand (nested loops with Python's own == on the key tuples): no dict, no
hashing, no sorting.
"""
import itertools
import json
import math

from harness import values as V
from harness.core import cbool, clist, cnat, copt, cz, err_name

KINDS = ["sum", "mean", "min", "max", "stdev", "count"]          # the keyword arguments
ORDER = ["sum", "mean", "min", "max", "count", "stdev"]          # the order of the result columns
COQ_KIND = {"sum": "ASum", "mean": "AMean", "min": "AMin", "max": "AMax", "stdev": "AStdev", "count": "ACount"}
NAMES = ["a", "b", "c", "d", "e"]
N = ["N"]

ASSUMED = [
    "dict: an insertion-ordered association looked up with ==, keeping the first key object inserted — CPython's "
    "behaviour for hashable keys whose __hash__ agrees with __eq__ (DESIGN.md §3); additionally exercised under "
    "three PYTHONHASHSEED values with string keys",
    "min()/max() return the first least/greatest element and look at elements only through < / >, which agree "
    "with one total preorder on the non-None values of the column",
    "mean and stdev are functions of the cleaned value list (floats are kept opaque: per-case lookup tables "
    "computed by Python, compared with relative tolerance 1e-9); sums are modelled for int/bool columns (over Z)",
    "a column given by name is resolved to the column of that name (name lookup is C17's subject); result column "
    "names are C18's subject and are observed but not compared",
    "NaN keys, unhashable keys, sum/mean/stdev of non-numbers and min/max of unordered values are outside the "
    "domain (emitted as CSkip)",
]

KPOOLS = {
    "kstr": [["s", "a"], ["s", "b"], ["s", "c"]],
    "kint": [["i", 0], ["i", 1], ["i", 2]],
    "keq": [["i", 1], ["b", True], ["f", (1.0).hex()], ["i", 0], ["b", False]],
    "kdate": [["d", 738000], ["d", 738001]],
    # unequal keys with equal hash() (hash(-1) == hash(-2); hash(2**61-1) == hash(0)): anything that stands in
    # for the keys by a hash or a fingerprint confuses them
    "khash": [["i", -1], ["i", -2], ["i", 0], ["i", 2 ** 61 - 1]],
}
DPOOLS = {
    "int": [["i", 5], ["i", 1], ["i", -3], ["i", 2], ["b", True], ["i", 0], ["i", 7]],
    "float": [["f", (0.5).hex()], ["f", (1.5).hex()], ["f", (2.5).hex()], ["f", (-1.25).hex()], ["i", 2]],
    "str": [["s", "x"], ["s", "y"], ["s", "xy"]],
    # large values with a small spread (integral floats: sums and means stay exact in the textbook two-pass
    # formula, while a one-pass sum-of-squares formula cancels catastrophically)
    "bigfloat": [["f", (1e8).hex()], ["f", (1e8 + 2).hex()], ["f", (1e8 + 4).hex()], ["f", (1e8 + 7).hex()]],
}
SUITABLE = {"sum": ("int",), "mean": ("int", "float", "bigfloat"), "stdev": ("int", "float", "bigfloat"),
            "min": ("int", "float", "str", "kstr", "kint", "kdate", "khash"), "max": ("int", "float", "str", "kstr", "kint", "kdate", "khash"),
            "count": ("int", "float", "str", "kstr", "kint", "keq", "kdate", "khash")}


# ------------------------------------------------------------------ generators

def rand_col(rng, n, pool, p_none):
    return [N if rng.random() < p_none else rng.choice(pool) for _ in range(n)]


def _pick_spec(rng, kinds, cols, n, want):
    """a spec naming a column whose kind is in `want` (table column or fresh vector)"""
    cands = [j for j, k in enumerate(kinds) if k in want]
    r = rng.random()
    if cands and r < 0.75:
        j = rng.choice(cands)
        return ["n", j] if rng.random() < 0.75 else ["c", j]
    k = rng.choice([w for w in want])
    pool = KPOOLS.get(k) or DPOOLS[k]
    spec = ["v", rand_col(rng, n, pool, rng.choice([0, .2, .5]))]
    if rng.random() < 0.4:
        # the external vector carries a NAME - often the name of a table column (t.x.fillna(0) keeps the name "x"):
        # vectors are told apart by what they hold, not by what they are called
        spec.append(rng.choice(NAMES[:max(1, len(cols))]))
    return spec


def random_call(rng, op, nmax=10):
    n = rng.choice([0, 1, 2, 3, 4, 5, 6, 6, 7, 8, 8, 9, 10][:nmax + 3])
    n = min(n, nmax)
    ncols = rng.randint(2, 5)
    kinds, cols = [], []
    for i in range(ncols):
        k = (rng.choice(["kstr", "kint", "keq", "khash", "int", "int", "float", "bigfloat", "str"]) if i
             else rng.choice(["kstr", "kint", "keq", "khash"]))
        pool = KPOOLS.get(k) or DPOOLS[k]
        if k in KPOOLS:
            pool = pool[:rng.randint(2, len(pool))]
        kinds.append(k)
        cols.append(rand_col(rng, n, pool, rng.choice([0, .15, .3, .6])))
    nk = rng.choice([1, 1, 1, 2, 2, 3])
    over = [_pick_spec(rng, kinds, cols, n, ("kstr", "kint", "keq", "kdate", "khash") if rng.random() < 0.85 else ("int", "str"))
            for _ in range(nk)]
    args = {}
    for kind in KINDS:
        r = rng.random()
        if r < 0.45:
            args[kind] = None
        elif r < 0.65:
            args[kind] = {"bare": _pick_spec(rng, kinds, cols, n, SUITABLE[kind])}
        elif r < 0.80:
            args[kind] = {"list": [_pick_spec(rng, kinds, cols, n, SUITABLE[kind])]}
        elif r < 0.95:
            s = _pick_spec(rng, kinds, cols, n, SUITABLE[kind])
            args[kind] = {"list": [s, s if rng.random() < 0.5 else _pick_spec(rng, kinds, cols, n, SUITABLE[kind])]}
        else:
            args[kind] = {"list": []}
    r = rng.random()
    if r < 0.5:
        ap = None
    elif r < 0.55:
        ap = []
    else:
        ap = [[f"z{i + 1}", _pick_spec(rng, kinds, cols, n, SUITABLE["count"]), rng.choice([0, 0, 1, 2])]
              for i in range(rng.choice([1, 1, 2]))]
    # column names that only differ by case / punctuation (as after a join): a column given BY NAME is the column
    # with exactly that name, not an earlier one whose accessor looks the same
    names = rng.choice([NAMES, NAMES, NAMES, ["A", "a", "B", "b", "c"], ["a b", "a_b", "X", "x", "y"],
                        # one name on several columns (as after a join on equally named keys, or t >> {...} with a name in use)
                        ["a", "b", "a", "c", "b"], ["k", "k", "v", "v", "k"]])[:ncols]
    c = {"op": op, "names": names, "cols": cols, "over": over,
         "over_bare": nk == 1 and rng.random() < 0.5, "args": args, "apply": ap}
    if ap is None and rng.random() < 0.3:
        c["reuse_args"] = True                               # see _call_on: the argument objects were used before
    if rng.random() < 0.3:
        c["prior_named"] = True                              # see _call_on: an earlier call used custom functions named like built-ins
    return c


# ---- value classes the integer model of sums says nothing about (complex, Fraction, Decimal, float): decided by the oracle
#      alone - aggregate against Python's own reduction of each group's None-free values, window against aggregate
CLS_POOLS = {
    "complex": [["c", (1.0).hex(), (2.0).hex()], ["c", (0.0).hex(), (-1.0).hex()], ["c", (2.5).hex(), (0.0).hex()], ["i", 3]],
    "Fr": [["Fr", 1, 2], ["Fr", -3, 4], ["Fr", 2, 1], ["Fr", 5, 3], ["i", 2]],
    "Dec": [["Dec", "1.5"], ["Dec", "-2"], ["Dec", "0.25"], ["Dec", "10"]],
    "float": [["f", (0.5).hex()], ["f", (1.5).hex()], ["f", (-2.0).hex()], ["i", 4], ["b", True]],
    "td": [["td", 1], ["td", -3], ["td", 40]],
}
CLS_FNS = {"complex": ["sum", "count", "mean"], "Fr": ["sum", "min", "max", "count", "mean"],
           "Dec": ["sum", "min", "max", "count", "mean"], "float": ["sum", "min", "max", "count", "mean", "stdev"],
           "td": ["min", "max", "count"]}


def class_calls(rng, n):
    cs = []
    for _ in range(n):
        cls = rng.choice(list(CLS_POOLS))
        rows = rng.randint(1, 8)
        keys = [rng.choice([["s", "a"], ["s", "b"], ["i", 1], ["N"]]) for _ in range(rows)]
        vals = rand_col(rng, rows, CLS_POOLS[cls], rng.choice([0, .2, .5]))
        c = {"op": "cls", "cls": cls, "keys": keys, "vals": vals}
        if rng.random() < 0.12:
            # float keys with NaN among them (NaN != NaN: how such rows group is outside C12 / C13): run for the benefit of
            # C03's monitor only - whatever comes out is typed truthfully
            c["keys"] = [rng.choice([["f", (1.5).hex()], ["f", (2.5).hex()], ["f", float("nan").hex()]]) for _ in range(rows)]
            c["monitor_only"] = True
        cs.append(c)
    return cs


def observe_classes(case):
    import statistics
    from serif import Table, Vector
    keys = [V.dec(t) for t in case["keys"]]
    vals = [V.dec(t) for t in case["vals"]]
    t = Table([Vector(keys, name="k"), Vector(vals, name="v")])
    order = []
    for k in keys:
        if not any(k is o or k == o for o in order):
            order.append(k)
    groups = [[x for kk, x in zip(keys, vals) if (kk is k or kk == k) and x is not None] for k in order]
    out = {}
    for fn in CLS_FNS[case["cls"]]:
        o = {}
        try:
            if fn == "count":
                o["ref"] = [len(g) for g in groups]
            elif fn == "stdev":
                o["ref"] = [statistics.stdev(g) if len(g) >= 2 else None for g in groups]
            elif fn == "mean":
                o["ref"] = [sum(g) / len(g) if g else None for g in groups]
            elif fn == "sum":
                o["ref"] = [sum(g) for g in groups]
            else:
                o["ref"] = [(min(g) if fn == "min" else max(g)) if g else None for g in groups]
        except Exception as e:                               # noqa: BLE001  Python does not define it on these values
            o["ref_exc"] = type(e).__name__
        for m in ("aggregate", "window"):
            try:
                r = getattr(t, m)(over=t.k, **{fn + "_over": t.v})
                o[m] = {"keys": list(r.cols()[0]), "vals": list(r.cols()[-1])}
            except Exception as e:                           # noqa: BLE001
                o[m] = {"exc": f"{type(e).__name__}: {e}"[:120]}
        out[fn] = o
    return {"order": order, "fns": out, "keys": keys}


def _cls_close(x, y):
    if x is None or y is None:
        return x is None and y is None
    if isinstance(x, float) or isinstance(y, float) or isinstance(x, complex) or isinstance(y, complex):
        try:
            return abs(x - y) <= 1e-9 * max(1.0, abs(x), abs(y))
        except Exception:                                    # noqa: BLE001
            return False
    return x == y


def oracle_classes(case, obs, what):
    """what = "aggregate": aggregate against Python's reduction per group; "window": window against aggregate, per row.
    The observation is a live python structure (this runs in the implementation subprocess, see observe)."""
    for fn, o in obs["fns"].items():
        a, w = o["aggregate"], o["window"]
        if what == "aggregate":
            if "ref_exc" in o:
                continue
            if "exc" in a:
                return f"class-aggregate-raises: {fn} over {case['vals']} by {case['keys']}: {a['exc']}"
            if len(a["vals"]) != len(o["ref"]) or not all(_cls_close(x, y) for x, y in zip(a["vals"], o["ref"])):
                return (f"class-aggregate: {fn} over {case['vals']} by {case['keys']} gives {a['vals']!r}; Python's reduction of "
                        f"each group's None-free values gives {o['ref']!r}")
        else:
            if "exc" in a:
                continue
            if "exc" in w:
                return f"class-window-raises: {fn} over {case['vals']} by {case['keys']}: {w['exc']} (aggregate does not raise)"
            if len(w["vals"]) != len(obs["keys"]):
                return f"class-window-rows: {fn}: {len(w['vals'])} rows for a table of {len(obs['keys'])}"
            for i, k in enumerate(obs["keys"]):
                g = next((j for j, kk in enumerate(a["keys"]) if kk is k or kk == k), None)
                if g is None or not _cls_close(w["vals"][i], a["vals"][g]):
                    return (f"class-window-vs-aggregate: {fn} over {case['vals']} by {case['keys']}: row {i} has "
                            f"{w['vals'][i]!r}, aggregate computes {None if g is None else a['vals'][g]!r} for its key")
    return None


def with_history(rng, cases):
    """the same calls, made on a table object that was grouped once before while it held its rows in another
    order and was then rewritten in place (see _run): catches anything remembered across calls"""
    out = []
    for c in cases:
        n = len(c["cols"][0]) if c.get("cols") else 0
        if n < 2:
            continue
        perm = list(range(n))
        if rng.random() < 0.8:
            while perm == list(range(n)):
                rng.shuffle(perm)
        out.append(dict(c, prior_perm=perm))
    return out


def _call(op, cols, over, args=None, apply=None, over_bare=False):
    a = {k: None for k in KINDS}
    a.update(args or {})
    return {"op": op, "names": NAMES[:len(cols)], "cols": cols, "over": over, "over_bare": over_bare,
            "args": a, "apply": apply}


def all_on(j):
    return {k: {"bare": ["n", j]} for k in KINDS}


def exhaustive_small(op):
    """every key column over {None,'a','b'} with 0..4 rows; all six aggregates and a recording function"""
    out = []
    alpha = [N, ["s", "a"], ["s", "b"]]
    data = [["i", 5], N, ["i", 2], ["i", 4]]
    for n in range(0, 5):
        for col in itertools.product(alpha, repeat=n):
            out.append(_call(op, [list(col), data[:n]], [["n", 0]], all_on(1), [["z", ["n", 1], 0]], over_bare=True))
    return out


def combos(op):
    """every subset of the six aggregate arguments, bare and with the same column twice"""
    k1 = [["s", "a"], ["s", "b"], ["s", "a"], N, ["s", "b"], ["s", "a"], N]
    k2 = [["i", 1], ["i", 1], ["i", 2], ["i", 1], ["i", 1], ["i", 1], ["i", 1]]
    d = [["i", 5], N, ["i", 3], N, ["i", 2], ["b", True], N]
    f = [["f", (0.5).hex()], ["f", (1.5).hex()], N, ["f", (2.5).hex()], N, ["f", (0.5).hex()], N]
    out = []
    for mask in range(64):
        for form in ("bare", "twice", "two"):
            args = {}
            for b, kind in enumerate(KINDS):
                if (mask >> b) & 1:
                    if form == "bare":
                        args[kind] = {"bare": ["n", 2]}
                    elif form == "twice":
                        args[kind] = {"list": [["n", 2], ["n", 2]]}
                    else:
                        args[kind] = {"list": [["n", 2], ["c", 3] if kind != "sum" else ["v", d[::-1]]]}
            over = [["n", 0]] if mask % 3 else [["n", 0], ["n", 1]]
            out.append(_call(op, [k1, k2, d, f], over, args, [["z", ["n", 2], 0]] if mask % 4 == 0 else None))
    return out


def shapes(op):
    out = []
    d6 = [["i", 5], N, ["i", 3], ["i", -3], N, ["i", 2]]
    inter = [["s", "a"], ["s", "b"], ["s", "a"], ["s", "b"], ["s", "a"], ["s", "b"]]
    single = [["i", i] for i in range(6)]
    nonek = [N, ["s", "a"], N, ["s", "a"], N, N]
    alln = [N] * 6
    for keycol in (inter, single, nonek, alln, [["s", "a"]] * 6,
                   [["i", 1], ["b", True], ["f", (1.0).hex()], ["i", 0], ["b", False], ["i", 1]]):
        for data in (d6, [N] * 6, [N, N, ["i", 4], N, N, N]):
            out.append(_call(op, [keycol, data], [["n", 0]], all_on(1), [["z", ["n", 1], 0], ["w", ["n", 0], 1]]))
            out.append(_call(op, [data], [["v", keycol]], all_on(0), [["z", ["c", 0], 0]]))
    # composite keys agreeing on one component
    ka = [["s", "a"], ["s", "a"], ["s", "b"], ["s", "b"], ["s", "a"], ["s", "b"]]
    kb = [["i", 1], ["i", 2], ["i", 1], ["i", 2], ["i", 1], N]
    kc = [N, N, ["i", 0], N, N, ["i", 0]]
    out.append(_call(op, [ka, kb, d6], [["n", 0], ["n", 1]], all_on(2), [["z", ["n", 2], 0]]))
    out.append(_call(op, [ka, d6], [["n", 0], ["v", kb]], all_on(1)))
    out.append(_call(op, [ka, kb, d6], [["n", 1], ["n", 0], ["v", kc]], all_on(2), [["z", ["n", 2], 0]]))
    out.append(_call(op, [d6], [["v", ka], ["v", kb], ["v", kc]], all_on(0)))
    out.append(_call(op, [ka, d6], [["n", 0], ["n", 0]], all_on(1)))            # the same key twice
    out.append(_call(op, [ka, d6], [["c", 0]], {"sum": {"bare": ["n", 0 + 1]}, "count": {"bare": ["n", 0]}}))
    return out


def malformed(op):
    ka = [["s", "a"], ["s", "b"], ["s", "a"]]
    d = [["i", 1], N, ["i", 2]]
    return [
        _call(op, [ka, d], [["v", ka[:2]]], all_on(1)),
        _call(op, [ka, d], [["n", 0]], {"sum": {"bare": ["v", d + d]}}),
        _call(op, [ka, d], [["n", 4]], all_on(1)),
        _call(op, [ka, d], [["n", 0]], {"mean": {"list": [["n", 1], ["n", 4]]}}),
        _call(op, [ka, d], [["n", 0]], None, [["z", ["n", 1], 0], ["w", ["v", d[:1]], 0]]),     # calls, then raises
        _call(op, [ka, d], [["n", 0]], None, [["z", ["n", 1], 1], ["w", ["n", 4], 0]]),
        _call(op, [ka, d], [], all_on(1), [["z", ["n", 1], 0]]),                                # no key: one group
        _call(op, [ka, [["s", "x"], N, ["s", "y"]]], [["n", 0]], {"sum": {"bare": ["n", 1]}}),  # sum of str
        _call(op, [ka, [["i", 1], ["s", "x"], ["i", 2]]], [["n", 0]], {"min": {"bare": ["n", 1]}}),  # unordered
    ]


# ------------------------------------------------------------------ implementation side

class _Kept:
    """what custom function 0 returns: it KEEPS the list object it was given (a function collecting its group's members);
    the observer reads it only after the whole call has returned - every call must have been given a list of its own"""
    __slots__ = ("vals",)

    def __init__(self, vals):
        self.vals = vals


def _func(log, idx, fid):
    """the custom function of apply entry number idx: behaviour fid, records what it receives"""
    def f(vals):
        log.append([idx, fid, type(vals).__name__, [V.enc(x) for x in vals]])
        return _Kept(vals) if fid == 0 else (len(vals) if fid == 1 else None)
    return f


def _enc_cols(t):
    return [[V.enc(tuple(x.vals) if isinstance(x, _Kept) else x) for x in c._underlying] for c in t._underlying]


def _run(case, method):
    """one call of t.<method>(...) on a freshly built table; returns the observation"""
    from serif import Table, Vector
    names = case["names"]
    perm = case.get("prior_perm")
    nrows = len(case["cols"][0]) if case["cols"] else 0
    if perm is not None and sorted(perm) == list(range(nrows)) and nrows:
        # HISTORY: the same table object first holds the rows in another order and is grouped once (result
        # discarded); then every cell is written IN PLACE through the live column objects until the table
        # holds case["cols"]; only then the observed call is made.  aggregate/window are functions of the
        # table's CURRENT contents: anything remembered from the earlier call must not show.
        t = _tab(names, [[V.dec(col[p]) for p in perm] for col in case["cols"]])
        pre = _enc_cols(t)
        try:
            _call_on(t, names, pre, case, method, [])
        except Exception:                                    # noqa: BLE001
            pass
        try:
            for j, col in enumerate(case["cols"]):
                for i, tag in enumerate(col):
                    if perm[i] != i:
                        t._underlying[j][i] = V.dec(tag)
        except Exception:                                    # noqa: BLE001 - fall back to a fresh table
            t = _tab(names, [[V.dec(x) for x in col] for col in case["cols"]])
        if _enc_cols(t) != [list(c) for c in case["cols"]]:
            t = _tab(names, [[V.dec(x) for x in col] for col in case["cols"]])
    else:
        t = _tab(names, [[V.dec(x) for x in col] for col in case["cols"]])
    pre = _enc_cols(t)
    log = []
    obs = {"pre": pre}
    try:
        r, res = _call_on(t, names, pre, case, method, log, obs)
    except Exception as e:
        obs.update({"exc": err_name(e), "msg": f"{type(e).__name__}: {e}"[:160], "log": log})
        return obs
    obs.update({"out": _enc_cols(r), "names": list(r.column_names()), "log": log, "post": _enc_cols(t)})
    return obs


def _tab(names, cols):
    """a table with these column names - repeated names included (a dict would merge them)"""
    from serif import Table, Vector
    if len(set(names)) == len(names):
        return Table({nm: col for nm, col in zip(names, cols)})
    return Table([Vector(col, name=nm) for nm, col in zip(names, cols)])


def _call_on(t, names, pre, case, method, log, obs=None):
    """build the arguments against table t (its present contents are `pre`) and call t.<method>"""
    from serif import Vector

    def build(spec):
        """-> (python argument, snapshot of the resolved data or None)"""
        if spec[0] == "n":
            if spec[1] >= len(names):
                return "nosuch", None
            return names[spec[1]], pre[names.index(names[spec[1]])]      # a repeated name denotes its FIRST column
        if spec[0] == "c":
            return t[names[spec[1]]], pre[names.index(names[spec[1]])]
        vec = Vector([V.dec(x) for x in spec[1]], name=(spec[2] if len(spec) > 2 else None))
        return vec, [V.enc(x) for x in vec._underlying]

    res = {"over": [], "args": {}, "apply": []}
    over = []
    for s in case["over"]:
        a, snap = build(s)
        over.append(a)
        res["over"].append(snap)
    kwargs = {}
    for kind in KINDS:
        a = case["args"].get(kind)
        if a is None:
            res["args"][kind] = None
            continue
        if "bare" in a:
            arg, snap = build(a["bare"])
            kwargs[kind + "_over"] = arg
            res["args"][kind] = [snap]
        else:
            built = [build(s) for s in a["list"]]
            kwargs[kind + "_over"] = [b[0] for b in built]
            res["args"][kind] = [b[1] for b in built]
    if case["apply"] is not None:
        d = {}
        for idx, (name, spec, fid) in enumerate(case["apply"]):
            arg, snap = build(spec)
            d[name] = (arg, _func(log, idx, fid))
            res["apply"].append([name, snap, fid])
        kwargs["apply"] = d
    ov = over[0] if (case.get("over_bare") and len(over) == 1) else over
    if obs is not None and case.get("prior_named"):
        # the program called the same method before, on another table, with custom functions NAMED like the built-in
        # aggregations: a call computes its columns from its own arguments, whatever was asked for earlier under those names
        try:
            from serif import Table
            t0 = Table({"g": [1, 1, 2], "u": [None, 5, 6]})
            getattr(t0, method)(over="g", apply={nm: ("u", (lambda vals: len(vals) + 100)) for nm in
                                                 ("count", "sum", "min", "max", "mean", "stdev")})
        except Exception:                                    # noqa: BLE001
            pass
    if obs is not None:
        obs["res"] = res
        if case.get("reuse_args") and case["apply"] is None:
            # the program keeps its argument objects (KEYS = ['region']; ...) and used them before, on ANOTHER table with the
            # same column names (the rows in reverse order): a call reads its arguments, it does not rewrite them
            try:
                from serif import Table
                t2 = _tab(names, [[V.dec(x) for x in reversed(col)] for col in pre])
                getattr(t2, method)(over=ov, **kwargs)
            except Exception:                                # noqa: BLE001
                pass
    return getattr(t, method)(over=ov, **kwargs), res


def observe(case):
    try:
        if case["op"] == "cls" and case.get("monitor_only"):
            observe_classes(case)
            return {"cls": True, "agg_verdict": None, "win_verdict": None, "ran": []}
        if case["op"] == "cls":
            o = observe_classes(case)
            return {"cls": True, "agg_verdict": oracle_classes(case, o, "aggregate"),
                    "win_verdict": oracle_classes(case, o, "window"),
                    "ran": [fn for fn, x in o["fns"].items() if "exc" not in x["aggregate"]]}
        if case["op"] == "agg":
            return _run(case, "aggregate")
        if case["op"] == "win":
            return {"win": _run(case, "window"), "agg": _run(case, "aggregate")}
        # reduce
        from serif import Table, Vector
        data = [V.dec(x) for x in case["data"]]
        v = Vector(data)
        obs = {"pre": [V.enc(x) for x in v._underlying]}
        try:
            obs["red"] = V.enc(getattr(v, case["kind"])())
        except Exception as e:
            obs["rexc"] = f"{type(e).__name__}: {e}"[:160]
        try:
            t = Table({"k": [V.dec(case["key"])] * len(data), "v": data})
            r = t.aggregate(over="k", **{case["kind"] + "_over": "v"})
            obs["agg"] = _enc_cols(r)
        except Exception as e:
            obs["aexc"] = f"{type(e).__name__}: {e}"[:160]
        return obs
    except Exception as e:
        return {"fatal": f"{type(e).__name__}: {e}"[:200]}


# ------------------------------------------------------------------ plain-Python semantics (oracle side)

def _is_num(v):
    return type(v) in (bool, int, float) and not (isinstance(v, float) and (math.isnan(v) or math.isinf(v)))


def _orderable(vals):
    xs = [v for v in vals if v is not None]
    try:
        for a in xs:
            if not (a == a):
                return False
            for b in xs:
                if ((a < b) + (b < a) + (a == b)) != 1 or (a > b) != (b < a):
                    return False
    except TypeError:
        return False
    return True


def domain(run):
    """'ok' | 'malformed' | 'outside' for one observed call (uses the resolved snapshots)"""
    res, pre = run["res"], run["pre"]
    n = len(pre[0]) if pre else 0
    allcols = list(res["over"])
    for kind in KINDS:
        allcols += res["args"][kind] or []
    allcols += [a[1] for a in res["apply"]]
    if any(c is None or len(c) != n for c in allcols):
        return "malformed"
    for c in res["over"]:
        for t in c:
            v = V.dec(t)
            try:
                hash(v)
            except TypeError:
                return "outside"
            if v is not None and not (v == v):
                return "outside"
    for kind in ("sum", "mean", "stdev"):
        for c in res["args"][kind] or []:
            if not all(t[0] == "N" or _is_num(V.dec(t)) for t in c):
                return "outside"
    for kind in ("min", "max"):
        for c in res["args"][kind] or []:
            if not _orderable([V.dec(t) for t in c]):
                return "outside"
    return "ok"


def group_by_hand(keycols, n):
    """[(key tuple of python values, [rows])] in first-appearance order, by nested loops and =="""
    cols = [[V.dec(t) for t in c] for c in keycols]
    groups = []
    for i in range(n):
        key = tuple(c[i] for c in cols)
        for g in groups:
            if g[0] == key:
                g[1].append(i)
                break
        else:
            groups.append((key, [i]))
    return groups


def textbook(kind, raw):
    """the aggregate over one group's raw python values"""
    clean = [v for v in raw if v is not None]
    if kind == "sum":
        tot = 0
        for v in clean:
            tot = tot + v
        return tot
    if kind == "count":
        return len(clean)
    if kind == "mean":
        return (math.fsum(clean) / len(clean)) if clean else None
    if kind == "min":
        if not clean:
            return None
        m = clean[0]
        for v in clean[1:]:
            if v < m:
                m = v
        return m
    if kind == "max":
        if not clean:
            return None
        m = clean[0]
        for v in clean[1:]:
            if m < v:
                m = v
        return m
    if kind == "stdev":
        if len(clean) < 2:
            return None
        m = math.fsum(clean) / len(clean)
        return math.sqrt(math.fsum((v - m) * (v - m) for v in clean) / (len(clean) - 1))
    raise ValueError(kind)


def custom(fid, raw):
    return tuple(raw) if fid == 0 else (len(raw) if fid == 1 else None)


def close(a, b):
    """observed python value a agrees with expected b"""
    if a is None or b is None:
        return a is None and b is None
    if isinstance(a, tuple) or isinstance(b, tuple):
        return (isinstance(a, tuple) and isinstance(b, tuple) and len(a) == len(b)
                and all(close(x, y) for x, y in zip(a, b)))
    if isinstance(a, float) or isinstance(b, float):
        try:
            return math.isclose(a, b, rel_tol=1e-9, abs_tol=1e-12)
        except TypeError:
            return False
    try:
        return bool(a == b)
    except Exception:
        return False


def expected_columns(run, groups):
    """[(label, [expected python values per group])] in the implementation's column order"""
    res = run["res"]
    exp = []
    for kind in ORDER:
        for c in res["args"][kind] or []:
            vals = [V.dec(t) for t in c]
            exp.append((kind, [textbook(kind, [vals[i] for i in rows]) for _, rows in groups]))
    for name, c, fid in res["apply"]:
        vals = [V.dec(t) for t in c]
        exp.append((f"apply:{name}", [custom(fid, [vals[i] for i in rows]) for _, rows in groups]))
    return exp


def expected_calls(run, groups):
    calls = []
    for idx, (name, c, fid) in enumerate(run["res"]["apply"]):
        for _, rows in groups:
            calls.append([idx, fid, "list", [c[i] for i in rows]])
    return calls


def interleaved(groups):
    return len(groups) >= 2 and any(rows[-1] - rows[0] + 1 != len(rows) for _, rows in groups)


def has_none(run):
    res = run["res"]
    cols = list(res["over"])
    for kind in KINDS:
        cols += res["args"][kind] or []
    return any(t[0] == "N" for c in cols if c for t in c)


# ------------------------------------------------------------------ Coq emission

class Universe:
    """per-column encoding of values as X terms, with case-wide unique ids"""

    def __init__(self):
        self.cols = {}       # json(tags list) -> {json(tag): term}
        self.next_id = 0
        self.ids = {}        # (colkey, json(tag)) -> id

    def encoder(self, tags):
        ck = json.dumps(tags)
        if ck in self.cols:
            return self.cols[ck]
        distinct = {}
        for t in tags:
            if t[0] != "N":
                distinct.setdefault(json.dumps(t), t)
        items = sorted(distinct.items())
        vals = [V.dec(t) for _, t in items]
        reps = []
        eqc = []
        for v in vals:
            for k, r in enumerate(reps):
                if r == v:
                    eqc.append(k)
                    break
            else:
                reps.append(v)
                eqc.append(len(reps) - 1)
        if _orderable(vals):
            rank = [sum(1 for r in reps if r < v) for v in vals]
        else:
            rank = [0] * len(vals)
        m = {}
        for (js, t), v, e, r in zip(items, vals, eqc, rank):
            z = int(v) if type(v) in (bool, int) else 0
            i = self.next_id
            self.next_id += 1
            self.ids[(ck, js)] = i
            m[js] = (f"({cnat(e)}, {cz(r)}, {cz(z)}, {cnat(i)})", i)
        self.cols[ck] = m
        return m

    def cell(self, tags, t):
        if t[0] == "N":
            return "None"
        m = self.encoder(tags)
        js = json.dumps(t)
        if js not in m:
            return "Some (900, 0%Z, 0%Z, 900)"
        return f"Some {m[js][0]}"

    def cells(self, tags, col=None):
        return clist(self.cell(tags, t) for t in (col if col is not None else tags))

    def idlist(self, tags, rows):
        m = self.encoder(tags)
        return [m[json.dumps(tags[i])][1] for i in rows if tags[i][0] != "N"]


class FloatTable:
    def __init__(self):
        self.values = []      # token -> float
        self.entries = {}     # tuple(ids) -> token
        self.fresh = []

    def token_of(self, x):
        for k, v in enumerate(self.values):
            if close(x, v):
                return k
        self.values.append(x)
        return len(self.values) - 1

    def add(self, ids, x):
        self.entries[tuple(ids)] = self.token_of(x)

    def observed(self, x):
        for k, v in enumerate(self.values):
            if close(x, v):
                return k
        for k, v in enumerate(self.fresh):
            if close(x, v):
                return 3000 + k
        self.fresh.append(x)
        return 3000 + len(self.fresh) - 1

    def term(self):
        return clist(f"({clist(cnat(i) for i in ids)}, {cnat(tok)})" for ids, tok in self.entries.items())


def _spec_term(u, spec, snap, names=None):
    if spec[0] in ("n", "c"):
        j = spec[1]
        if names is not None and j < len(names):
            j = names.index(names[j])          # a column given by name (or as t[name]): a repeated name denotes its FIRST column
        return f"KCol {cnat(j)}"
    return f"KVec {u.cells(snap)}"


def _rcell(u, role, tags, t, mt, st):
    """observed result cell -> rcell term, by the role of its column"""
    if t[0] == "N":
        return "RNone"
    if role in ("key", "min", "max"):
        c = u.cell(tags, t)
        return "RNone" if c == "None" else f"RElem {c[5:]}"
    if role in ("sum", "count", "f1"):
        return f"RInt {cz(t[1])}" if t[0] == "i" else "RTok 3999"
    if role == "mean":
        return f"RTok {cnat(mt.observed(V.dec(t)))}" if t[0] in ("f", "i") else "RTok 3999"
    if role == "stdev":
        return f"RTok {cnat(st.observed(V.dec(t)))}" if t[0] in ("f", "i") else "RTok 3999"
    if role == "f0":
        return f"RRaw {clist(u.cell(tags, x) for x in t[1])}" if t[0] == "t" else "RTok 3999"
    return "RTok 3999"           # f2 returns None only


def emit_call(case, run, window):
    """Coq term for one observed aggregate / window call"""
    if domain(run) == "outside":
        return "CSkip"
    for c in run["res"]["args"]["sum"] or []:
        if c is not None and any(t[0] == "f" for t in c):
            return "CSkip"                       # sums are modelled over Z
    pre, res = run["pre"], run["res"]
    n = len(pre[0]) if pre else 0
    u = Universe()
    t_term = clist(u.cells(c) for c in pre)

    # resolved snapshots travel in res (same order as the specs)
    over_terms = [_spec_term(u, s, snap, case["names"]) for s, snap in zip(case["over"], res["over"])]
    arg_terms = {}
    roles = []           # (role, data tags) per expected result column after the keys
    for kind in KINDS:
        a = case["args"].get(kind)
        if a is None:
            arg_terms[kind] = "None"
            continue
        specs = [a["bare"]] if "bare" in a else a["list"]
        arg_terms[kind] = "(Some " + clist(_spec_term(u, s, snap, case["names"]) for s, snap in zip(specs, res["args"][kind])) + ")"
    for kind in ORDER:
        for snap in res["args"][kind] or []:
            roles.append((kind, snap))
    if case["apply"] is None:
        ap_term = "None"
    else:
        ap_term = "(Some " + clist(f"({_spec_term(u, spec, snap[1], case['names'])}, {cnat(3 * idx + fid)})"
                                   for idx, ((name, spec, fid), snap)
                                   in enumerate(zip(case["apply"], res["apply"]))) + ")"
        for name, snap, fid in res["apply"]:
            roles.append((f"f{fid}", snap))
    # float tables: every group of the by-hand partition, for every mean / stdev column
    mt, st = FloatTable(), FloatTable()
    if domain(run) == "ok":
        groups = group_by_hand(res["over"], n)
        for kind, tab in (("mean", mt), ("stdev", st)):
            for snap in res["args"][kind] or []:
                vals = [V.dec(t) for t in snap]
                for _, rows in groups:
                    x = textbook(kind, [vals[i] for i in rows])
                    if x is not None:
                        tab.add(u.idlist(snap, rows), x)
    args_term = (f"(mkArgs {arg_terms['sum']} {arg_terms['mean']} {arg_terms['min']} {arg_terms['max']} "
                 f"{arg_terms['stdev']} {arg_terms['count']} {ap_term})")
    # observation
    if "exc" in run:
        obs_term = "None"
    else:
        out = run["out"]
        nk = len(case["over"])
        if len(out) != nk + len(roles):
            obs_term = "(Some [[RTok 3998]])"
        else:
            cols = []
            for c in range(nk):
                snap = res["over"][c] or []
                cols.append(clist(_rcell(u, "key", snap, t, mt, st) for t in out[c]))
            for (role, snap), col in zip(roles, out[nk:]):
                cols.append(clist(_rcell(u, role, snap or [], t, mt, st) for t in col))
            obs_term = "(Some " + clist(cols) + ")"
    # the calls received: (function number, raw cells in the universe of the entry's column)
    log_terms = []
    for idx, fid, tyname, tags in run["log"]:
        snap = res["apply"][idx][1] if idx < len(res["apply"]) else []
        log_terms.append(f"({cnat(3 * idx + fid)}, {clist(u.cell(snap or [], x) for x in tags)})")
    return (f"CAgg {cbool(window)} {t_term} {clist(over_terms)} {args_term} {mt.term()} {st.term()} "
            f"{obs_term} {clist(log_terms)}")


def emit_reduce(case, obs):
    if "fatal" in obs:
        return "CBad"
    pre = obs["pre"]
    vals = [V.dec(t) for t in pre]
    kind = case["kind"]
    if kind in ("sum", "mean", "stdev") and not all(v is None or _is_num(v) for v in vals):
        return "CSkip"
    if kind == "sum" and any(isinstance(v, float) for v in vals):
        return "CSkip"
    if kind in ("min", "max") and not _orderable(vals):
        return "CSkip"
    u = Universe()
    mt, st = FloatTable(), FloatTable()
    if kind in ("mean", "stdev"):
        x = textbook(kind, vals)
        if x is not None:
            (mt if kind == "mean" else st).add(u.idlist(pre, range(len(pre))), x)
    if "rexc" in obs:
        o = "None"
    else:
        o = "(Some (" + _rcell(u, kind, pre, obs["red"], mt, st) + "))"
    return f"CReduce {COQ_KIND[kind]} {u.cells(pre)} {mt.term()} {st.term()} {o}"


# ------------------------------------------------------------------ shrinking helpers

def shrink_call(case):
    cols = case["cols"]
    n = len(cols[0]) if cols else 0

    def cut_spec(s, i):
        return s if s[0] != "v" else ["v", s[1][:i] + s[1][i + 1:]]

    def cut_arg(a, i):
        if a is None:
            return None
        if "bare" in a:
            return {"bare": cut_spec(a["bare"], i)}
        return {"list": [cut_spec(s, i) for s in a["list"]]}

    for i in range(n):
        yield dict(case, cols=[c[:i] + c[i + 1:] for c in cols],
                   over=[cut_spec(s, i) for s in case["over"]],
                   args={k: cut_arg(a, i) for k, a in case["args"].items()},
                   apply=None if case["apply"] is None else [[nm, cut_spec(s, i), f] for nm, s, f in case["apply"]])
    for kind in KINDS:
        if case["args"].get(kind) is not None:
            yield dict(case, args=dict(case["args"], **{kind: None}))
    if case["apply"]:
        yield dict(case, apply=None)
        if len(case["apply"]) > 1:
            yield dict(case, apply=case["apply"][:1])
            yield dict(case, apply=case["apply"][1:])
    if len(case["over"]) > 1:
        for k in range(len(case["over"])):
            yield dict(case, over=case["over"][:k] + case["over"][k + 1:], over_bare=False)
