"""C17 — every column is reachable by exactly one advertised, valid accessor name.

Streams
  reserved   the reserved set read from dir(Vector), dir(Table): the theorems' side condition
  sanitize   _sanitize_user_name on the adversarial alphabet and on "x<c>1" for BMP code points c
             (every 61st in quick, all of them in thorough: validates the lower()/classification
             that Python does for the model)
  dup4       every name list of width <= 4 over a 10-name pool (11 111 lists; sampled in quick)
  random     random lists of width 1..9 over the whole alphabet, duplication-heavy
  wide       width 11..14 with repeats planted in the hidden middle of the repr
  history    rename_column / rename_columns / rename through a live view / column replacement /
             >> append / dir / repr, interleaved with getattr / Row attribute / item assignment /
             attribute assignment probes
"""
import itertools
import re
import zlib

from harness import values as V
from harness.core import cbool, clist, cnat, copt, cstr, err_name

PID = "C17"
TRANSLATE = ["EqSanitize.v"]    # translator tie: _sanitize_user_name regenerated from /repo (coq/gen_proofs/EqSanitize.v)
FAILING = "(C17.failing RES DIRSTORES)"
SHARD = 300
RULE = ("name lists over an adversarial alphabet (reserved method names, names shaped like generated "
        "accessors a__2 / col3_ / cols, leading digits, only-symbols, empty, None, ints, unicode incl. KELVIN "
        "SIGN, case variants): all lists of width <= 4 over a 10-name pool, random lists up to width 9, "
        "width 11-14 with repeats in the hidden middle of the repr, and rename/replace/append/dir histories "
        "with probes. Distinct = canonical JSON; non-trivial = some accessor differs from the stored name "
        "(sanitised, suffixed, colN_) or, for histories, a rename precedes a probe.")
EXHAUSTIVE = {"quick": False, "thorough": True}
EXHAUSTIVE_NOTE = ("thorough: every name list of width <= 4 over the 10-name collision pool (11 111 tables) and "
                   "every BMP code point through the sanitizer; the other streams are sampled; unbounded width "
                   "and history length are the theorems' job.")
ASSUMED = [
    "a column name is seen by the naming code only through str(name).lower() (computed by Python and shipped "
    "to the model with non-ASCII characters replaced by a sentinel of class 'other') and through == on stored names",
    "attribute probes are lower-case printable ASCII (getattr(t, 'A') / unicode-digit suffixes are not modelled)",
    "tables in the history stream have one row (repr of a table with rows refreshes the column map through "
    "t.shape -> Row(t, 0); a zero-row table's repr does not)",
    "reserved_ok(reserved): no reserved name r with r+'_' reserved or of the form colN_ (checked on the actual set "
    "inside Coq by the case CReserved)",
]
DESIGN_REF = "DESIGN.md section 4, C17"

OKCH = set("abcdefghijklmnopqrstuvwxyz0123456789_")


def S(x):
    return ["s", x]


NONE = ["N"]
# the 10-name pool of the exhaustive stream: every pair collides in some way
POOL10 = [NONE, S("a"), S("A"), S("a__1"), S("a__2"), S("col1_"), S("copy"), S("copy_"), S("$"), S("cols")]
ALPHABET = POOL10 + [
    S(""), S("a b"), S("a  b"), S("a_b"), S(" a "), S("_a_"), S("__a__"), S("a__0"), S("a__1_"), S("a__"),
    S("a_1"), S("a__x"), S("a__01"), S("col3_"), S("col0_"), S("col2"), S("COLS"), S("col"), S("col_"),
    S("column_names"), S("color__2"), S("Copy"), S("copy__1"), S("sum"), S("name"), S("T"), S("t"), S("t_"),
    S("shape"), S("rename_column"), S("1"), S("3d"), S("2 b"), S("007"), S("$$"), S("!"), S("-"), S("_"),
    S("__"), S("..."), S("."), S("class"), S("from"), S("none"), S("None"), S("real"), S("b"), S("z"),
    ["i", 1], ["i", 0], ["i", 3], ["b", True], ["f", (1.5).hex()],
    S("K"), S("K"), S("k"), S("İ"), S("é"), S("ß"), S("名前"), S("a b"),
    S("²"), S("x²"), S("١٢"), S("a\nb"), S("a\tb"), S("K__1"), S("a\"b"), S("a\\b"),
]
PROBES = ["col0_", "col1_", "col2_", "col9_", "col_", "cols_", "col01_", "none__0", "none__1", "__1", "a__", "a__0",
          "a__1", "a__2", "a__01", "a_1", "a", "copy_", "copy__1", "copy___1", "a__1_", "a__1__3", "a__2_",
          "col1", "col1__1", "x", "k", "k__0", "c1", "t_", "a b", "a__1__", "cols__0", "cols___0"]
KEYS = [S("a"), S("A"), S("a__1"), S("a__2"), S("a_1"), S("col0_"), S("col1_"), S("COL1_"), S("copy_"), S("copy"),
        S("copy__1"), S("copy___1"), S("$"), S("cols"), S("cols_"), S("zz"), S("1"), S("c1"), S("k"), S("K")]


# ------------------------------------------------------------------ generators

def _table_case(names, rng):
    return {"op": "table", "names": names, "probes": rng.sample(PROBES, 8), "keys": rng.sample(KEYS, 5)}


def streams(rng, tier):
    quick = tier == "quick"
    out = [("reserved", [{"op": "reserved"}])]

    san = [{"op": "san", "name": t} for t in ALPHABET if t != NONE]
    step = 61 if quick else 1
    for cp in range(0, 0x10000, step):
        if 0xD800 <= cp <= 0xDFFF:
            continue
        san.append({"op": "san", "name": S("x" + chr(cp) + "1")})
    for cp in (0x212A, 0x130, 0x17F, 0xB2, 0x661, 0xFF21, 0xFF41, 0x1D7CF, 0x1F600, 0x10400):
        for pat in ("{}", "{}{}", "1{}", "{}_", "a{}__2", "{}__{}"):
            san.append({"op": "san", "name": S(pat.format(chr(cp), chr(cp)))})
    # the sanitiser only sees character CLASSES (lower, upper, digit, underscore, other): every string over
    # one representative per class up to length 4 (quick) / 6 (thorough), so that every order of the rules
    # (lower-case, collapse, strip, digit prefix, reserved suffix) is exercised on every small shape
    reps = "aZ1_# "
    for ln in range(1, 5 if quick else 7):
        for tup in itertools.product(reps, repeat=ln):
            san.append({"op": "san", "name": S("".join(tup))})
    if quick:
        for _ in range(1500):
            san.append({"op": "san", "name": S("".join(rng.choice(reps) for _ in range(rng.randint(5, 8))))})
    out.append(("sanitize", san))

    # EVERY public attribute of Vector / Table (read with dir(), not from the library's own reserved set) as a column name,
    # plain and in spellings that sanitise to it: the advertised accessor must not be shadowed by the attribute
    pub = [p for p in _meta_cached()["public"] if p.isidentifier()]
    out.append(("public", [{"op": "san", "name": S(sp)} for p in pub for sp in (p, p.upper(), f" {p} ", p + "!")]
                + [_table_case([S(p), S("a"), S(p.capitalize())], rng) for p in pub]))

    dup = []
    for n in range(0, 5):
        for tup in itertools.product(POOL10, repeat=n):
            dup.append(list(tup))
    if quick:
        dup = [d for d in dup if len(d) <= 2] + rng.sample([d for d in dup if len(d) > 2], 900)
    out.append(("dup4", [_table_case(d, rng) for d in dup]))

    rnd = []
    for _ in range(500 if quick else 4000):
        n = rng.randint(1, 9)
        pool = rng.sample(ALPHABET, rng.randint(1, 4))
        if rng.random() < 0.5:
            pool.append(rng.choice(POOL10))
        rnd.append(_table_case([rng.choice(pool) for _ in range(n)], rng))
    out.append(("random", rnd))

    wide = []
    for _ in range(120 if quick else 1200):
        n = rng.randint(11, 14)
        pool = rng.sample(ALPHABET, rng.randint(2, 5)) + [rng.choice(POOL10)]
        names = [rng.choice(pool) if rng.random() < 0.5 else S("c%d" % i) for i in range(n)]
        # plant a repeat whose first occurrence is hidden (positions 5 .. n-6) and whose second is displayed
        rep = rng.choice(pool)
        names[rng.randint(5, n - 6)] = rep
        names[rng.choice(list(range(n - 5, n)) + list(range(0, 5)))] = rep
        wide.append(_table_case(names, rng))
    out.append(("wide", wide))

    # planted histories: a rename through a live view IMMEDIATELY followed by a use of the new accessor in every way
    # (attribute read, row attribute, item assignment, plain and position-validated replacement), with and without
    # dir() / repr() in between - the map must be rebuilt on first use, whichever use comes first
    planted = []
    uses = [["getattr"], ["row"], ["setitem"], ["replace"]]
    for names0 in ([S("first name"), S("age")], [S("a"), S("a"), S("b")], [S("x"), NONE, S("y")]):
        w = len(names0)
        for j in range(w):
            for new in (S("Given Name"), S("a"), S("copy")):
                for first in uses + [["replace_idx"]]:
                    for between in ([], [["dir"]], [["repr"]]):
                        ops = [["view", j, new]] + between
                        ops.append(["replace", ["accidx", j]] if first[0] == "replace_idx" else [first[0], ["acc", j]])
                        for u in uses:
                            ops.append([u[0], ["acc", j]])
                        ops.append(["getattr", ["acc", (j + 1) % w]])
                        planted.append({"op": "hist", "names": list(names0), "ops": ops})
    out.append(("planted", planted if not quick else rng.sample(planted, min(len(planted), 200))))
    out.append(("history", [_history(rng) for _ in range(700 if quick else 6000)]))
    return out


def _history(rng):
    pool = rng.sample(ALPHABET, rng.randint(2, 5)) + [S("a"), S("z")]
    n = rng.randint(1, 5)
    names = [rng.choice(pool) for _ in range(n)]
    cur = list(names)
    ops = []
    for _ in range(rng.randint(2, 9)):
        k = rng.random()
        w = len(cur)
        r_ = rng.random()
        probe = (["acc", rng.randrange(w)] if r_ < 0.65 else ["accidx", rng.randrange(w)] if r_ < 0.8
                 else ["lit", rng.choice(PROBES + ["z", "a", "b"])])
        if k < 0.10:
            old = rng.choice(cur) if rng.random() < 0.85 else rng.choice(pool)
            new = rng.choice(pool)
            ops.append(["rename", old, new])
            dec = [V.dec(x) for x in cur]
            if V.dec(old) in dec:
                cur[dec.index(V.dec(old))] = new
        elif k < 0.16:
            m = rng.randint(1, 3)
            olds = [rng.choice(cur) if rng.random() < 0.9 else rng.choice(pool) for _ in range(m)]
            news = [rng.choice(pool) for _ in range(m if rng.random() < 0.9 else m + 1)]
            ops.append(["renames", olds, news])
            if len(olds) == len(news):
                sim = list(cur)
                ok = True
                for o, nw in zip(olds, news):
                    dec = [V.dec(x) for x in sim]
                    if V.dec(o) in dec:
                        sim[dec.index(V.dec(o))] = nw
                    else:
                        ok = False
                        break
                if ok:
                    cur = sim
        elif k < 0.38:
            j = rng.randrange(w)
            new = rng.choice(pool)
            ops.append(["view", j, new])
            cur[j] = new
        elif k < 0.46:
            ops.append(["replace", probe])
        elif k < 0.54 and w < 8:
            new = rng.choice(pool)
            ops.append(["append", new])
            cur.append(new)
        elif k < 0.60:
            ops.append(["dir"])
        elif k < 0.64:
            ops.append(["repr"])
        elif k < 0.76:
            ops.append(["getattr", probe])
        elif k < 0.88:
            ops.append(["row", probe])
        else:
            ops.append(["setitem", probe])
    case = {"op": "hist", "names": names, "ops": ops}
    if rng.random() < 0.3:
        case["strict_first"] = True                          # see the "dir" step of the observer
    if rng.random() < 0.2:
        # the same history on a table WITHOUT rows (a filter that matched nothing): shape, repr and row views take
        # other paths there, so a map refresh that happens "by the way" on tables with rows does not happen
        case["empty"] = True
        case["ops"] = [o for o in ops if o[0] in ("view", "rename", "renames", "getattr", "repr", "dir")] or [["repr"]]
        if not any(o[0] == "getattr" for o in case["ops"]):
            case["ops"].append(["getattr", ["acc", 0]])
    return case


# ------------------------------------------------------------------ implementation side

_DOT_TOK = re.compile(r"^\.\S+$")


def _parse_dot(text):
    """The dot row of a table repr: the header line all of whose cells are '.<name>' or '...'."""
    for ln in text.split("\n")[:2]:
        toks = ln.split()
        if toks and all(t == "..." or _DOT_TOK.match(t) for t in toks) and any(t != "..." for t in toks):
            return toks
    return None


def _usable(a, base):
    return isinstance(a, str) and a == a.lower() and all(32 <= ord(c) < 127 for c in a) and a not in base and a != ""


class _Fresh:
    def __init__(self):
        self.n = 1000

    def __call__(self):
        self.n += 1
        return self.n


def _pos_by_identity(t, r):
    for j, c in enumerate(t._underlying):
        if c is r:
            return ["idx", j]
    return ["other"]


def _pos_by_value(t, v):
    hits = [j for j, c in enumerate(t._underlying) if len(c._underlying) and c._underlying[0] == v and type(v) is int]
    return ["idx", hits[0]] if len(hits) == 1 else ["other"]


def _getattr(t, a):
    try:
        r = getattr(t, a)
    except AttributeError:
        return ["fail"]
    return _pos_by_identity(t, r)


def _rowattr(t, a):
    from serif.table import Row
    if hasattr(int, a) or hasattr(Row, a):
        return ["skip"]
    try:
        v = getattr(t[0], a)
    except AttributeError:
        return ["fail"]
    return _pos_by_value(t, v)


def _setitem(t, a, fresh):
    from serif.errors import SerifKeyError
    v = fresh()
    try:
        t[0, a] = v
    except (SerifKeyError, KeyError):
        return ["fail"]
    return _pos_by_value(t, v)


def _setattr(t, a, fresh):
    v = fresh()
    try:
        setattr(t, a, [v])
    except AttributeError:
        return ["fail"]
    return _pos_by_value(t, v)


def _make(names, fresh):
    from serif import Table, Vector
    return Table([Vector([fresh()], name=nm) for nm in names])


def _headers_of(t, n, keys):
    """display.py's own list of dot names for ALL columns (a private helper: if its signature has changed,
    fall back to the accessor map's keys - the public dot row of repr() is compared separately)"""
    try:
        from serif.display import _compute_headers
        return list(_compute_headers(t.cols(), list(range(n)))[1])
    except Exception:                                        # noqa: BLE001
        return list(keys)


def _fresh_accessors(names):
    """What a brand-new table with these stored names advertises, per column."""
    t = _make(names, _Fresh())
    keys = list(t._build_column_map().keys())
    if len(keys) == len(names):
        return keys
    return _headers_of(t, len(names), keys)


def _same_names(a, b):
    return len(a) == len(b) and all(x is y or (type(x) is type(y) and x == y) for x, y in zip(a, b))


def _obs_table(case):
    fresh = _Fresh()
    names = [V.dec(x) for x in case["names"]]
    t = _make(names, fresh)
    n = len(names)
    base = set(object.__dir__(t))
    m = t._build_column_map()
    out = {"items": [[k, v] for k, v in m.items()]}
    d = dir(t)
    out["dir"] = sorted(x for x in d if x not in base)
    out["dir_missing"] = sorted(k for k in m if k not in d)
    out["hdr"] = _headers_of(t, n, m.keys())
    rep = repr(t)
    out["dot"] = _parse_dot(rep)
    attrs = list(m.keys()) + out["hdr"] + [x[1:] for x in (out["dot"] or []) if x != "..."] + case["probes"]
    attrs = [a for a in dict.fromkeys(attrs)]
    out["unusable"] = [a for a in attrs if not _usable(a, base)]
    attrs = [a for a in attrs if _usable(a, base)]
    out["ga"] = [[a, _getattr(t, a)] for a in attrs] if n else []
    out["ra"] = [[a, _rowattr(t, a)] for a in attrs] if n else []
    si = []
    for a in attrs if n else []:
        t2 = _make(names, fresh)
        si.append([a, _setitem(t2, a, fresh)])
    out["si"] = si
    gi = []
    keys = [k for k in dict.fromkeys([tuple(x) for x in case["names"] if x[0] == "s"] +
                                     [tuple(x) for x in case["keys"]])]
    from serif.errors import SerifKeyError
    for k in keys:
        key = k[1]
        try:
            r = t[key]
            res = _pos_by_identity(t, r)
        except (SerifKeyError, KeyError):
            res = ["fail"]
        gi.append([list(k), res])
    out["gi"] = gi if n else []
    out["names_kept"] = _same_names(t.column_names(), names)
    out["identifier"] = {a: a.isidentifier() for a in list(m.keys()) + out["hdr"]}
    import keyword
    out["keywords"] = sorted(a for a in m if keyword.iskeyword(a))
    return out


def _obs_hist(case):
    from serif import Vector
    fresh = _Fresh()
    names = [V.dec(x) for x in case["names"]]
    t = _make(names, fresh)
    if case.get("empty"):
        t = t[0:0]
    steps = []
    for k_step, op in enumerate(case["ops"]):
        kind = op[0]
        before = t.column_names()
        base = set(object.__dir__(t))
        st = {}
        if kind in ("replace", "getattr", "row", "setitem"):
            pr = op[1]
            acc = _fresh_accessors(before)
            if pr[0] == "acc":
                if pr[1] >= len(acc):
                    steps.append({"skip": "no such column"})
                    continue
                lit, st["want"] = acc[pr[1]], pr[1]
            elif pr[0] == "accidx":
                # the position-validated form <sanitised name>__<position> of column j (t.given_name__0 = [...])
                if pr[1] >= len(acc):
                    steps.append({"skip": "no such column"})
                    continue
                lit = re.sub(r"__\d+$", "", acc[pr[1]]) + f"__{pr[1]}"
                st["want"] = None                # the model decides; the oracle only judges advertised accessors
            else:
                lit = pr[1]
                st["want"] = acc.index(lit) if acc.count(lit) == 1 else None
            if not _usable(lit, base):
                steps.append({"skip": "probe is a real attribute or not lower-case ASCII", "lit": lit})
                continue
            st["lit"] = lit
            if kind == "getattr":
                st["res"] = _getattr(t, lit)
            elif kind == "row":
                st["res"] = _rowattr(t, lit)
                if st["res"] == ["skip"]:
                    steps.append({"skip": "shadowed by an int/Row attribute", "lit": lit})
                    continue
            elif kind == "setitem":
                st["res"] = _setitem(t, lit, fresh)
            else:
                st["res"] = _setattr(t, lit, fresh)
        elif kind == "rename":
            from serif.errors import SerifKeyError
            try:
                t.rename_column(V.dec(op[1]), V.dec(op[2]))
                st["res"] = ["ok"]
            except (SerifKeyError, KeyError):
                st["res"] = ["fail"]
        elif kind == "renames":
            from serif.errors import SerifKeyError, SerifValueError
            try:
                t.rename_columns([V.dec(x) for x in op[1]], [V.dec(x) for x in op[2]])
                st["res"] = ["ok"]
            except (SerifKeyError, KeyError, SerifValueError):
                st["res"] = ["fail"]
        elif kind == "view":
            if op[1] >= len(t.cols()):
                steps.append({"skip": "no such column"})
                continue
            t.cols()[op[1]].name = V.dec(op[2])
            st["res"] = ["ok"]
        elif kind == "append":
            if k_step % 2 and len(t.cols()) and V.dec(op[1]) is not None and isinstance(V.dec(op[1]), str):
                # the new column comes as {label: <a LIVE column of the table>}: the label names the NEW column, the source
                # table keeps every stored name (column additions never alter the stored names)
                src = t
                t = src >> {V.dec(op[1]): src.cols()[0]}
                st["names_kept"] = _same_names(src.column_names(), before)
                # the dict form copies the cells of the live column: give the new column the value the model expects
                t.cols()[-1][0] = fresh()
            else:
                t = t >> Vector([fresh()], name=V.dec(op[1]))
            st["res"] = ["ok"]
        elif kind == "dir":
            if case.get("strict_first"):
                # the first look happens while warnings are escalated to errors (python -W error, pytest filterwarnings=error):
                # a "duplicate column name" warning then aborts that access - the next one must still see the present names
                import warnings
                with warnings.catch_warnings():
                    warnings.simplefilter("error")
                    for probe in (lambda: dir(t), lambda: t.column_names() and getattr(t, "no_such_attr_", None)):
                        try:
                            probe()
                        except Exception:                    # noqa: BLE001
                            pass
            d = dir(t)
            st["res"] = ["keys", sorted(x for x in d if x not in base)]
            st["fresh"] = _fresh_accessors(before)
        elif kind == "repr":
            st["res"] = ["row", _parse_dot(repr(t))]
            st["fresh"] = _fresh_accessors(before)
        after = t.column_names()
        st["after"] = [V.enc(x) for x in after]
        if kind in ("replace", "getattr", "row", "setitem", "dir", "repr"):
            st["names_kept"] = _same_names(after, before)
        steps.append(st)
    return {"steps": steps}


def _meta():
    from serif import Table, Vector
    from serif.naming import _get_reserved_names
    from serif.table import Row
    res = sorted(_get_reserved_names())
    pub = sorted({n for c in (Vector, Table) for n in dir(c) if not n.startswith("_")})
    # which of the two modelled __dir__ variants is this tree? (validated by every history case with dir())
    t = Table([Vector([1], name="a")])
    t.cols()[0].name = "z"
    dir(t)
    return {"reserved": res, "public": pub, "row_public": sorted(n for n in dir(Row) if not n.startswith("_")),
            "dir_stores": "z" in t._column_map, "crc": zlib.crc32(" ".join(res).encode())}


def observe(case):
    try:
        op = case["op"]
        if op in ("reserved", "meta"):
            return _meta()
        if op == "san":
            from serif.naming import _sanitize_user_name
            return {"out": _sanitize_user_name(V.dec(case["name"]))}
        if op == "table":
            return _obs_table(case)
        if op == "hist":
            return _obs_hist(case)
    except Exception as e:      # noqa: BLE001 - the observer must never raise
        return {"exc": err_name(e), "msg": f"{type(e).__name__}: {e}"[:200]}
    return {"exc": "OtherError", "msg": "unknown op"}


# ------------------------------------------------------------------ Coq emitter

_META = None


def _meta_cached():
    global _META
    if _META is None:
        from harness import core
        _META = core.run_impl("c17", [{"op": "meta"}])[0]
        if "exc" in _META:
            raise RuntimeError("cannot read the reserved set: " + _META["msg"])
    return _META


def __getattr__(name):           # PRELUDE carries the reserved set read from the implementation
    if name == "PRELUDE":
        res = _meta_cached()["reserved"]
        return ("From Coq Require Import List String.\nImport ListNotations.\nOpen Scope string_scope.\n"
                "From Serif Require Import Base.PyVal Model.Naming Corr.C17.\n"
                "Definition RES : list str := ss " + clist(cstr(_low(r)) for r in res) + ".\n"
                "Definition DIRSTORES : bool := true.")   # the repaired code (/repo daec8a7) keeps the map dir() builds; no longer probed
    raise AttributeError(name)


def _low(name):
    """str(name).lower() with every character outside printable ASCII replaced by the sentinel '?'."""
    txt = name if isinstance(name, str) else str(name)
    out = []
    for ch in txt.lower():
        out.append(ch if 32 <= ord(ch) < 127 else "?")
    return "".join(out)


def _cs(x):
    return f'(s {cstr(x)})'


class _Ids:
    """Equality classes of stored names under Python's ==."""

    def __init__(self):
        self.reps = []

    def of(self, tag):
        v = V.dec(tag)
        for i, r in enumerate(self.reps):
            try:
                if r == v:
                    return i
            except Exception:      # noqa: BLE001
                pass
        self.reps.append(v)
        return len(self.reps) - 1


def _cname(ids, tag):
    i = ids.of(tag)
    if tag[0] == "N":
        return f"(un {i})"
    return f"(nm {i} {cstr(_low(V.dec(tag)))})"


def _ores(r):
    k = r[0]
    if k == "ok":
        return "ROk"
    if k == "fail":
        return "RFail"
    if k == "idx":
        return f"(RIdx {cnat(r[1])})"
    if k == "keys":
        return "(RKeys " + clist(_cs(x) for x in r[1]) + ")"
    if k == "row":
        return "(RRow " + ("None" if r[1] is None else "(Some " + clist(_cs(x) for x in r[1]) + ")") + ")"
    return "ROther"


def _probe_list(pairs):
    return clist(f"({_cs(a)}, {_ores(r)})" for a, r in pairs if r != ["skip"])


def _printable(x):
    return isinstance(x, str) and all(32 <= ord(c) < 127 for c in x)


def emit(case, obs):
    op = case["op"]
    if "exc" in obs:
        return "CBad"
    if op in ("reserved", "meta"):
        return "CReserved"
    if op == "san":
        o = obs["out"]
        if o is not None and not _printable(o):
            return "CBad"
        return f"CSan {_cs(_low(V.dec(case['name'])))} {copt(None if o is None else _cs(o))}"
    if op == "table":
        strs = [k for k, _ in obs["items"]] + obs["dir"] + obs["hdr"] + (obs["dot"] or [])
        if not all(_printable(x) for x in strs):
            return "CBad"
        ids = _Ids()
        names = clist(_cname(ids, t) for t in case["names"])
        items = clist(f"({_cs(k)}, {cnat(v)})" for k, v in obs["items"])
        dot = "None" if obs["dot"] is None else "(Some " + clist(_cs(x) for x in obs["dot"]) + ")"
        gi = clist(f"({ids.of(k)}, {_cs(_low(k[1]))}, {_ores(r)})" for k, r in obs["gi"])
        return (f"CTable {names} {items} {clist(_cs(x) for x in obs['dir'])} {clist(_cs(x) for x in obs['hdr'])} "
                f"{dot} {_probe_list(obs['ga'])} {_probe_list(obs['ra'])} {_probe_list(obs['si'])} {gi}")
    if op == "hist":
        ids = _Ids()
        names = clist(_cname(ids, t) for t in case["names"])
        ops = []
        for o, st in zip(case["ops"], obs["steps"]):
            if "skip" in st:
                continue
            k = o[0]
            if k == "rename":
                term = f"ORename {ids.of(o[1])} {_cname(ids, o[2])}"
            elif k == "renames":
                term = f"ORenames {clist(str(ids.of(x)) for x in o[1])} {clist(_cname(ids, x) for x in o[2])}"
            elif k == "view":
                term = f"OView {cnat(o[1])} {_cname(ids, o[2])}"
            elif k == "append":
                term = f"OAppend {_cname(ids, o[1])}"
            elif k == "dir":
                term = "ODir"
            elif k == "repr":
                term = "ORepr"
            else:
                con = {"replace": "OReplace", "getattr": "OGetattr", "row": "ORow", "setitem": "OSetitem"}[k]
                term = f"{con} {_cs(st['lit'])}"
            res = st["res"]
            if res[0] == "keys" and not all(_printable(x) for x in res[1]):
                return "CBad"
            if res[0] == "row" and res[1] is not None and not all(_printable(x) for x in res[1]):
                return "CBad"
            after = clist(str(ids.of(t)) for t in st["after"])
            ops.append(f"({term}, {_ores(res)}, {after})")
        return f"CHist {names} {clist(ops)}"
    return "CBad"


# ------------------------------------------------------------------ independent oracle

_IDENT = re.compile(r"^[a-z_][a-z0-9_]*$")


def _rules_body(name):
    """The documented rules, restated: lower-case; runs of other characters become one underscore;
    outer underscores stripped; leading digit prefixed with c.  None when nothing is left."""
    txt = name if isinstance(name, str) else str(name)
    out = []
    run = False
    for ch in txt.lower():
        if ch in OKCH:
            out.append(ch)
            run = False
        elif not run:
            out.append("_")
            run = True
    body = "".join(out).strip("_")
    if not body:
        return None
    return ("c" + body) if body[0] in "0123456789" else body


def _check_accessor(acc, public):
    if not isinstance(acc, str) or not acc.isidentifier():
        return f"accessor {acc!r} is not a valid identifier"
    if acc in public:
        return f"accessor {acc!r} shadows the public attribute of that name"
    return None


def _follows_rules(acc, name, idx):
    """Is `acc` what the documented rules allow for a column stored as `name` at position idx?"""
    body = None if name is None else _rules_body(name)
    if body is None:
        return acc == f"col{idx}_"
    return acc == body or (acc.startswith(body) and re.fullmatch(r"_{0,3}\d*", acc[len(body):]) is not None)


def _first_index(names, key):
    for j, nm in enumerate(names):
        if nm == key:
            return j
    return None


def oracle(case, obs):
    op = case["op"]
    if "exc" in obs:
        return f"{op}-raises: {obs['msg']}"
    if op in ("reserved", "meta"):
        return None
    meta = _meta_cached()
    public = set(meta["public"])
    if op == "san":
        name, out = V.dec(case["name"]), obs["out"]
        body = _rules_body(name)
        if (out is None) != (body is None):
            return f"sanitize-rules: {name!r} -> {out!r}, the documented rules give {body!r}"
        if out is None:
            return None
        bad = _check_accessor(out, public)
        if bad:
            return f"sanitize-invalid: {name!r} -> {bad}"
        if not _follows_rules(out, name, 0):
            return f"sanitize-rules: {name!r} -> {out!r}, the documented rules give {body!r} (+ suffix)"
        return None
    if op == "table":
        names = [V.dec(x) for x in case["names"]]
        n = len(names)
        keys = [k for k, _ in obs["items"]]
        hdr = obs["hdr"]
        if not obs["names_kept"]:
            return f"names-altered: stored names {names!r} changed under lookups"
        for a in keys + hdr + obs["dir"]:
            bad = _check_accessor(a, public)
            if bad:
                return f"accessor-invalid: names {names!r}: {bad}"
        if len(set(keys)) != n or len(keys) != n:
            return f"accessor-duplicate: names {names!r} advertise {keys!r} for {n} columns"
        if len(set(hdr)) != n:
            return f"accessor-duplicate: names {names!r}: header walk gives {hdr!r}"
        if set(obs["dir"]) != set(keys) or obs["dir_missing"]:
            return f"dir-differs: names {names!r}: dir() offers {obs['dir']!r}, the column map {keys!r}"
        ga, ra, si = dict(obs["ga"]), dict(obs["ra"]), dict(obs["si"])
        for i, a in enumerate(keys):
            if not _follows_rules(a, names[i], i):
                return (f"accessor-rules: column {i} stored as {names[i]!r} is advertised as {a!r}; "
                        f"documented rules give {(_rules_body(names[i]) if names[i] is not None else None)!r}")
            if a in obs["unusable"]:
                continue
            for what, tab in (("getattr", ga), ("row-attribute", ra), ("item-assignment", si)):
                r = tab.get(a)
                if r is None or r == ["skip"]:
                    continue
                if r != ["idx", i]:
                    return (f"accessor-misresolves: names {names!r}: advertised accessor {a!r} of column {i} "
                            f"gives {r} by {what}")
        if hdr != keys:
            return f"repr-differs: names {names!r}: header walk {hdr!r} vs column map {keys!r}"
        if obs["dot"] is not None:
            shown = list(range(n)) if n <= 10 else list(range(5)) + list(range(n - 5, n))
            toks = [x for x in obs["dot"]]
            if n > 10:
                if len(toks) != 11 or toks[5] != "...":
                    return f"repr-differs: names {names!r}: dot row {toks!r}"
                toks = toks[:5] + toks[6:]
            if len(toks) != len(shown):
                return f"repr-differs: names {names!r}: dot row {obs['dot']!r} for {len(shown)} displayed columns"
            for p, tk in zip(shown, toks):
                a = tk[1:]
                bad = _check_accessor(a, public)
                if bad:
                    return f"repr-invalid: names {names!r}: dot row: {bad}"
                if ga.get(a) != ["idx", p]:
                    return (f"repr-misleads: names {names!r}: the dot row shows {tk!r} over column {p}, "
                            f"attribute access gives {ga.get(a)}")
        for k, r in obs["gi"]:
            key = V.dec(k)
            want = _first_index(names, key)
            if want is not None and r != ["idx", want]:
                return f"getitem-first: names {names!r}: t[{key!r}] gives {r}, first occurrence is column {want}"
        return None
    if op == "hist":
        done = []
        for k, (o, st) in enumerate(zip(case["ops"], obs["steps"])):
            done.append(o)
            if "skip" in st:
                continue
            if st.get("names_kept") is False:
                return f"names-altered: op#{k} {o} changed the stored names"
            if o[0] in ("getattr", "row", "setitem", "replace") and st.get("want") is not None \
                    and o[1][0] == "acc":
                if st["res"] != ["idx", st["want"]]:
                    return (f"history-stale: op#{k} after {done[:-1]} on names {case['names']}: advertised accessor "
                            f"{st['lit']!r} of column {st['want']} gives {st['res']} by {o[0]}")
            if o[0] == "dir" and set(st["res"][1]) != set(st["fresh"]):
                return (f"history-dir: op#{k} after {done[:-1]}: dir() offers {st['res'][1]!r}, a fresh table with "
                        f"these names {st['fresh']!r}")
            if o[0] == "repr" and st["res"][1] is not None:
                n = len(st["fresh"])
                shown = list(range(n)) if n <= 10 else list(range(5)) + list(range(n - 5, n))
                toks = [x for x in st["res"][1] if x != "..."] if n > 10 else st["res"][1]
                if toks != ["." + st["fresh"][p] for p in shown]:
                    return (f"history-repr: op#{k} after {done[:-1]}: dot row {st['res'][1]!r}, a fresh table with "
                            f"these names advertises {st['fresh']!r}")
        return None
    return None


def known(case, obs, why):
    """NEW-C17-1: dir(t) marks every column tame without storing the rebuilt map, so a rename made through a
    live view before the dir() call is never picked up."""
    if case.get("op") != "hist" or not why.startswith("history-stale: op#"):
        return None
    k = int(why[len("history-stale: op#"):].split(" ")[0])
    ops, steps = case["ops"][:k], obs["steps"][:k]

    def rebuilds(o, st):          # does this step leave a freshly stored map behind?
        if "skip" in st:
            return False
        if o[0] in ("rename", "renames"):
            return st["res"] == ["ok"]
        if o[0] == "replace":     # the indexed form (name__N) consults nothing and rebuilds only on success
            return st["res"][0] == "idx" or re.fullmatch(r".*__\d+", st["lit"]) is None
        return o[0] in ("append", "getattr", "row", "setitem", "repr")   # repr asks for t.shape -> Row(t, 0)

    for d, o in enumerate(ops):
        if o[0] != "dir" or "skip" in steps[d]:
            continue
        views = [i for i, p in enumerate(ops[:d]) if p[0] == "view" and "skip" not in steps[i]]
        if views and not any(rebuilds(p, s) for p, s in zip(ops[views[-1] + 1:d], steps[views[-1] + 1:d])):
            return "NEW-C17-1"
    return None


# ------------------------------------------------------------------ evidence helpers

def nontrivial(case, obs):
    if "exc" in obs:
        return False
    op = case["op"]
    if op == "san":
        return obs["out"] != V.dec(case["name"])
    if op == "table":
        names = [V.dec(x) for x in case["names"]]
        return any(k != nm for (k, _), nm in zip(obs["items"], names))
    if op == "hist":
        seen_rename = False
        for o in case["ops"]:
            if o[0] in ("rename", "renames", "view", "append"):
                seen_rename = True
            elif o[0] in ("getattr", "row", "setitem", "replace", "dir", "repr") and seen_rename:
                return True
        return False
    return True


def describe(case, obs, stream):
    if "exc" in obs:
        return [f"{stream}:exc"]
    op = case["op"]
    if op == "table":
        out = [f"{stream}:width{min(len(case['names']), 11)}"]
        if obs.get("keywords"):
            out.append("observation:accessor-is-python-keyword")
        meta = _meta_cached()
        if any(k in meta["row_public"] and k not in meta["public"] for k, _ in obs["items"]):
            out.append("observation:accessor-shadowed-on-Row(set_index)")
        if obs["dot"] is not None:
            out.append(f"{stream}:dot-row-shown")
        return out
    if op == "hist":
        return [f"{stream}:{o[0]}" for o in case["ops"]]
    return [f"{stream}:{op}"]


def shrink(case):
    op = case["op"]
    if op == "table":
        l = case["names"]
        for i in range(len(l)):
            yield dict(case, names=l[:i] + l[i + 1:])
        if case["probes"]:
            yield dict(case, probes=[], keys=[])
    elif op == "hist":
        ops = case["ops"]
        for i in range(len(ops)):
            yield dict(case, ops=ops[:i] + ops[i + 1:])


def neighbours(case, rng):
    out = []
    if case["op"] == "table":
        l = case["names"]
        for _ in range(15):
            p = l[:]
            rng.shuffle(p)
            out.append(dict(case, names=p))
            out.append(dict(case, names=p + [rng.choice(l)] if l else p))
        if l:
            out.append({"op": "hist", "names": l[:5], "ops": [["view", 0, S("z")], ["row", ["acc", 0]],
                                                            ["setitem", ["acc", 0]], ["getattr", ["acc", 0]]]})
    elif case["op"] == "hist":
        for _ in range(10):
            out.append(_history(rng))
    return out
