"""C07 — masks and indexing follow Python sequence semantics and compose.

Streams
  box      exhaustive: n <= 7, start/stop in {None,-9..9}, step in {None,-4..4}\\{0}: CPython's own
           list(range(n))[s] (validates Spec/PySlice.v), typeutils.slice_length, v[s] and t[s]
  mask     exhaustive: every bool mask of length m <= 6 on every n <= 5 (right and wrong length),
           as a list and as a Vector, on a vector and on a table
  index    v[i] / t[i] for every i in -8..8, n <= 5; index lists and index vectors (all of length <= 2
           over -6..6 for n <= 4, random longer ones); odd keys (mixed lists, empty list, tuples, str,
           float, None, nullable / untyped vectors, step 0)
  cols     every tuple of length <= 3 over three present names and a missing one (so: repeated and
           missing names), single names, on tables of 0, 1 and 3 rows, one with a duplicated column name
  commute  t[rows][names] against t[names][rows], and the 2-D spellings t[rows, names], t[names, rows]
  cmp      == != < <= > >= & | ^ between a vector and a vector / list / tuple / scalar, with None
           elements, mixed classes and wrong lengths; scalar results are computed by Python itself
"""
import itertools
import json

from harness import values as V
from harness.core import cbool, clist, cnat, copt, cz, err_name

PID = "C07"
TRANSLATE = ["EqSlice.v"]     # translator tie: coq/gen_proofs/EqSlice.v is re-proved against definitions regenerated from /repo
PRELUDE = ("From Coq Require Import List ZArith.\nImport ListNotations.\n"
           "From Serif Require Import Base.PyVal Base.StErr Spec.PySlice Model.Index Corr.C07.")
FAILING = "C07.failing"
SHARD = 2250
RULE = ("box: every (n, start, stop, step) of the box; mask: every mask of length <= 6 on every n <= 5; index / "
        "cols / commute / cmp: enumerated small keys plus seeded random ones. Distinct = canonical JSON of the "
        "case; non-trivial = the slice is empty, has an out-of-range bound or a step other than None/1; the mask "
        "is neither all-true nor all-false or has the wrong length; an index list has a negative, repeated or "
        "out-of-range entry; a name tuple has a repeated or missing name; a comparison has a None element, "
        "mixed classes or a wrong length.")
EXHAUSTIVE = {"quick": True, "thorough": True}
EXHAUSTIVE_NOTE = ("exhaustive over the slice box (28 800 slices x vector, table, CPython, slice_length) and over "
                   "all masks of length <= 6 on n <= 5; unbounded n / bounds are the theorems' job "
                   "(slice_length_correct, getitem_spec are proved for all integers). index/cols/commute/cmp "
                   "streams are enumerated on small sizes and sampled beyond.")
ASSUMED = [
    "tuple[i], tuple[slice], slice.indices and range are CPython built-ins: they are specified in Spec/PySlice.v "
    "and that specification is validated against CPython on the whole slice box in every run",
    "the second, sanitised-name pass of Table.__getitem__ (spellings like 'a_b', 'col2_', 'name__3') is a "
    "parameter of the model (theorems hold for every such pass that looks only at the column names); case files "
    "use exact names and names that match no column under any spelling",
    "elements are opaque to indexing (a Vector whose elements are all Vectors becomes a Table: excluded)",
    "scalar comparison results are Python's (shipped per pair of values); the model owns None handling, "
    "pairing, length checks and the result dtype",
    "tables have at least one column (zero-column tables belong to C02)",
]
HASH_INDEPENDENT_STREAMS = ("box", "mask", "index", "cols", "commute", "cmp")

BOUNDS = [None] + list(range(-9, 10))
STEPS = [None] + [s for s in range(-4, 5) if s != 0]
NAMES = ["a", "b", "c", "d", "zz", "q", "x"]          # name ids = position here


def _vals(n, kind="i"):
    if kind == "i":
        return [["i", 10 * k + 1] for k in range(n)]
    if kind == "s":
        return [["s", f"s{k}"] for k in range(n)]
    if kind == "f":
        return [["f", (k + 0.5).hex()] if k != 1 else ["N"] for k in range(n)]
    raise ValueError(kind)


def _table(n, dup=False):
    cols = [{"name": "a", "vals": _vals(n, "i")}, {"name": "b", "vals": _vals(n, "s")},
            {"name": "c", "vals": _vals(n, "f")}]
    if dup:
        cols.append({"name": "a", "vals": [["i", 7 * k] for k in range(n)]})
    return cols


def streams(rng, tier):
    out = []
    # ---- box
    box = [{"op": "box", "n": n, "a": a, "b": b, "s": s}
           for n in range(0, 8) for a in BOUNDS for b in BOUNDS for s in STEPS]
    out.append(("box", box))
    # ---- masks
    mask = []
    for n in range(0, 6):
        for m in range(0, 7):
            for bits in itertools.product([False, True], repeat=m):
                for form in ("list", "maskv"):
                    key = ["list", [["b", x] for x in bits]] if form == "list" else ["maskv", list(bits)]
                    mask.append({"op": "get", "vals": _vals(n), "name": "x", "key": key})
                    if (n, m) in ((0, 0), (3, 3), (3, 2), (3, 4), (5, 5), (1, 1), (0, 1), (4, 4)) or n == m:
                        mask.append({"op": "tab", "cols": _table(n), "key": ["rows", key]})
    out.append(("mask", mask))
    # ---- integer indices, index lists, odd keys
    idx = []
    for n in range(0, 6):
        for i in range(-8, 9):
            idx.append({"op": "get", "vals": _vals(n), "name": "x", "key": ["int", i]})
            idx.append({"op": "tab", "cols": _table(n), "key": ["rows", ["int", i]]})
        for b in (False, True):
            idx.append({"op": "get", "vals": _vals(n), "name": None, "key": ["bool", b]})
    for n in range(0, 5):
        for ln in range(0, 3):
            for tup in itertools.product(range(-6, 7), repeat=ln):
                if ln == 2 and n in (0, 1, 3) and rng.random() < 0.6:
                    continue
                idx.append({"op": "get", "vals": _vals(n, "s"), "name": "x", "key": ["list", [["i", i] for i in tup]]})
                idx.append({"op": "get", "vals": _vals(n, "f"), "name": None, "key": ["idxv", list(tup)]})
    nr = 150 if tier == "quick" else 3000
    for _ in range(nr):
        n = rng.randint(0, 7)
        ln = rng.randint(3, 8)
        l = [rng.randint(-n - 1, n) for _ in range(ln)]
        form = rng.choice(["list", "idxv"])
        key = ["list", [["i", i] for i in l]] if form == "list" else ["idxv", l]
        if rng.random() < 0.5:
            idx.append({"op": "get", "vals": _vals(n), "name": "x", "key": key})
        else:
            idx.append({"op": "tab", "cols": _table(n), "key": ["rows", key]})
    odd = [["list", []], ["list", [["i", 0], ["b", True]]], ["list", [["b", True], ["i", 0]]],
           ["list", [["I2", 0], ["I2", 1]]], ["list", [["i", 0], ["N"]]], ["list", [["s", "a"]]],
           ["list", [["f", (0.0).hex()]]], ["list", [["IE", 1]]],
           ["tup", []], ["tup", [["int", 0]]], ["tup", [["int", -1]]], ["tup", [["int", 9]]],
           ["tup", [["slice", None, 2, None]]], ["tup", [["int", 0], ["int", 0]]],
           ["tup", [["tup", [["int", 0]]]]],
           ["bad", ["s", "a"]], ["bad", ["f", (1.0).hex()]], ["bad", ["N"]], ["bad", ["O"]],
           ["maskv_null", [True, None, False]], ["maskv_null", [None]], ["emptyvec"],
           ["slice", None, None, 0], ["slice", 1, 3, 0], ["slice", 0, 0, 0],
           ["maskv", []], ["idxv", []]]
    for n in (0, 1, 3):
        for k in odd:
            idx.append({"op": "get", "vals": _vals(n), "name": "x", "key": k})
            if k[0] != "tup" and k != ["bad", ["s", "a"]]:
                idx.append({"op": "tab", "cols": _table(n), "key": ["rows", k]})
    # slices on other element kinds / names (the box uses one int vector)
    for _ in range(200 if tier == "quick" else 4000):
        n = rng.randint(0, 9)
        key = ["slice", rng.choice([None] + list(range(-12, 13))), rng.choice([None] + list(range(-12, 13))),
               rng.choice([None, 1, -1, 2, -2, 3, -3, 5, -7, 10 ** 20, -10 ** 20])]
        if rng.random() < 0.15:
            key[1 + rng.randrange(2)] = rng.choice([10 ** 20, -10 ** 20, 2 ** 63, -2 ** 63 - 1])
        idx.append({"op": "get", "vals": _vals(n, rng.choice("isf")), "name": rng.choice([None, "x", "a b"]),
                    "key": key})
    out.append(("index", idx))
    # ---- column selection
    cols = []
    for n, dup in ((0, False), (1, False), (3, False), (3, True)):
        t = _table(n, dup)
        for ln in range(0, 4):
            for tup in itertools.product(["a", "b", "c", "zz"], repeat=ln):
                cols.append({"op": "tab", "cols": t, "key": ["names", list(tup)]})
        for s in ("a", "b", "c", "zz", "q"):
            cols.append({"op": "tab", "cols": t, "key": ["name", s]})
    # the same selections on a table one of whose columns got its name through a LIVE VIEW after construction
    # (t.cols()[j].name = ...): the old name "q" no longer exists - asking for it is an error - and the new one does
    renamed = []
    for c in cols:
        if c["cols"] and c["cols"][0]["vals"]:
            for j in range(len(c["cols"])):
                key = c["key"]
                renamed.append(dict(c, via_rename=[j, "q"]))
                if key[0] == "names" and key[1]:
                    renamed.append(dict(c, via_rename=[j, "q"], key=["names", ["q"] + key[1][1:]]))
    cols += rng.sample(renamed, min(len(renamed), 400 if tier == "quick" else 4000))
    out.append(("cols", cols))
    # ---- rows x cols
    com = []
    rowkeys = [["slice", None, None, None], ["slice", 1, None, None], ["slice", None, None, -1],
               ["slice", 5, 9, None], ["slice", 2, 2, None], ["slice", None, None, 2], ["slice", -2, None, None],
               ["slice", 3, 0, -2], ["slice", 0, 0, 0]]
    nametups = [["a"], ["b", "a"], ["c", "c"], ["a", "zz"], ["zz"], ["c", "b", "a"], ["b", "b", "zz"]]
    for n in (0, 1, 3, 4):
        masks = [list(bits) for bits in itertools.product([False, True], repeat=n)][:16]
        masks += [[True] * (n + 1), [False] * max(0, n - 1)]
        keys = rowkeys + [["maskv", m] for m in masks] + [["list", [["b", x] for x in m]] for m in masks] + \
            [["idxv", l] for l in ([], [0], [-1, 0], [n], [0, 0, -n])]
        for k in keys:
            for nm in nametups:
                com.append({"op": "commute", "cols": _table(n, dup=(n == 4)), "rows": k, "names": nm})
                if k[0] == "slice":
                    spec = ["name", nm[0]] if len(nm) == 1 and n % 2 else ["names", nm]
                    com.append({"op": "tab", "cols": _table(n), "key": ["2d", k[1], k[2], k[3], spec, bool(n % 3)]})
    out.append(("commute", com))
    # the same selections on tables whose columns carry names that are NOT their own accessor (a space, a symbol, the name of a
    # Vector attribute, upper case): by-name keys are exact stored names; the model keeps its own names (case["relabel"])
    rel = []
    labs = [{"a": "Unit Price", "b": "name", "c": "x-y", "q": "q q"}, {"a": "sum", "b": "B", "c": "c!", "q": "Q"},
            {"a": "1st", "b": "T", "c": " c ", "q": "shape"}]
    cand = [c for c in cols + com if c.get("cols") and (c.get("op") == "commute" or c["key"][0] in ("names", "name", "2d"))]
    for c in rng.sample(cand, min(len(cand), 400 if tier == "quick" else 4000)):
        rel.append(dict(c, relabel=rng.choice(labs)))
    out.append(("relabelled", rel))
    out.append(("cmp", cmp_cases(rng, 600 if tier == "quick" else 8000)))
    # the same vector cases on "lived-in" operands (values.lived_in): read in every way, then rewritten in place
    lived = []
    for name, cases in out:
        cand = [c for c in cases if (c.get("op") == "get" and len(c.get("vals") or []) >= 2)
                or (c.get("op") == "cmp" and len(c.get("xs") or []) >= 2 and "fp" not in c)]
        for c in rng.sample(cand, min(len(cand), 400 if tier == "quick" else 4000)):
            lived.append(dict(c, lived=rng.randrange(1 << 30)))
    out.append(("lived-in", lived))
    return out


CMP_POOL = [["i", 1], ["i", 2], ["i", -3], ["b", True], ["b", False], ["f", (1.0).hex()], ["f", (2.5).hex()],
            ["N"], ["N"], ["s", "a"], ["s", "b"], ["i", 0], ["Fr", 1, 2], ["f", float("nan").hex()]]
CMP_FNS = ["eq", "ne", "lt", "le", "gt", "ge", "and_", "or_", "xor"]


def cmp_cases(rng, n):
    cs = []
    pools = [[t for t in CMP_POOL if t[0] in ("i", "b", "N")],
             [t for t in CMP_POOL if t[0] in ("i", "b", "f", "N", "Fr")],
             [t for t in CMP_POOL if t[0] in ("s", "N")], CMP_POOL]
    for fn in CMP_FNS:                                       # fixed small kernel
        for xs in ([], [["i", 1]], [["N"]], [["i", 1], ["N"], ["i", 2]]):
            for form in ("vec", "list", "tuple"):
                for ys in ([], [["i", 1]], [["N"]], [["i", 2], ["i", 2], ["N"]], [["i", 1], ["i", 0]]):
                    cs.append({"op": "cmp", "fn": fn, "xs": xs, "other": [form, ys]})
            for y in (["i", 1], ["N"], ["s", "a"], ["b", True]):
                cs.append({"op": "cmp", "fn": fn, "xs": xs, "other": ["scalar", y]})
    for _ in range(n):
        pool = rng.choice(pools)
        ln = rng.randint(0, 5)
        xs = [rng.choice(pool) for _ in range(ln)]
        form = rng.choice(["vec", "list", "tuple", "scalar", "scalar"])
        if form == "scalar":
            other = ["scalar", rng.choice(pool)]
        else:
            m = ln if rng.random() < 0.85 else rng.randint(0, 6)
            other = [form, [rng.choice(pool) for _ in range(m)]]
        cs.append({"op": "cmp", "fn": rng.choice(CMP_FNS), "xs": xs, "other": other, "name": rng.choice([None, "x"])})
    # dates with dates, datetimes with datetimes (the same day at different times of day), as built and - "born":
    # "promoted" - as vectors that were BORN one step down the ladder and promoted by in-place writes (a date vector that
    # received datetimes, an int vector that received floats ...): comparisons follow the current elements
    tpools = [[["d", 737425], ["d", 737426], ["d", 730120], ["N"]],
              [["dt", 737425, 0], ["dt", 737425, 3600], ["dt", 737425, 86399], ["dt", 737426, 0], ["N"]],
              [["f", (1.5).hex()], ["f", (2.0).hex()], ["f", (2.5).hex()], ["N"]],
              [["i", 1], ["i", 0], ["i", 2], ["N"]]]
    for fn in ("eq", "ne", "lt", "le", "gt", "ge"):
        for pool in tpools:
            for born in (None, "promoted"):
                for _ in range(2):
                    ln = rng.randint(2, 5)
                    xs = [rng.choice(pool) for _ in range(ln)]
                    if all(t[0] == "N" for t in xs):
                        xs[0] = pool[0]
                    other = rng.choice([["scalar", rng.choice(pool[:-1])], ["vec", [rng.choice(pool) for _ in range(ln)]],
                                        ["list", [rng.choice(pool) for _ in range(ln)]]])
                    c = {"op": "cmp", "fn": fn, "xs": xs, "other": other, "name": rng.choice([None, "x"])}
                    if born:
                        c["born"] = born
                    cs.append(c)
    # operands that are equal for hash() (and so for fingerprint()) but not for ==: -1 / -2, x / x + (2**61-1),
    # nan / nan (nan != nan) -- compared AFTER both fingerprints were computed and cached ("fp": true), and
    # without; a comparison shortcut through any cached summary of the operands must not change the answer
    M61 = 2 ** 61 - 1
    twins = [(["i", -1], ["i", -2]), (["i", 0], ["i", M61]), (["i", 5], ["i", 5 + M61]),
             (["f", float("nan").hex()], ["f", float("nan").hex()]), (["f", (0.0).hex()], ["f", (-0.0).hex()])]
    for fn in ("eq", "ne", "lt", "le", "gt", "ge"):
        for a, b in twins:
            for fp in (True, False):
                for form in ("vec", "list"):
                    k = rng.randint(0, 2)
                    pre = [rng.choice([["i", 3], ["i", 7], ["f", (1.5).hex()]]) for _ in range(k)]
                    post = [rng.choice([["i", 3], ["i", 7]]) for _ in range(rng.randint(0, 2))]
                    cs.append({"op": "cmp", "fn": fn, "xs": pre + [a] + post, "other": [form, pre + [b] + post],
                               "fp": fp})
    return cs


# ------------------------------------------------------------------ implementation side

def _mk_key(K):
    from serif import Vector
    from serif.typing import DataType
    t = K[0]
    if t == "int":
        return K[1]
    if t == "bool":
        return bool(K[1])
    if t == "slice":
        return slice(K[1], K[2], K[3])
    if t == "maskv":
        return Vector(list(K[1])) if K[1] else Vector([], dtype=DataType(bool, nullable=False))
    if t == "maskv_null":
        return Vector(list(K[1]), dtype=DataType(bool, nullable=True))
    if t == "list":
        return [V.dec(e) for e in K[1]]
    if t == "idxv":
        return Vector(list(K[1])) if K[1] else Vector([], dtype=DataType(int, nullable=False))
    if t == "tup":
        return tuple(_mk_key(k) for k in K[1])
    if t == "bad":
        return V.dec(K[1])
    if t == "emptyvec":
        return Vector([])
    raise ValueError(K)


def _vec_obs(r):
    return {"vals": [V.enc(x) for x in r._underlying], "dt": V.schema_obs(r.schema()), "name": r._name}


def _exc(e):
    return {"exc": err_name(e), "msg": f"{type(e).__name__}: {e}"[:120]}


def _vres(f):
    from serif import Vector, Table
    try:
        r = f()
    except Exception as e:
        return _exc(e)
    if isinstance(r, Table):
        return {"weird": "table"}
    if isinstance(r, Vector):
        return {"vec": _vec_obs(r)}
    return {"elt": V.enc(r)}


def _tres(f):
    from serif import Vector, Table
    from serif.table import Row
    try:
        r = f()
        if r is None:
            return {"none": True}
        if isinstance(r, Row):
            return {"row": [V.enc(x) for x in r]}
        if isinstance(r, Table):
            return {"tab": [_vec_obs(c) for c in r._underlying], "len": len(r)}
        if isinstance(r, Vector):
            if len(r._underlying) > 0 and all(isinstance(x, Vector) for x in r._underlying):
                return {"ragged": True}
            return {"col": _vec_obs(r)}
        return {"weird": type(r).__name__}
    except Exception as e:
        return _exc(e)


_LAB = {}          # set per case by observe(): model column name -> the name the implementation's table really carries


def _L(s):
    return _LAB.get(s, s)


def _unlabel(o):
    """real names in an observation -> the model's names"""
    inv = {v: k for k, v in _LAB.items()}
    if isinstance(o, dict):
        return {k: (inv.get(v, v) if k == "name" and isinstance(v, str) else _unlabel(v)) for k, v in o.items()}
    if isinstance(o, list):
        return [_unlabel(x) for x in o]
    return o


def _mk_table(cols):
    from serif import Vector, Table
    return Table([Vector([V.dec(x) for x in c["vals"]], name=_L(c["name"])) for c in cols])


def _mk_tkey(K):
    t = K[0]
    if t == "name":
        return _L(K[1])
    if t == "names":
        return tuple(_L(x) for x in K[1])
    if t == "rows":
        return _mk_key(K[1])
    if t == "2d":
        rows = slice(K[1], K[2], K[3])
        spec = _L(K[4][1]) if K[4][0] == "name" else tuple(_L(x) for x in K[4][1])
        return (rows, spec) if K[5] else (spec, rows)
    raise ValueError(K)


def observe(case):
    global _LAB
    _LAB = case.get("relabel") or {}
    o = _observe(case)
    return _unlabel(o) if _LAB else o


def _observe(case):
    import operator
    from serif import Vector, Table
    from serif.typeutils import slice_length
    op = case["op"]
    try:
        if op == "box":
            n = case["n"]
            s = slice(case["a"], case["b"], case["s"])
            v = Vector([x for x in range(n)], name="a")
            t = Table([Vector([x for x in range(n)], name="a"), Vector([f"s{x}" for x in range(n)], name="b")])
            try:
                sl = slice_length(s, n)
            except Exception as e:
                sl = None
            return {"py": list(range(n))[s], "slen": sl, "v": _vres(lambda: v[s]), "t": _tres(lambda: t[s])}
        if op == "get":
            if case.get("lived") is not None:
                v = V.lived_in(lambda xs: Vector(xs, name=case["name"]), [V.dec(x) for x in case["vals"]], case["lived"])
            else:
                v = Vector([V.dec(x) for x in case["vals"]], name=case["name"])
            key = _mk_key(case["key"])
            if case.get("lived") is not None and case["key"][0] in ("maskv", "idxv") and len(case["key"][1]) >= 2:
                # the KEY vector has a past too: it was used as a key in another state and rewritten in place
                key = V.lived_in(lambda xs: Vector(xs), list(case["key"][1]), case["lived"] + 7)
            if isinstance(key, list):
                # the program keeps its index list and used it before, on a LONGER vector: indexing reads its key, it does
                # not rewrite it (negative positions count from the end of the vector being indexed, every time)
                try:
                    xs = [V.dec(x) for x in case["vals"]]
                    Vector(xs + xs[:1] * 2 + xs)[key]
                except Exception:                            # noqa: BLE001
                    pass
            return {"r": _vres(lambda: v[key]), "dt0": V.schema_obs(v.schema())}
        if op == "tab":
            if case.get("via_rename"):
                j, old = case["via_rename"]
                t = _mk_table([dict(c, name=old) if q == j else c for q, c in enumerate(case["cols"])])      # (_mk_table relabels)
                # the table is USED under its old names first (the very selection, by every old name, by all of them at once):
                # whatever that leaves behind must not outlive the rename
                new = _L(case["cols"][j]["name"])
                K0 = case["key"]
                olds = [_L(old) if _L(n) == new else _L(n) for n in (K0[1] if K0[0] == "names" else [K0[1]] if K0[0] == "name" else [])]
                for probe in ([lambda: t[_mk_tkey(K0)]] + [lambda: t[tuple(olds)], lambda: t[olds[0]] if olds else None]
                              + [lambda: t[tuple(c.name for c in t.cols() if c.name is not None)]]):
                    try:
                        probe()
                    except Exception:                        # noqa: BLE001
                        pass
                t.cols()[j].name = new
            else:
                t = _mk_table(case["cols"])
            key = _mk_tkey(case["key"])
            K = case["key"]
            n = len(t)
            if K[0] == "rows" and K[1][0] == "int" and n >= 2 and -n <= K[1][1] < n:
                # the selected row is HELD while other rows of the same table are taken before and after it, and read
                # only then: every t[i] is row i for as long as the table is not written (two results alive at once)
                j = (K[1][1] + 1) % n
                before = t[j]
                r = t[key]
                after = t[(j + 1) % n]
                o = {"r": _tres(lambda: r), "dt0": [V.schema_obs(c.schema()) for c in t._underlying]}
                fresh = _mk_table(case["cols"])
                o["held_ok"] = (_tres(lambda: before) == _tres(lambda: fresh[j])
                                and _tres(lambda: after) == _tres(lambda: fresh[(j + 1) % n]))
                return o
            return {"r": _tres(lambda: t[key]), "dt0": [V.schema_obs(c.schema()) for c in t._underlying]}
        if op == "commute":
            t = _mk_table(case["cols"])
            rows = _mk_key(case["rows"])
            names = tuple(_L(x) for x in case["names"])
            return {"o1": _tres(lambda: t[rows][names]), "o2": _tres(lambda: t[names][rows]),
                    "dt0": [V.schema_obs(c.schema()) for c in t._underlying]}
        if op == "cmp":
            fn = getattr(operator, case["fn"])
            xs = [V.dec(x) for x in case["xs"]]
            form, o = case["other"]
            if form == "scalar":
                y = V.dec(o)
                other, pairs = y, [(x, y) for x in xs]
            else:
                ys = [V.dec(x) for x in o]
                other = Vector(ys) if form == "vec" else (ys if form == "list" else tuple(ys))
                pairs = list(zip(xs, ys))
            tbl = []
            for x, y in pairs:
                try:
                    b = bool(fn(x, y))
                except Exception:
                    b = None
                tbl.append([V.enc(x), V.enc(y), b])
            v = None
            if case.get("born"):
                from harness.props import c05
                v = c05._via_writes(list(xs), None, case["born"])
                if v is not None:
                    v.name = case.get("name")
            if v is not None:
                pass
            elif case.get("lived") is not None:
                v = V.lived_in(lambda ys_: Vector(ys_, name=case.get("name")), list(xs), case["lived"])
            else:
                v = Vector(xs, name=case.get("name"))
            if isinstance(other, Vector) and isinstance(other, Table):
                return {"skip": "operand became a table"}
            if case.get("fp"):                               # both fingerprints computed (and memoised) first
                v.fingerprint()
                if isinstance(other, Vector):
                    other.fingerprint()
            return {"r": _vres(lambda: fn(v, other)), "tbl": tbl}
    except Exception as e:
        return {"setup": _exc(e)}
    return {"setup": {"exc": "OtherError", "msg": "unknown op"}}


# ------------------------------------------------------------------ Coq emitter

class Ids:
    """value tag -> id (per case); the box uses the fixed numbering of Corr/C07.box_vec"""

    def __init__(self, box=False):
        self.d = {}
        self.box = box

    def e(self, tag):
        if tag[0] == "N":
            return "None"
        if self.box:
            if tag[0] == "i":
                return f"(Some {cz(tag[1])})"
            if tag[0] == "s" and tag[1][1:].isdigit():
                return f"(Some {cz(100 + int(tag[1][1:]))})"
            return "(Some (999)%Z)"
        k = json.dumps(tag)
        if k not in self.d:
            self.d[k] = len(self.d)
        return f"(Some {cz(self.d[k])})"

    def zid(self, tag):
        if tag[0] == "N":
            return cz(-1)
        k = json.dumps(tag)
        if k not in self.d:
            self.d[k] = len(self.d)
        return cz(self.d[k])


def _name_id(s):
    if s is None:
        return "None"
    return f"(Some {NAMES.index(s) if s in NAMES else 90 + (len(str(s)) % 9)})"


def _cdt(o):
    return "None" if o is None else f"(Some {V.coq_dtype(o)})"


def _cvec(ids, o):
    return f"(mkVec {clist(ids.e(t) for t in o['vals'])} {_cdt(o['dt'])} {_name_id(o['name'])})"


def _oz(x):
    return "None" if x is None else f"(Some {cz(x)})"


def coq_key(K):
    t = K[0]
    if t == "int":
        return f"(IxInt {cz(K[1])})"
    if t == "bool":
        return f"(IxInt {cz(1 if K[1] else 0)})"
    if t == "slice":
        return f"(IxSlice {_oz(K[1])} {_oz(K[2])} {_oz(K[3])})"
    if t == "maskv":
        return f"(IxMaskV {clist(cbool(b) for b in K[1])})"
    if t == "list":
        def le(e):
            if e[0] == "b":
                return f"LB {cbool(e[1])}"
            if e[0] == "i":
                return f"LI {cz(e[1])}"
            return "LX"
        return f"(IxList {clist(le(e) for e in K[1])})"
    if t == "idxv":
        return f"(IxIdxV {clist(cz(i) for i in K[1])})"
    if t == "tup":
        if len(K[1]) == 1:
            return f"(IxTup1 {coq_key(K[1][0])})"
        return f"(IxTupN {len(K[1])})"
    if t == "emptyvec":
        return "IxUntypedV"
    return "IxBad"


def coq_tkey(K):
    t = K[0]
    nid = lambda s: str(NAMES.index(s))
    if t == "name":
        return f"(TKName {nid(K[1])})"
    if t == "names":
        return f"(TKNames {clist(nid(s) for s in K[1])})"
    if t == "rows":
        return f"(TKRows {coq_key(K[1])})"
    if t == "2d":
        spec = f"(CName {nid(K[4][1])})" if K[4][0] == "name" else f"(CNames {clist(nid(s) for s in K[4][1])})"
        return f"(TK2 {_oz(K[1])} {_oz(K[2])} {_oz(K[3])} {spec})"
    raise ValueError(K)


def _vobs(ids, r):
    if "exc" in r:
        return "OErr"
    if "elt" in r:
        return f"(OElt {ids.e(r['elt'])})"
    if "vec" in r:
        return f"(OVec {_cvec(ids, r['vec'])})"
    return None


def _tobs(ids, r):
    if "exc" in r:
        return "OTErr"
    if "none" in r:
        return "ONone"
    if "ragged" in r:
        return "ORagged"
    if "row" in r:
        return f"(ORow {clist(ids.e(t) for t in r['row'])})"
    if "col" in r:
        return f"(OCol {_cvec(ids, r['col'])})"
    if "tab" in r:
        return f"(OTab {clist(_cvec(ids, c) for c in r['tab'])})"
    return None


def _ctable(ids, cols, dts):
    return clist(f"(mkVec {clist(ids.e(t) for t in c['vals'])} {_cdt(d)} {_name_id(c['name'])})"
                 for c, d in zip(cols, dts))


def emit(case, obs):
    op = case["op"]
    if "skip" in obs:
        return "CSkip"
    if "setup" in obs:
        return "CBad"
    if op == "box":
        ids = Ids(box=True)
        n = case["n"]
        dts = [["KInt", False], ["KStr", False]] if n else [None, None]
        v, t = obs["v"], obs["t"]
        # compact spelling when the result has the expected shape (Corr/C07.v: VB / TB), general otherwise
        if "vec" in v and v["vec"]["name"] == "a" and v["vec"]["dt"] == dts[0] and \
                all(x[0] == "i" and 0 <= x[1] < 99 for x in v["vec"]["vals"]):
            vo = f"(VB {clist(str(x[1]) for x in v['vec']['vals'])})"
        else:
            vo = _vobs(ids, v)
            vo = None if vo is None else f"(VG {vo})"
        pos = None
        if "tab" in t and len(t["tab"]) == 2 and [c["name"] for c in t["tab"]] == ["a", "b"] and \
                [c["dt"] for c in t["tab"]] == dts and all(x[0] == "i" and 0 <= x[1] < 99 for x in t["tab"][0]["vals"]):
            pos = [x[1] for x in t["tab"][0]["vals"]]
            if t["tab"][1]["vals"] != [["s", f"s{i}"] for i in pos]:
                pos = None
        if pos is not None:
            to = f"(TB {clist(str(i) for i in pos)})"
        else:
            to = _tobs(ids, t)
            to = None if to is None else f"(TG {to})"
        if vo is None or to is None:
            return "CBad"
        bz = lambda x: "99" if x is None else (f"({x})" if x < 0 else str(x))
        sl = obs["slen"] if isinstance(obs["slen"], int) else -1
        return (f"CBox {cnat(n)} {bz(case['a'])} {bz(case['b'])} {bz(case['s'])} "
                f"{clist(str(i) for i in obs['py'])} {bz(sl)} {vo} {to}")
    ids = Ids()
    if op == "get":
        v = f"(mkVec {clist(ids.e(t) for t in case['vals'])} {_cdt(obs['dt0'])} {_name_id(case['name'])})"
        o = _vobs(ids, obs["r"])
        return "CBad" if o is None else f"CGet {v} {coq_key(case['key'])} {o}"
    if op == "tab":
        o = _tobs(ids, obs["r"])
        t = _ctable(ids, case["cols"], obs["dt0"])
        return "CBad" if o is None else f"CTab {t} {coq_tkey(case['key'])} {o}"
    if op == "commute":
        t = _ctable(ids, case["cols"], obs["dt0"])
        o1, o2 = _tobs(ids, obs["o1"]), _tobs(ids, obs["o2"])
        if o1 is None or o2 is None:
            return "CBad"
        names = clist(str(NAMES.index(s)) for s in case["names"])
        return f"CCommute {t} {coq_key(case['rows'])} {names} {o1} {o2}"
    if op == "cmp":
        xs = clist(ids.e(t) for t in case["xs"])
        form, o = case["other"]
        other = f"(OpScalar {ids.e(o)})" if form == "scalar" else f"(OpVec {clist(ids.e(t) for t in o)})"
        tbl = clist(f"({ids.zid(x)}, {ids.zid(y)}, {copt(None if b is None else cbool(b))})" for x, y, b in obs["tbl"])
        r = obs["r"]
        if "exc" in r:
            ro = "None"
        elif "vec" in r and all(t[0] == "b" for t in r["vec"]["vals"]):
            ro = (f"(Some ({clist(cbool(t[1]) for t in r['vec']['vals'])}, {_cdt(r['vec']['dt'])}, "
                  f"{_name_id(r['vec']['name'])}))")
        else:
            return "CBad"
        return f"CCmp {xs} {other} {tbl} {ro}"
    return "CBad"


# ------------------------------------------------------------------ independent oracle

def _kind(dt):
    return None if dt is None else dt[0]


def _expect_vec_key(l, K):
    """('elt', x) / ('vec', [..]) / ('err',) / None (the property has no opinion) for list l under key K."""
    t = K[0]
    n = len(l)
    try:
        if t in ("int", "bool"):
            return ("elt", l[int(K[1])])
        if t == "slice":
            return ("vec", l[slice(K[1], K[2], K[3])])
    except (IndexError, ValueError):
        return ("err",)
    if t == "maskv" or (t == "list" and K[1] and all(e[0] == "b" for e in K[1])):
        m = K[1] if t == "maskv" else [e[1] for e in K[1]]
        if len(m) != n:
            return ("err",)
        return ("vec", [x for x, y in zip(l, m) if y])
    if t == "idxv" or (t == "list" and K[1] and all(e[0] == "i" for e in K[1])):
        idx = K[1] if t == "idxv" else [e[1] for e in K[1]]
        try:
            return ("vec", [l[i] for i in idx])
        except IndexError:
            return ("err",)
    return None


def _check_vec(what, r, exp, name0, dt0):
    """r = observed {vec|elt|exc}; exp from _expect_vec_key"""
    if exp is None:
        return None
    if exp[0] == "err":
        return None if "exc" in r else f"{what}: an error was required, got {json.dumps(r)[:120]}"
    if "exc" in r:
        return f"{what}-raises: {r['msg']}"
    if exp[0] == "elt":
        if r.get("elt") != exp[1]:
            return f"{what}: expected element {exp[1]}, got {json.dumps(r)[:120]}"
        return None
    if "vec" not in r:
        return f"{what}: expected a vector, got {json.dumps(r)[:120]}"
    o = r["vec"]
    if o["vals"] != exp[1]:
        return f"{what}: values {o['vals']} but Python sequence semantics give {exp[1]}"
    if o["name"] != name0:
        return f"{what}-name: name {o['name']!r}, was {name0!r}"
    if _kind(o["dt"]) != _kind(dt0):
        return f"{what}-dtype: dtype kind {o['dt']}, was {dt0}"
    return None


def _check_rows(what, r, cols, dts, K):
    """row selection K on a table: the same selection on every column"""
    exps = [_expect_vec_key(c["vals"], K) for c in cols]
    if any(e is None for e in exps):
        return None
    if K[0] in ("int", "bool"):
        if any(e[0] == "err" for e in exps):
            return None if "exc" in r else f"{what}: an error was required, got {json.dumps(r)[:120]}"
        if "exc" in r:
            return f"{what}-raises: {r['msg']}"
        if r.get("row") != [e[1] for e in exps]:
            return f"{what}: row {r.get('row')} but the cells are {[e[1] for e in exps]}"
        return None
    if "none" in r and K[0] == "list":
        # a list of ints selects rows of a Vector and (as a Vector of ints) of a Table, but Table.__getitem__ has
        # no branch for the list itself and falls off its end
        return f"table-intlist-none: t[{[e[1] for e in K[1]]}] returned None (no row selection was applied, no error raised)"
    if any(e[0] == "err" for e in exps):
        return None if "exc" in r else f"{what}: an error was required, got {json.dumps(r)[:120]}"
    if "exc" in r:
        return f"{what}-raises: {r['msg']}"
    if "tab" not in r:
        return f"{what}: expected a table, got {json.dumps(r)[:120]}"
    if len(r["tab"]) != len(cols):
        return f"{what}: {len(r['tab'])} columns, expected {len(cols)}"
    for j, (o, c, d, e) in enumerate(zip(r["tab"], cols, dts, exps)):
        why = _check_vec(f"{what}-col{j}", {"vec": o}, e, c["name"], d)
        if why:
            return why
    if r["len"] != len(exps[0][1]):
        return f"{what}-len: len() is {r['len']}, {len(exps[0][1])} rows selected"
    return None


def _check_names(what, r, cols, dts, names):
    have = [c["name"] for c in cols]
    if any(s not in have for s in names):
        return None if "exc" in r else f"{what}-missing: {names} names a column that does not exist, got {json.dumps(r)[:100]}"
    if "exc" in r:
        return f"{what}-raises: {r['msg']}"
    if "tab" not in r:
        return f"{what}: expected a table, got {json.dumps(r)[:120]}"
    if [o["name"] for o in r["tab"]] != list(names):
        return f"{what}: columns {[o['name'] for o in r['tab']]}, requested {names}"
    for o, s in zip(r["tab"], names):
        j = have.index(s)
        if o["vals"] != cols[j]["vals"] or _kind(o["dt"]) != _kind(dts[j]):
            return f"{what}: column {s!r} holds {o['vals']} typed {o['dt']}, the table's column holds {cols[j]['vals']}"
    return None


def oracle(case, obs):
    op = case["op"]
    if "skip" in obs:
        return None
    if "setup" in obs:
        return f"{op}-setup-raises: {obs['setup']['msg']}"
    if op == "box":
        n = case["n"]
        s = slice(case["a"], case["b"], case["s"])
        exp = list(range(n))[s]
        if obs["slen"] != len(exp):
            return f"slice_length: slice_length({s}, {n}) = {obs['slen']}, the slice has {len(exp)} elements"
        why = _check_vec("vector-slice", obs["v"], ("vec", [["i", i] for i in exp]), "a", ["KInt", False] if n else None)
        if why:
            return why
        cols = [{"name": "a", "vals": [["i", i] for i in range(n)]}, {"name": "b", "vals": [["s", f"s{i}"] for i in range(n)]}]
        dts = [["KInt", False], ["KStr", False]] if n else [None, None]
        return _check_rows("table-slice", obs["t"], cols, dts, ["slice", case["a"], case["b"], case["s"]])
    if op == "get":
        exp = _expect_vec_key(case["vals"], case["key"])
        return _check_vec("vector-" + case["key"][0], obs["r"], exp, case["name"], obs["dt0"])
    if op == "tab":
        K = case["key"]
        if K[0] == "rows":
            if obs.get("held_ok") is False:
                return (f"table-rows-held: a row taken by t[i] changed when another row of the same table was taken "
                        f"(key {K[1]}, table {case['cols']})")
            return _check_rows("table-" + K[1][0], obs["r"], case["cols"], obs["dt0"], K[1])
        if K[0] == "names":
            return _check_names("table-names", obs["r"], case["cols"], obs["dt0"], K[1])
        if K[0] == "name":
            have = [c["name"] for c in case["cols"]]
            r = obs["r"]
            if K[1] not in have:
                return None if "exc" in r else f"table-name-missing: {K[1]!r} does not exist, got {json.dumps(r)[:100]}"
            j = have.index(K[1])
            if "col" not in r or r["col"]["vals"] != case["cols"][j]["vals"] or r["col"]["name"] != K[1]:
                return f"table-name: t[{K[1]!r}] gave {json.dumps(r)[:120]}"
            return None
        if K[0] == "2d":
            # t[rows, names] must be t[rows][names]: row selection then column selection
            rows = ["slice", K[1], K[2], K[3]]
            sel = []
            for c in case["cols"]:
                e = _expect_vec_key(c["vals"], rows)
                if e[0] == "err":
                    return None if "exc" in obs["r"] else "table-2d: an error was required (step 0)"
                sel.append({"name": c["name"], "vals": e[1]})
            if K[4][0] == "names":
                return _check_names("table-2d", obs["r"], sel, obs["dt0"], K[4][1])
            have = [c["name"] for c in sel]
            r = obs["r"]
            if K[4][1] not in have:
                return None if "exc" in r else f"table-2d-missing: {K[4][1]!r} does not exist"
            j = have.index(K[4][1])
            if "col" not in r or r["col"]["vals"] != sel[j]["vals"]:
                return f"table-2d: gave {json.dumps(r)[:120]}, expected column {sel[j]['vals']}"
            return None
    if op == "commute":
        o1, o2 = obs["o1"], obs["o2"]
        e1, e2 = "exc" in o1, "exc" in o2
        sel = []
        for c in case["cols"]:
            e = _expect_vec_key(c["vals"], case["rows"])
            if e is None:
                return None          # a row key the property says nothing about (empty list, ...)
            sel.append(e)
        if case["rows"][0] == "list" and all(x[0] == "i" for x in case["rows"][1]):
            return None              # see table-intlist-none
        if e1 != e2:
            return (f"commute-defined: t[rows][cols] {'raises' if e1 else 'answers'} but t[cols][rows] "
                    f"{'raises' if e2 else 'answers'}")
        if not e1:
            strip = lambda o: [(c["vals"], c["name"], _kind(c["dt"])) for c in o.get("tab", [])] if "tab" in o else o
            if strip(o1) != strip(o2):
                return f"commute: t[rows][cols] = {json.dumps(o1)[:150]} but t[cols][rows] = {json.dumps(o2)[:150]}"
        # and each path against the direct reading
        if any(e[0] == "err" for e in sel):
            return None if e1 else "commute: an error was required (bad row key)"
        sel = [{"name": c["name"], "vals": e[1]} for c, e in zip(case["cols"], sel)]
        return _check_names("commute-direct", o1, sel, obs["dt0"], case["names"])
    if op == "cmp":
        r = obs["r"]
        form, o = case["other"]
        xs = case["xs"]
        if form != "scalar" and len(o) != len(xs):
            return None if "exc" in r else f"cmp-length: operands of length {len(xs)} and {len(o)} gave {json.dumps(r)[:100]}"
        exp = []
        for x, y, b in obs["tbl"]:
            if x[0] == "N" or (y[0] == "N" and form != "scalar"):
                exp.append(["b", False])
            elif b is None:
                return None          # Python itself rejects this scalar comparison
            else:
                exp.append(["b", b])
        if "exc" in r:
            return f"cmp-raises: {r['msg']}"
        if "vec" not in r:
            return f"cmp: expected a vector, got {json.dumps(r)[:100]}"
        if r["vec"]["vals"] != exp:
            return f"cmp: {case['fn']} gave {r['vec']['vals']}, elementwise Python comparison gives {exp}"
        if r["vec"]["dt"] != ["KBool", False]:
            return f"cmp-dtype: result typed {r['vec']['dt']}, must be non-nullable bool"
        return None
    return None


def _slice_nontrivial(n, a, b, s):
    r = list(range(n))[slice(a, b, s)]
    oob = any(x is not None and (x < -n or x > n) for x in (a, b))
    return (not r) or oob or s not in (None, 1)


def _key_nontrivial(n, K):
    t = K[0]
    if t == "slice":
        return K[3] == 0 or _slice_nontrivial(n, K[1], K[2], K[3])
    if t == "maskv" or (t == "list" and K[1] and all(e[0] == "b" for e in K[1])):
        m = K[1] if t == "maskv" else [e[1] for e in K[1]]
        return len(m) != n or (any(m) and not all(m))
    if t == "idxv" or (t == "list" and K[1] and all(e[0] == "i" for e in K[1])):
        idx = K[1] if t == "idxv" else [e[1] for e in K[1]]
        return any(i < 0 or i >= n for i in idx) or len(set(idx)) < len(idx)
    if t in ("int", "bool"):
        return int(K[1]) < 0 or int(K[1]) >= n
    return True


def nontrivial(case, obs):
    op = case["op"]
    if "skip" in obs or "setup" in obs:
        return False
    if op == "box":
        return _slice_nontrivial(case["n"], case["a"], case["b"], case["s"])
    if op == "get":
        return _key_nontrivial(len(case["vals"]), case["key"])
    if op == "tab":
        K = case["key"]
        n = len(case["cols"][0]["vals"])
        if K[0] == "rows":
            return _key_nontrivial(n, K[1])
        if K[0] == "2d":
            return True
        names = [K[1]] if K[0] == "name" else K[1]
        have = [c["name"] for c in case["cols"]]
        return len(set(names)) < len(names) or any(s not in have for s in names)
    if op == "commute":
        return _key_nontrivial(len(case["cols"][0]["vals"]), case["rows"])
    if op == "cmp":
        form, o = case["other"]
        tags = case["xs"] + (o if form != "scalar" else [o])
        return any(t[0] == "N" for t in tags) or len({t[0] for t in tags}) > 1 or \
            (form != "scalar" and len(o) != len(case["xs"]))
    return True


def describe(case, obs, stream):
    op = case["op"]
    if op == "box":
        return [f"box:n{case['n']}"]
    if op == "get":
        return [f"{stream}:vector-{case['key'][0]}"]
    if op == "tab":
        K = case["key"]
        return [f"{stream}:table-{K[0]}" + (f"-{K[1][0]}" if K[0] == "rows" else "")]
    if op == "cmp":
        return [f"cmp:{case['fn']}-{case['other'][0]}"]
    return [f"{stream}:{op}"]


def shrink(case):
    op = case["op"]
    if op == "get" and case["key"][0] == "slice":
        n = len(case["vals"])
        if n:
            yield dict(case, vals=case["vals"][:-1])
    if op == "cmp" and case["other"][0] != "scalar":
        xs, (form, ys) = case["xs"], case["other"]
        for i in range(min(len(xs), len(ys))):
            yield dict(case, xs=xs[:i] + xs[i + 1:], other=[form, ys[:i] + ys[i + 1:]])


def known(case, obs, why):
    # NEW-C07-1: a non-empty list of ints as a Table row key returns None
    if why.startswith("table-intlist-none:") and case["op"] == "tab" and case["key"][0] == "rows" \
            and case["key"][1][0] == "list" and case["key"][1][1] and all(e[0] == "i" for e in case["key"][1][1]) \
            and obs.get("r", {}).get("none"):
        return "NEW-C07-1"
    return None
