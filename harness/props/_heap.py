"""Shared machinery for the heap-model properties C01 / C02 / C15 / C16.

A case is a *program*: a list of abstract operations over "slots" (the objects the program
currently holds).  `run_program` executes it on real serif objects (in the impl
subprocess), and after EVERY operation records (a) the model operation it corresponds
to, (b) the implementation's abstracted state — every live object with its values,
storage identity, name, dtype and fingerprint memo, plus the live view of the alias
registry — and (c) the verdicts of four independent Python oracles that state the
properties directly on the real objects (shadow copies, identity checks, fresh
rebuilds).  `emit` turns the recording into a Coq term of type `list Heap.tstep`.
"""
import gc
import weakref

from harness.core import cbool, clist, cnat, copt, cz

PRELUDE = ("From Coq Require Import List ZArith.\nImport ListNotations.\n"
           "From Serif Require Import Base.PyVal Model.Heap Corr.Heap.")
FAILING = "Heap.failing"
P61 = (1 << 61) - 1

# ----------------------------------------------------------------------------- generation

VALS = [0, 1, 2, 3, 5, 7, -1, -2, None, None, 2.0, 4.0, P61 + 1, -(P61 - 1)]
NAMES = ["a", "b", "c", "x", None]


def rand_vals(rng, n, floats=False):
    pool = VALS if floats else [v for v in VALS if not isinstance(v, float)]
    return [rng.choice(pool) for _ in range(n)]


def rand_key(rng, n):
    k = rng.random()
    if k < 0.3:
        return ["int", rng.randint(-n - 1, n)]
    if k < 0.6:
        return ["slice", rng.choice([None, 0, 1, -1, 2, -3, n]), rng.choice([None, 0, 1, 2, -1, n, n + 2]),
                rng.choice([None, 1, 2, -1, -2])]
    if k < 0.8:
        return ["mask", [rng.random() < 0.5 for _ in range(n if rng.random() < 0.9 else n + 1)]]
    return ["idx", [rng.randint(-n, n) for _ in range(rng.randint(0, 3))]]


def gen_program(rng, length, mix):
    """mix: dict op-name -> weight."""
    ops = list(mix)
    w = [mix[o] for o in ops]
    prog = []
    n0 = rng.choice([0, 1, 2, 3, 3, 4])
    prog.append(["newvec", rand_vals(rng, n0), rng.choice(NAMES), None])
    for _ in range(length):
        o = rng.choices(ops, w)[0]
        s, s2 = rng.randint(0, 50), rng.randint(0, 50)
        n = rng.choice([0, 1, 2, 3, 3, 4])
        if o == "newvec":
            prog.append(["newvec", rand_vals(rng, n, floats=rng.random() < 0.2), rng.choice(NAMES),
                         rng.choice([None, None, 0, 1])])
        elif o == "newtab_dict":
            w_ = rng.randint(0, 3)
            if rng.random() < 0.25:
                # dict values that are the CALLER'S tuples (one tuple for several columns, or one a live vector was built over):
                # Table(dict) snapshots what it is given - its columns own their storage like any other table's
                k = rng.randint(0, 2)
                ln = [3, 2, 0][k]
                prog.append(["newtab_dict", [[rng.choice(["a", "b", "c", "x"]), ["tup", k] if rng.random() < 0.7 else rand_vals(rng, ln)]
                                             for _ in range(max(1, w_))]])
            else:
                prog.append(["newtab_dict", [[rng.choice(["a", "b", "c", "x"]), rand_vals(rng, n)] for _ in range(w_)]])
        elif o == "newtab_vecs":
            prog.append(["newtab_vecs", [rng.randint(0, 50) for _ in range(rng.randint(1, 3))]])
        elif o in ("copy", "fp", "read", "drop", "cycle_drop", "transpose", "sort", "math", "fillna", "dropna", "fillna_w"):
            prog.append([o, s])
        elif o == "gc":
            prog.append(["gc"])
        elif o == "slice":
            if rng.random() < 0.35:       # a slice that covers the whole vector (v[:], v[0:], v[:99])
                prog.append(["slice", s, rng.choice([None, 0, None]), rng.choice([None, 9, 99]), rng.choice([None, 1])])
            else:
                prog.append(["slice", s, rng.choice([None, 0, 1, -1, 2, 5]), rng.choice([None, 0, 1, 2, -1, 9]),
                             rng.choice([None, 1, 2, -1])])
        elif o == "vcat":                 # v << list (the empty list included)
            prog.append(["vcat", s, rand_vals(rng, rng.choice([0, 0, 1, 2]))])
        elif o == "mask":
            prog.append(["mask", s, [rng.random() < 0.5 for _ in range(6)]])
        elif o == "rowidx":               # v[[i, j, ...]] / t[[i, j, ...]]: positions as a list or as a Vector of ints (repeats, negatives)
            prog.append(["rowidx", s, [rng.randint(-4, 4) for _ in range(rng.randint(1, 4))], rng.random() < 0.5])
        elif o == "colview":
            prog.append(["colview", s, rng.randint(0, 3)])
        elif o == "selcols":
            ks = [rng.randint(0, 3) for _ in range(rng.randint(1, 3))]
            # every column may be asked for by its advertised accessor (col<N>_, name__N, the sanitised form) instead of its name
            prog.append(["selcols", s, ks, [rng.random() < 0.45 for _ in ks]])
        elif o == "sel2d":                # t[rows, column(s)]: a row slice (often one covering every row) with one column / several
            whole = rng.random() < 0.5
            rows = [rng.choice([None, 0]), rng.choice([None, 9, 99]), rng.choice([None, 1])] if whole else \
                [rng.choice([None, 0, 1, -1, 2]), rng.choice([None, 0, 1, 2, -1, 9]), rng.choice([None, 1, 2, -1])]
            cols = rng.randint(0, 3) if rng.random() < 0.6 else [rng.randint(0, 3) for _ in range(rng.randint(1, 3))]
            prog.append(["sel2d", s, rows, cols, rng.random() < 0.5])
        elif o == "window":
            prog.append(["window", s, rng.randint(0, 3)])
        elif o == "stack":
            prog.append(["stack", s, rng.choice([["slot", s2], ["lit", rand_vals(rng, n)], ["dict", "n", rand_vals(rng, n)],
                                                 ["dictslot", rng.choice(["n", "q", "a"]), s2]])])
        elif o == "append":
            prog.append(["append", s, s2])
        elif o == "join":
            # every expectation (None = the method's default): the strongest one the keys allow selects other code paths
            prog.append(["join", s, s2, rng.choice(["inner_join", "join", "full_join"]),
                         rng.choice([None, "one_to_one", "many_to_one", "one_to_many", "many_to_many"])])
        elif o == "setv":
            val = rng.choice([["s", rng.choice(VALS)], ["l", rand_vals(rng, rng.randint(0, 3), floats=rng.random() < 0.2)],
                              ["s", rng.choice(VALS[:9])]])
            prog.append(["setv", s, ["idxslot", s2] if rng.random() < 0.12 else rand_key(rng, n), val])
        elif o == "sett":
            prog.append(["sett", s, rng.choice([["cell", rng.randint(-1, 3), rng.randint(0, 3), rng.choice(VALS[:10])],
                                                ["row", rng.randint(-1, 3), rand_vals(rng, rng.randint(1, 3))],
                                                ["colslice", rng.randint(0, 3), rng.choice(VALS[:10])],
                                                # t[:, col] = [values]: as many as the table has rows, or not (then it is refused)
                                                ["colvals", rng.randint(0, 3), rand_vals(rng, rng.choice([1, 2, 3, 3, 4]))],
                                                # a row of the WRONG width (refused: nothing of it may be stored)
                                                ["rowbad", rng.randint(-1, 3), rand_vals(rng, rng.choice([1, 2, 4, 5]))],
                                                # t[0:k, :] = <another table the program holds> (k = its rows): cells are copied,
                                                # the source stays what it was - kinds, values, names
                                                ["fromtab", s2],
                                                ["region", rng.choice(VALS[:9])]])])
        elif o == "setattr":
            prog.append(["setattr", s, rng.randint(0, 3), rng.choice([["slot", s2], ["lit", rand_vals(rng, n)], ["tup", rng.randint(0, 2)]])])
        elif o == "rename":
            prog.append(["rename", s, rng.choice(["a", "b", "z", "q"])])
    return prog


# ----------------------------------------------------------------------------- execution

class Skip(Exception):
    pass


class World:
    def __init__(self):
        self.held = []          # strong refs: what the program holds
        self.refs = {}          # handle -> weakref
        self.ident = {}         # id(obj) -> handle (entries purged when the object dies)
        self.next_h = 1
        self.sidmap = {id(()): 0}
        self.names = {}
        self.tuples = [(1, 2, 3), (5, None), ()]          # caller-supplied tuples that may be shared
        self.steps = []
        self.findings = []      # oracle verdicts: "Cxx-key: text"
        self.stats = {"writes_ok": 0, "writes_alias": 0, "shared_now": 0, "ops": 0, "reuse": 0, "fp_calls": 0,
                      "fp_after_write": 0, "tables": 0, "failed_ops": 0, "collected": 0, "zero_tables": 0}
        self.cycles = []
        self.fp_before = {}     # handle -> (fingerprint value, contents) last returned
        self.unsupported = None
        self.cur_sids = set()
        self.retired = set()
        self.held_rows = []     # (row object, the cells it showed when the program obtained it)

    # -- identities
    def sid(self, tup):
        i = id(tup)
        if i not in self.sidmap:
            self.sidmap[i] = len(self.sidmap)
        return self.sidmap[i]

    def name_tok(self, n):
        if n is None:
            return None
        if n not in self.names:
            self.names[n] = len(self.names) + 1
        return self.names[n]

    def handle_of(self, obj, create=True):
        h = self.ident.get(id(obj))
        if h is not None and self.refs[h]() is obj:
            return h
        if not create:
            return None
        h = self.next_h
        self.next_h += 1
        self.refs[h] = weakref.ref(obj)
        self.ident[id(obj)] = h
        return h

    def reserve(self, k):
        hs = list(range(self.next_h, self.next_h + k))
        return hs

    def live(self):
        out = {}
        for h, r in self.refs.items():
            o = r()
            if o is not None:
                out[h] = o
        return out

    def slot(self, i, kind=None):
        from serif import Table, Vector
        if not self.held:
            raise Skip()
        cands = [o for o in self.held if kind is None or (kind == "t") == isinstance(o, Table)]
        if not cands:
            raise Skip()
        return cands[i % len(cands)]


def _enc_val(w, x):
    if x is None:
        return "SNone"
    if type(x) is int:
        return f"(SInt {cz(x)})"
    if type(x) is float and x == int(x) and abs(x) < 1e15:
        return f"(SFloat {cz(int(x))})"
    w.unsupported = f"value {x!r}"
    return "SNone"


def _vals(w, xs):
    return clist(_enc_val(w, x) for x in xs)


def _dtype(w, dt):
    from harness import values as V
    if dt is None:
        return "None"
    o = V.schema_obs(dt)
    return f"(Some {V.coq_dtype(o)})"


def snapshot_state(w):
    """Coq term of the implementation's abstracted state + python shadow for the oracles."""
    from serif import Table
    from serif.alias_tracker import _ALIAS_TRACKER
    live = w.live()
    # discover unknown objects hanging off live tables
    for h, o in list(live.items()):
        if isinstance(o, Table):
            for c in o.__dict__.get("_underlying", ()):
                if w.handle_of(c, create=False) is None:
                    live[w.handle_of(c)] = c
    heap = []
    shadow = {}
    for h in sorted(live):
        o = live[h]
        d = o.__dict__
        und = d.get("_underlying")
        fp = d.get("_fp")
        if type(fp) is not int:
            # no memo, or a memo in a representation this abstraction function does not know (then the
            # state-level comparison may disagree; the behavioural oracle C16-stale still decides the property)
            fp = None
        fpt = "None" if fp is None else f"(Some {cz(int(fp))})"
        if isinstance(o, Table):
            cols = [w.handle_of(c) for c in und]
            heap.append(f"({cnat(h)}, OT (mkTab {clist(cnat(c) for c in cols)} {cnat(w.sid(und))} "
                        f"{copt(None if o._name is None else cnat(w.name_tok(o._name)))} {fpt}))")
            shadow[h] = ("T", tuple(cols))
        else:
            heap.append(f"({cnat(h)}, OV (mkVec {_vals(w, und)} {cnat(w.sid(und))} "
                        f"{copt(None if o._name is None else cnat(w.name_tok(o._name)))} {_dtype(w, o._dtype)} {fpt}))")
            shadow[h] = ("V", tuple((type(x).__name__, x) for x in und), o._name, repr(o._dtype))
    reg = []
    for tid, refs in _ALIAS_TRACKER._registry.items():
        hs = []
        for r in refs:
            o = r()
            if o is not None:
                hh = w.handle_of(o, create=False)
                if hh is None:
                    w.findings.append(f"HARNESS-untracked: live {type(o).__name__} len {len(o.__dict__.get('_underlying', ()))} "
                                      f"registered under storage {tid} is unknown to the harness")
                hs.append(4999 if hh is None else hh)
        if hs:
            if tid not in w.sidmap:
                w.sidmap[tid] = len(w.sidmap)
            reg.append(f"({cnat(w.sidmap[tid])}, {clist(cnat(x) for x in hs)})")
    now = {w.sid(o.__dict__.get("_underlying")) for o in live.values()} - {0}
    w.retired |= (w.cur_sids - now)
    back = (now - w.cur_sids) & w.retired
    if back:
        w.stats["reuse"] += len(back)       # a freed storage identity was handed out again
        w.retired -= back
    w.cur_sids = now
    return f"(mkSt {clist(heap)} {clist(reg)})", shadow, live


def oracle_tables(w, live):
    """C02: every live table is rectangular; shape; row views agree with column views."""
    from serif import Table
    for h, o in live.items():
        if not isinstance(o, Table):
            continue
        w.stats["tables"] += 1
        cols = o.__dict__["_underlying"]
        lens = [len(c.__dict__["_underlying"]) for c in cols]
        if len(set(lens)) > 1:
            w.findings.append(f"C02-ragged: table h{h} has column lengths {lens}")
            continue
        n = lens[0] if lens else 0
        if n == 0 or not cols:
            w.stats["zero_tables"] += 1
        try:
            if len(o) != n:
                w.findings.append(f"C02-len: len(table)={len(o)} but columns have {n} rows")
            if cols and tuple(o.shape) != (n, len(cols)):
                w.findings.append(f"C02-shape: shape {o.shape} for {n} rows x {len(cols)} columns")
            # all rows are OBTAINED first and only then read: a row the program holds must not change when
            # another row of the same table is looked at (indexing returns a new object; C01)
            held_rows = [o[i] for i in range(n)] if cols else []
            rows_idx = [tuple(r) for r in held_rows]
            del held_rows
            now_rows = [tuple(o[i]) for i in range(n)] if cols else []
            if not _same(rows_idx, now_rows):
                w.findings.append(f"C01-held-row: rows obtained by t[i] and held show {rows_idx}, read one at a time "
                                  f"they show {now_rows}: looking at one row changed a row the program already held")
            rows_it = [tuple(r) for r in o] if cols else []
            # ... and read as VECTORS (slice / copy of the row view), the way a loop body uses them
            rows_vec = [tuple(r[:]) for r in o] if cols else []
            rows_cp = [tuple(r.copy()) for r in o] if cols else []
            if cols and (not _same(rows_vec, rows_it) or not _same(rows_cp, rows_it)):
                w.findings.append(f"C02-rowview: iterated rows read cell by cell give {rows_it}, as vectors (row[:], "
                                  f"row.copy()) they give {rows_vec} / {rows_cp}")
            want = [tuple(c.__dict__["_underlying"][i] for c in cols) for i in range(n)]
            if cols and (not _same(rows_idx, want) or not _same(rows_it, want)):
                w.findings.append(f"C02-rowview: rows {rows_idx} / {rows_it} vs columns {want}")
        except Exception as e:     # noqa: BLE001
            w.findings.append(f"C02-rowview-raises: {type(e).__name__}: {e}"[:200])


def _same(a, b):
    return [[(type(x).__name__, x) for x in r] for r in a] == [[(type(x).__name__, x) for x in r] for r in b]


def sharers(obj):
    """Other live Vector objects whose storage IS obj's storage (independent of the harness's bookkeeping)."""
    from serif import Vector
    from serif.table import Row
    tup = obj.__dict__.get("_underlying")
    out = []
    for x in gc.get_objects():
        if isinstance(x, Vector) and not isinstance(x, Row) and x is not obj:
            if x.__dict__.get("_underlying") is tup:
                out.append(x)
    return out


def fresh_fp(o):
    from serif import Table, Vector
    if isinstance(o, Table):
        return Table([Vector(list(c), name=c._name) for c in o.__dict__["_underlying"]]).fingerprint() \
            if o.__dict__["_underlying"] else Table().fingerprint()
    return Vector(list(o.__dict__["_underlying"])).fingerprint()


def _exec(w, pop, changed_ok):
    """Executes one program operation on the real objects; returns (model op term, outcome term).
    A function of its own so that no local variable keeps an object alive after the step."""
    from serif import AliasError, Table, Vector
    op_term, out_term = None, "Ok"
    kind = pop[0]
    if True:
        if kind == "newvec":
            _, vals, name, shared = pop
            if shared is not None:
                tup = w.tuples[shared % len(w.tuples)]
                v = Vector(tup, name=name)
                vals = list(tup)
            else:
                v = Vector(list(vals), name=name)
            h = w.handle_of(v)
            w.held.append(v)
            nt = w.name_tok(name)
            op_term = (f"ONewVec {cnat(h)} (CLit {_vals(w, vals)} {copt(None if nt is None else cnat(nt))}) None "
                       f"{cnat(w.sid(v._underlying))}")
        elif kind == "newtab_dict":
            d = {}
            specs = []
            for name, vals in pop[1]:
                if name in d:
                    continue
                if len(vals) == 2 and vals[0] == "tup":
                    d[name] = w.tuples[vals[1] % len(w.tuples)]
                    vals = list(d[name])
                else:
                    d[name] = list(vals)
                specs.append((name, vals))
            hs = w.reserve(len(specs) + 1)
            try:
                t = Table(d)
            except Exception:          # ragged input refused
                op_term = _newtab(w, hs[-1], [f"(CLit {_vals(w, v)} (Some {cnat(w.name_tok(n))}))" for n, v in specs],
                                  hs[:-1], [0] * len(specs), 0)
                out_term = "ErrOther"
                w.stats["failed_ops"] += 1
            else:
                cols = t.__dict__["_underlying"]
                chs = [w.handle_of(c) for c in cols]
                ht = w.handle_of(t)
                w.held.append(t)
                op_term = _newtab(w, ht, [f"(CLit {_vals(w, v)} (Some {cnat(w.name_tok(n))}))" for n, v in specs],
                                  chs, [w.sid(c._underlying) for c in cols], w.sid(cols))
        elif kind == "newtab_vecs":
            vs = [w.slot(i, "v") for i in pop[1]]
            specs = [f"(CFrom {cnat(w.handle_of(v))} None)" for v in vs]
            hs = w.reserve(len(vs) + 1)
            try:
                t = Table(vs)
            except Exception:
                op_term = _newtab(w, hs[-1], specs, hs[:-1], [0] * len(vs), 0)
                out_term = "ErrOther"
                w.stats["failed_ops"] += 1
            else:
                op_term = _table_result(w, t, specs)
        elif kind == "copy":
            o = w.slot(pop[1])
            if isinstance(o, Table):
                cols = o.__dict__["_underlying"]
                if not cols:
                    raise Skip()
                r = o.copy()
                op_term = _table_result(w, r, [f"(CFrom {cnat(w.handle_of(c))} None)" for c in cols])
            else:
                r = o.copy()
                op_term = _vec_result(w, r, f"(CFrom {cnat(w.handle_of(o))} None)")
        elif kind in ("fillna", "dropna"):
            # "nothing to fill / nothing to drop": the result holds the same values - and must still be a new
            # vector with storage of its own
            o = w.slot(pop[1], "v")
            d = o.__dict__
            if isinstance(o, Table) or d.get("_dtype") is None or d["_dtype"].nullable or d["_dtype"].kind is object \
                    or any(x is None for x in d["_underlying"]):
                raise Skip()
            r = o.fillna(0) if kind == "fillna" else o.dropna()
            if not isinstance(r, Vector) or isinstance(r, Table) or r._name != o._name:
                raise Skip()
            op_term = _vec_result(w, r, f"(CFrom {cnat(w.handle_of(o))} None)")
        elif kind == "fillna_w":
            # fillna with a value of a WIDER kind (a float into an int vector): a new, promoted vector - the
            # operand keeps its contents and its dtype
            o = w.slot(pop[1], "v")
            d = o.__dict__
            if isinstance(o, Table) or d.get("_dtype") is None or d["_dtype"].kind is not int or not d["_underlying"]:
                raise Skip()
            r = o.fillna(4.0)
            if not isinstance(r, Vector) or isinstance(r, Table):
                raise Skip()
            nt = w.name_tok(r._name)
            op_term = _vec_result(w, r, f"(CRes {_vals(w, r._underlying)} {copt(None if nt is None else cnat(nt))})")
        elif kind == "vcat":
            o = w.slot(pop[1], "v")
            if o._dtype is None and not pop[2]:
                raise Skip()
            r = o << list(pop[2])
            if isinstance(r, Table) or not isinstance(r, Vector):
                raise Skip()
            op_term = _vec_result(w, r, f"(CCat {cnat(w.handle_of(o))} {_vals(w, pop[2])})")
        elif kind in ("slice", "mask", "rowidx"):
            o = w.slot(pop[1])
            n = len(o) if not isinstance(o, Table) else (len(o._underlying[0]) if o._underlying else 0)
            if kind == "slice":
                key = slice(pop[2], pop[3], pop[4])
                idx = list(range(n))[key]
            elif kind == "rowidx":
                if n == 0:
                    raise Skip()
                idx = [(i % n) if i >= 0 else n - 1 - ((-i - 1) % n) for i in pop[2]]
                key = [j if i >= 0 else j - n for i, j in zip(pop[2], idx)]            # negatives stay negatives, in range
                if pop[3]:
                    key = Vector(key)
            else:
                bits = [pop[2][i % len(pop[2])] for i in range(n)]
                key = [bool(b) for b in bits]
                idx = [i for i, b in enumerate(key) if b]
                if n == 0:
                    raise Skip()
            sel = f"(Some {clist(cnat(i) for i in idx)})"
            if isinstance(o, Table):
                cols = o.__dict__["_underlying"]
                if not cols:
                    raise Skip()
                expect = [[c.__dict__["_underlying"][i] for i in idx] for c in cols]
                r = o[key]
                del key
                if not isinstance(r, Table):
                    raise Skip()
                op_term = _table_result(w, r, [f"(CFrom {cnat(w.handle_of(c))} {sel})" for c in cols], expect=expect,
                                        what=f"the {kind} selection of rows {idx}")
            else:
                r = o[key]
                del key
                op_term = _vec_result(w, r, f"(CFrom {cnat(w.handle_of(o))} {sel})")
        elif kind == "colview":
            t = w.slot(pop[1], "t")
            cols = t.__dict__["_underlying"]
            if not cols:
                raise Skip()
            c = cols[pop[2] % len(cols)]
            via = pop[2] % 3
            got = t.cols()[pop[2] % len(cols)] if via == 0 else (t[c._name] if c._name is not None and via == 1 else c)
            w.held.append(got)
            op_term = f"ORead {cnat(w.handle_of(got))}"
        elif kind == "sel2d":
            t = w.slot(pop[1], "t")
            cols = t.__dict__["_underlying"]
            if not cols:
                raise Skip()
            n = len(cols[0])
            key = slice(*pop[2])
            idx = list(range(n))[key]
            sel = f"(Some {clist(cnat(i) for i in idx)})"
            first = {}
            for c in cols:
                first.setdefault(c._name, c)
            if isinstance(pop[3], int):
                c = cols[pop[3] % len(cols)]
                if pop[4] and c._name is not None:
                    c = first[c._name]
                    r = t[key, c._name]
                else:
                    r = t[key, pop[3] % len(cols)]
                if isinstance(r, Table) or not isinstance(r, Vector):
                    raise Skip()
                op_term = _vec_result(w, r, f"(CFrom {cnat(w.handle_of(c))} {sel})")
            else:
                picked = [cols[i % len(cols)] for i in pop[3]]
                if any(c._name is None for c in picked):
                    raise Skip()
                picked = [first[c._name] for c in picked]
                expect = [[c.__dict__["_underlying"][i] for i in idx] for c in picked]
                r = t[key, tuple(c._name for c in picked)]
                if not isinstance(r, Table):
                    raise Skip()
                op_term = _table_result(w, r, [f"(CFrom {cnat(w.handle_of(c))} {sel})" for c in picked], expect=expect,
                                        what=f"t[rows {idx}, {tuple(c._name for c in picked)!r}] (a repeated name denotes its first column)")
        elif kind == "selcols":
            t = w.slot(pop[1], "t")
            cols = t.__dict__["_underlying"]
            if not cols:
                raise Skip()
            sel = [cols[i % len(cols)] for i in pop[2]]
            forms = pop[3] if len(pop) > 3 else [False] * len(sel)
            # string selection resolves a repeated name to its first occurrence; an advertised accessor denotes its own column
            first = {}
            for c in cols:
                first.setdefault(c._name, c)
            keys, sel2 = [], []
            for c, by_accessor in zip(sel, forms):
                acc = [a for a in dir(t) if not a.startswith("_") and a != c._name and getattr(type(t), a, None) is None
                       and getattr(t, a, None) is c] if by_accessor else []
                if acc:
                    keys.append(sorted(acc)[0])
                    sel2.append(c)
                    w.stats["sel_by_accessor"] = w.stats.get("sel_by_accessor", 0) + 1
                elif isinstance(c._name, str):
                    keys.append(c._name)
                    sel2.append(first[c._name])
                else:
                    raise Skip()
            sel = sel2
            expect = [list(c.__dict__["_underlying"]) for c in sel]
            r = t[tuple(keys)]
            op_term = _table_result(w, r, [f"(CFrom {cnat(w.handle_of(c))} None)" for c in sel], expect=expect,
                                    what=f"t[{tuple(keys)!r}] (a repeated name denotes its first column, as t[name] does)")
        elif kind == "stack":
            t = w.slot(pop[1], "t")
            cols = t.__dict__["_underlying"]
            if not cols:
                raise Skip()
            specs = [f"(CFrom {cnat(w.handle_of(c))} None)" for c in cols]
            what = pop[2]
            if what[0] == "slot":
                o2 = w.slot(what[1])
                if isinstance(o2, Table):
                    specs += [f"(CFrom {cnat(w.handle_of(c))} None)" for c in o2.__dict__["_underlying"]]
                else:
                    specs.append(f"(CFrom {cnat(w.handle_of(o2))} None)")
                arg = o2
            elif what[0] == "lit":
                specs.append(f"(CLit {_vals(w, what[1])} None)")
                arg = list(what[1])
            elif what[0] == "dictslot":                  # t >> {name: <a vector the program holds>}
                o2 = w.slot(what[2], "v")
                specs.append(f"(CFromAs {cnat(w.handle_of(o2))} (Some {cnat(w.name_tok(what[1]))}))")
                arg = {what[1]: o2}
            else:
                specs.append(f"(CLit {_vals(w, what[2])} (Some {cnat(w.name_tok(what[1]))}))")
                arg = {what[1]: list(what[2])}
            hs = w.reserve(len(specs) + 1)
            try:
                r = t >> arg
            except Exception:
                op_term = _newtab(w, hs[-1], specs, hs[:-1], [0] * len(specs), 0)
                out_term = "ErrOther"
                w.stats["failed_ops"] += 1
            else:
                if isinstance(r, Table):
                    op_term = _table_result(w, r, specs)
                else:
                    # a column of another length is not stored: the result is not a table at all
                    del r
                    op_term = _newtab(w, hs[-1], specs, hs[:-1], [0] * len(specs), 0)
                    out_term = "ErrOther"
                    w.stats["failed_ops"] += 1
        elif kind == "append":
            t = w.slot(pop[1], "t")
            t2 = w.slot(pop[2], "t")
            c1, c2 = t.__dict__["_underlying"], t2.__dict__["_underlying"]
            if not c1 or len(c1) != len(c2):
                raise Skip()
            specs = [f"(CCat {cnat(w.handle_of(a))} {_vals(w, b._underlying)})" for a, b in zip(c1, c2)]
            from serif.errors import SerifTypeError
            try:
                r = t << t2
            except SerifTypeError:                           # two typesafe columns of different kinds: refused
                raise Skip()
            if not isinstance(r, Table):
                raise Skip()
            op_term = _table_result(w, r, specs)
        elif kind in ("transpose", "sort", "math", "join", "window"):
            o = w.slot(pop[1])
            if kind == "window":
                if not isinstance(o, Table) or not o._underlying or len(o) == 0:
                    raise Skip()
                kc = o._underlying[pop[2] % len(o._underlying)]
                if kc._dtype is None or kc._dtype.kind not in (int, str) or any(type(x) is float for x in kc._underlying):
                    raise Skip()
                r = o.window(over=kc, count_over=kc) if pop[2] % 2 else o.window(over=kc._name if kc._name is not None else kc,
                                                                                  count_over=kc)
            elif kind == "join":
                o2 = w.slot(pop[2], "t")
                if not isinstance(o, Table) or not o._underlying or not o2._underlying:
                    raise Skip()
                k1, k2 = o._underlying[0], o2._underlying[0]
                if k1._dtype is None or k2._dtype is None or k1._dtype.kind is not int or k2._dtype.kind is not int:
                    raise Skip()
                want = pop[4] if len(pop) > 4 else "many_to_many"
                try:
                    r = getattr(o, pop[3])(o2, k1, k2) if want is None else getattr(o, pop[3])(o2, k1, k2, expect=want)
                except ValueError:                           # the keys do not meet the expectation: join without one
                    r = getattr(o, pop[3])(o2, k1, k2, expect="many_to_many")
            elif kind == "transpose" and not isinstance(o, Table):
                # v.T of a 1-D vector: the same cells shown the other way round - a derived vector like a copy
                r = o.T
                if isinstance(r, Table) or not isinstance(r, Vector):
                    raise Skip()
                return _vec_result(w, r, f"(CFrom {cnat(w.handle_of(o))} None)"), "Ok"
            elif kind == "transpose":
                if not isinstance(o, Table) or not o._underlying or len(o) == 0:
                    raise Skip()
                r = o.T
            elif kind == "sort":
                if isinstance(o, Table):
                    if not o._underlying or any(type(x) is not int for x in o._underlying[0]):
                        raise Skip()
                    r = o.sort_by(o._underlying[0])
                else:
                    if any(type(x) is float for x in o):
                        raise Skip()
                    r = o.sort_by()
            else:
                if isinstance(o, Table) and not o._underlying:
                    raise Skip()
                r = o + 1
            if isinstance(r, Table):
                cols = r.__dict__["_underlying"]
                ctor = "CRes" if kind == "math" else "CLit"
                specs = [f"({ctor} {_vals(w, c._underlying)} {copt(None if c._name is None else cnat(w.name_tok(c._name)))})"
                         for c in cols]
                op_term = _table_result(w, r, specs, lit_dtypes=True)
            elif isinstance(r, Vector):
                if kind == "sort":
                    # Vector.sort_by keeps the operand's dtype (not re-inferred): model as a permutation
                    perm = _perm(list(o._underlying), list(r._underlying))
                    op_term = _vec_result(w, r, f"(CFrom {cnat(w.handle_of(o))} (Some {clist(cnat(i) for i in perm)}))")
                else:
                    nt = w.name_tok(r._name)
                    op_term = _vec_result(w, r, f"(CRes {_vals(w, r._underlying)} {copt(None if nt is None else cnat(nt))})")
            else:
                raise Skip()
        elif kind == "setv":
            o = w.slot(pop[1], "v")
            op_term, out_term = _do_setv(w, o, pop[2], pop[3], changed_ok)
        elif kind == "sett":
            t = w.slot(pop[1], "t")
            op_term, out_term = _do_sett(w, t, pop[2], changed_ok)
        elif kind == "setattr":
            t = w.slot(pop[1], "t")
            op_term, out_term = _do_setattr(w, t, pop[2], pop[3], changed_ok,
                                            indexed=(pop[4] if len(pop) > 4 else (pop[1] + pop[2]) % 3 == 0))
        elif kind == "rename":
            o = w.slot(pop[1])
            if isinstance(o, Table):
                raise Skip()
            o.name = pop[2]
            h = w.handle_of(o)
            changed_ok.add(h)
            op_term = f"ORename {cnat(h)} (Some {cnat(w.name_tok(pop[2]))})"
        elif kind == "fp":
            o = w.slot(pop[1])
            h = w.handle_of(o)
            x = o.fingerprint()
            w.stats["fp_calls"] += 1
            want = fresh_fp(o)
            if x != want:
                w.findings.append(f"C16-stale: fingerprint() of h{h} returned {x}, a fresh object with the same "
                                  f"contents gives {want}")
            cont = _contents(o)
            if h in w.fp_before:
                x0, c0 = w.fp_before[h]
                diffs = _diffs(c0, cont)
                if diffs is None or any(_pyhash(a) != _pyhash(b) for a, b in diffs):
                    # some element changed to a value Python's own hash() tells apart
                    w.stats["fp_after_write"] += 1
                    # C16 promises that A write changing AN element to an unequal value is noticed.  When several elements
                    # differ between the two reads (several writes, or one write of several cells) their contributions may
                    # cancel - two cells on an anti-diagonal of a table exchanging their values do (DESIGN section 11,
                    # observations): different contents with equal fingerprints, which no hash can exclude and the property
                    # does not.  The clause therefore speaks when exactly ONE element differs (or the shape does).
                    if x0 == x and (diffs is None or len(diffs) == 1):
                        kf = diffs is not None and all((_pyhash(a) - _pyhash(b)) % P61 == 0 for a, b in diffs)
                        w.findings.append(("C16-insensitive-KF1: " if kf else "C16-insensitive: ") + _insens(c0, cont))
                elif not diffs and x0 != x:
                    w.findings.append(f"C16-unstable: fingerprint of unchanged h{h} went {x0} -> {x}")
            w.fp_before[h] = (x, cont)
            op_term, out_term = f"OFp {cnat(h)}", f"(OkFp {cz(int(x))})"
        elif kind == "read":
            o = w.slot(pop[1])
            repr(o)
            list(o)
            if len(o):
                r0 = o[0]
                if isinstance(o, Table) and o.__dict__["_underlying"] and len(w.held_rows) < 4:
                    # the program keeps this row: whatever is written later - through the table, through a column
                    # view - a row the program already holds still shows what it showed
                    w.held_rows.append((r0, [(type(x).__name__, x) for x in r0]))
                del r0
                if not isinstance(o, Table):
                    (o == o).any()
                    o.sum()
            op_term = f"ORead {cnat(w.handle_of(o))}"
        elif kind in ("drop", "cycle_drop"):
            if len(w.held) <= 1:
                raise Skip()
            i = pop[1] % len(w.held)
            o = w.held.pop(i)
            if kind == "cycle_drop" and w.delay_gc and not any(x is o for x in w.held):
                object.__setattr__(o, "_verif_cycle", o)     # keeps it alive until gc.collect()
            # a plain vector the program has just let go of - held nowhere else, a column / an element of nothing it holds - is
            # gone at once (reference counting): if it is still alive, something INSIDE the library holds it, and it goes on
            # counting as a sharer of its storage although the program can no longer reach it
            must_die = (kind == "drop" and isinstance(o, Vector) and not isinstance(o, Table)
                        and not any(x is o for x in w.held)
                        and not any(x is not o and any(c is o for c in x.__dict__.get("_underlying", ()))
                                    for x in w.live().values())             # (live tables / nested vectors, held or awaiting collection)
                        and not any(r is o for r, _ in w.held_rows) and "_verif_cycle" not in o.__dict__)
            wr = weakref.ref(o) if must_die else None
            h_o = w.handle_of(o, create=False)
            del o
            if wr is not None and wr() is not None:
                w.findings.append(f"C15-kept-alive: the vector h{h_o} was dropped by the program (nothing the program holds refers to "
                                  f"it) but is still alive: the library itself keeps it, so it still counts as a sharer of its storage "
                                  f"and writes to its former partners are refused until a garbage collection happens to run")
            del wr
            op_term = "OCollect []"
        elif kind == "gc":
            gc.collect()
            op_term = "OCollect []"
        else:
            raise Skip()
    return op_term, out_term


def run_program(prog, delay_gc=True):
    import serif
    from serif import AliasError, Table, Vector
    from serif.errors import SerifTypeError
    gc.collect()
    gc.disable()                # collection happens only where the program says (deterministic replays)
    w = World()
    w.delay_gc = delay_gc
    for pop in prog:
        _, shadow0, _live0 = snapshot_state(w)
        del _live0                  # keep no strong reference across the operation
        changed_ok = set()        # handles whose view may legitimately change in this op
        kind = pop[0]
        try:
            op_term, out_term = _exec(w, pop, changed_ok)
            if op_term is None:
                raise Skip()
        except Skip:
            continue
        except Exception as e:      # noqa: BLE001  — an operation the generator did not expect to fail
            w.findings.append(f"HARNESS-unexpected: {kind} raised {type(e).__name__}: {e}"[:300])
            break
        w.stats["ops"] += 1
        state_term, shadow1, live1 = snapshot_state(w)
        died = sorted(h for h in shadow0 if h not in shadow1)
        w.stats["collected"] += len(died)
        for h in died:
            w.fp_before.pop(h, None)
        # ---- C01 oracle: nothing but the written object (and the table holding it) changed
        allowed = set(changed_ok)
        for h, sh in shadow1.items():
            if sh[0] == "T" and any(c in changed_ok for c in sh[1]):
                allowed.add(h)
        for h, sh in shadow0.items():
            if h in shadow1 and h not in allowed:
                if _view(shadow0, h) != _view(shadow1, h):
                    w.findings.append(f"C01-leak: {kind} changed object h{h} that it must not touch: "
                                      f"{_view(shadow0, h)} -> {_view(shadow1, h)}")
        oracle_tables(w, live1)
        # ---- C15 oracle: whatever the library builds itself (copies, slices, masks, results, table columns) shares
        # storage with no other live vector - only Vector(T) over a caller-supplied tuple may share
        for r0, cells in w.held_rows:
            now = [(type(x).__name__, x) for x in r0]
            if now != cells:
                w.findings.append(f"C01-held-row: a row the program obtained earlier showed {cells}; after {kind} it shows "
                                  f"{now} (a row is a vector the program holds: later writes must not reach it)")
                w.held_rows = []
                break
        o1 = None
        if not (kind == "newvec" and pop[3] is not None):
            for h, o1 in live1.items():
                if h in shadow0 or isinstance(o1, Table):
                    continue
                und = o1.__dict__.get("_underlying")
                if und:                                        # the empty tuple is one interpreter-wide object
                    others = sharers(o1)
                    if others:
                        w.findings.append(f"C15-derived-shares: the {type(o1).__name__} produced by {kind} ({list(und)!r}) "
                                          f"shares its storage tuple with {len(others)} other live vector(s): a write "
                                          f"to either is refused although the program never built them over one tuple")
        del o1
        share = kind == "newvec" and pop[3] is not None       # Vector(caller tuple): the one op that may share
        w.steps.append(f"mkT ({op_term}) {cbool(share)} {clist(cnat(h) for h in died)} {out_term} {state_term}")
        del live1
        if w.unsupported:
            break
    res = {"steps": w.steps, "findings": w.findings, "stats": w.stats, "unsupported": w.unsupported,
           "nsteps": len(w.steps)}
    # teardown so the next trace starts from an empty world
    w.held.clear()
    w.held_rows.clear()
    w.refs.clear()
    del w
    gc.enable()
    gc.collect()
    return res


def _perm(src, dst):
    used, out = set(), []
    for x in dst:
        for i, y in enumerate(src):
            if i not in used and type(x) is type(y) and x == y:
                used.add(i)
                out.append(i)
                break
    return out


def _contents(o):
    from serif import Table
    if isinstance(o, Table):
        return tuple(tuple((type(x).__name__, x) for x in c.__dict__["_underlying"]) for c in o.__dict__["_underlying"])
    return tuple((type(x).__name__, x) for x in o.__dict__["_underlying"])


def _pyhash(tv):
    x = tv[1]
    return 0x9E3779B97F4A7C15 if x is None else hash(x)


def _diffs(c0, c1):
    """pairs (old, new) of elements that differ (by type or value); None when the shapes differ."""
    if c0 and isinstance(c0[0], tuple) and c0[0] and isinstance(c0[0][0], tuple):      # table contents
        if len(c0) != len(c1):
            return None
        out = []
        for a, b in zip(c0, c1):
            d = _diffs(a, b)
            if d is None:
                return None
            out += d
        return out
    if len(c0) != len(c1):
        return None
    return [(a, b) for a, b in zip(c0, c1) if a != b]


def _insens(c0, c1):
    return f"contents changed {c0} -> {c1} but fingerprint() did not"


def _view(shadow, h):
    sh = shadow[h]
    if sh[0] == "V":
        return sh
    return ("T", tuple(_view(shadow, c) if c in shadow else None for c in sh[1]))


def _newtab(w, ht, specs, chs, sids, tsid):
    return (f"ONewTab {cnat(ht)} {clist(specs)} {clist(cnat(h) for h in chs)} "
            f"{clist(cnat(s) for s in sids)} {cnat(tsid)}")


def _known(w, obj):
    """the handle of an object the program already knows (held, or a column of a held table), else None"""
    return w.handle_of(obj, create=False)


def _same_cells(a, b):
    return len(a) == len(b) and all(type(x) is type(y) and (x == y or (x != x and y != y)) for x, y in zip(a, b))


def _table_result(w, t, specs, lit_dtypes=False, expect=None, what=""):
    cols = t.__dict__["_underlying"]
    if expect is not None:
        got = [list(c.__dict__["_underlying"]) for c in cols]
        if len(got) != len(expect) or not all(_same_cells(g, e) for g, e in zip(got, expect)):
            w.findings.append(f"C02-cells: {what} must hold the cells of the columns it names / the rows it selects, uniformly: "
                              f"expected columns {expect!r}, the result holds {got!r}")
    old = [(j, _known(w, c)) for j, c in enumerate(cols)]
    if _known(w, t) is not None:
        w.findings.append(f"C01-result-is-operand: the operation returned the table object h{_known(w, t)} the program already "
                          f"holds instead of a new table (a write through either is a write to both)")
    for j, h in old:
        if h is not None:
            w.findings.append(f"C01-result-is-operand: column {j} of the table the operation returned IS the existing vector "
                              f"h{h} (a live column of / a vector handed to the operation): a write, rename or promotion "
                              f"through either shows through the other")
    chs = [w.handle_of(c) for c in cols]
    ht = w.handle_of(t)
    w.held.append(t)
    if len(specs) != len(cols):
        # the model will allocate len(specs) columns: pad so that the mismatch is visible, not a crash
        chs = (chs + w.reserve(len(specs)))[:len(specs)]
    sids = [w.sid(c.__dict__["_underlying"]) for c in cols]
    sids = (sids + [0] * len(specs))[:len(specs)]
    return _newtab(w, ht, specs, chs, sids, w.sid(cols))


def _vec_result(w, r, spec):
    if _known(w, r) is not None:
        w.findings.append(f"C01-result-is-operand: the operation returned the existing vector h{_known(w, r)} (a live column "
                          f"of a table / an operand) instead of a new vector: a write, rename or promotion through either "
                          f"shows through the other")
    h = w.handle_of(r)
    w.held.append(r)
    return f"ONewVec {cnat(h)} {spec} None {cnat(w.sid(r.__dict__['_underlying']))}"


def _resolve_updates(n, key, val):
    """Python list-assignment semantics -> update list, or None when the assignment is invalid."""
    k = key[0]
    if k == "int":
        i = key[1]
        if i < 0:
            i += n
        if not 0 <= i < n:
            return None
        idx = [i]
        scalar_only = True
    elif k == "slice":
        idx = list(range(n))[slice(key[1], key[2], key[3])]
        scalar_only = False
    elif k == "mask":
        if len(key[1]) != n:
            return None
        idx = [i for i, b in enumerate(key[1]) if b]
        scalar_only = False
    else:
        idx = []
        for i in key[1]:
            if i < 0:
                i += n
            if not 0 <= i < n:
                return None
            idx.append(i)
        scalar_only = False
    if val[0] == "s":
        return [(i, val[1]) for i in idx]
    if scalar_only:
        return "seq-into-cell"
    if len(val[1]) != len(idx):
        return None
    return list(zip(idx, val[1]))


def _pykey(key):
    k = key[0]
    if k == "int":
        return key[1]
    if k == "slice":
        return slice(key[1], key[2], key[3])
    return list(key[1])


def _do_setv(w, o, key, val, changed_ok):
    from serif import AliasError
    n = len(o.__dict__["_underlying"])
    if key[0] == "mask":
        key = ["mask", [key[1][i % len(key[1])] for i in range(n)] if (len(key[1]) != n + 1 and key[1]) else key[1]]
        if n == 0 or not key[1]:
            raise Skip()
    keyobj = None
    if key[0] == "idxslot":
        # the key is an int VECTOR THE PROGRAM HOLDS (possibly a live column of some table): a write must not
        # change its key operand either
        kv = w.slot(key[1], "v")
        kd = kv.__dict__
        if kd.get("_dtype") is None or kd["_dtype"].kind is not int or kd["_dtype"].nullable \
                or not kd["_underlying"] or any(type(x) is not int or not -n <= x < n for x in kd["_underlying"]):
            raise Skip()
        keyobj = kv
        key = ["idx", list(kd["_underlying"])]
    if key[0] == "idx" and not key[1]:
        raise Skip()
    ups = _resolve_updates(n, key, val)
    if ups == "seq-into-cell":
        raise Skip()
    h = w.handle_of(o)
    others = sharers(o)
    w.stats["shared_now"] += bool(others)
    pyval = val[1] if val[0] == "s" else list(val[1])
    try:
        o[keyobj if keyobj is not None else _pykey(key)] = pyval
    except AliasError:
        w.stats["writes_alias"] += 1
        if not others or not n:
            w.findings.append(f"C15-spurious: write to h{h} refused with AliasError although no other live vector "
                              f"shares its storage (len {n})")
        us = ups if ups else []
        return (f"OSetV {cnat(h)} {clist('(%s, %s)' % (cnat(i), _enc_val(w, v)) for i, v in us)} 0", "ErrAlias")
    except Exception as e:      # noqa: BLE001
        w.stats["failed_ops"] += 1
        if ups is not None:
            from serif.errors import SerifTypeError
            if isinstance(e, SerifTypeError):
                return (f"OSetV {cnat(h)} {clist('(%s, %s)' % (cnat(i), _enc_val(w, v)) for i, v in ups)} 0", "ErrType")
            w.findings.append(f"C08-rejects-valid: v[{key}] = {val} raised {type(e).__name__}: {e}"[:200])
        return (f"OFailWrite {cnat(h)}", "ErrOther")
    w.stats["writes_ok"] += 1
    changed_ok.add(h)
    if ups is None:
        w.findings.append(f"C08-accepts-invalid: v[{key}] = {val} on length {n} was accepted")
        ups = []
    return (f"OSetV {cnat(h)} {clist('(%s, %s)' % (cnat(i), _enc_val(w, v)) for i, v in ups)} "
            f"{cnat(w.sid(o.__dict__['_underlying']))}", "Ok")


def _do_sett(w, t, spec, changed_ok):
    from serif import AliasError
    cols = t.__dict__["_underlying"]
    if not cols:
        raise Skip()
    n = len(cols[0].__dict__["_underlying"])
    ht = w.handle_of(t)
    k = spec[0]
    writes = []          # (col index, updates)
    if k == "cell":
        ri, ci = spec[1], spec[2] % len(cols)
        key = (ri, ci)
        r = ri + n if ri < 0 else ri
        ok = 0 <= r < n
        writes = [(ci, [(r, spec[3])])] if ok else None
        val = spec[3]
    elif k == "row":
        ri = spec[1]
        vals = (spec[2] * 4)[:len(cols)]
        key = (ri, slice(None))
        r = ri + n if ri < 0 else ri
        ok = 0 <= r < n
        writes = [(ci, [(r, v)]) for ci, v in enumerate(vals)] if ok else None
        val = list(vals)
    elif k == "colslice":
        ci = spec[1] % len(cols)
        key = (slice(None), ci)
        writes = [(ci, [(i, spec[2]) for i in range(n)])]
        val = spec[2]
    elif k == "rowbad":
        ri = spec[1]
        vals = list(spec[2])
        if len(vals) == len(cols):
            vals = vals + [0]
        key = (ri, slice(None))
        writes = None
        val = vals
    elif k == "fromtab":
        from serif import Table
        src = w.slot(spec[1], "t")
        scols = src.__dict__["_underlying"]
        m = len(scols[0].__dict__["_underlying"]) if scols else 0
        if src is t or not scols or len(scols) != len(cols) or not 0 < m <= n:
            raise Skip()
        key = (slice(0, m), slice(None))
        writes = [(ci, [(i, scols[ci].__dict__["_underlying"][i]) for i in range(m)]) for ci in range(len(cols))]
        val = src
    elif k == "colvals":
        ci = spec[1] % len(cols)
        key = (slice(None), ci) if len(spec[2]) % 2 else (slice(None), cols[ci]._name if isinstance(cols[ci]._name, str) and
                                                           [c._name for c in cols].count(cols[ci]._name) == 1 and
                                                           cols[ci]._name.isidentifier() else ci)
        writes = [(ci, [(i, v) for i, v in enumerate(spec[2])])] if len(spec[2]) == n else None
        val = list(spec[2])
    else:
        key = (slice(0, 2), slice(None))
        writes = [(ci, [(i, spec[1]) for i in range(min(2, n))]) for ci in range(len(cols))]
        val = spec[1]
    for c in cols:
        w.stats["shared_now"] += bool(sharers(c))
    cells_before = [tuple(c.__dict__["_underlying"]) for c in cols]
    try:
        t[key] = val
    except AliasError:
        w.stats["writes_alias"] += 1
        # the columns before the refusing one have been written (documented reading note, DESIGN C08)
        ws = []
        for ci, us in (writes or []):
            c = cols[ci]
            changed_ok.add(w.handle_of(c))
            ws.append((ci, us, w.sid(c.__dict__["_underlying"])))
        culprit = [c for ci, _ in (writes or []) for c in [cols[ci]] if sharers(c)]
        if not culprit:
            w.findings.append(f"C15-spurious: table write {spec} refused with AliasError although no written column "
                              f"shares storage with another live vector")
        return (_sett_term(w, ht, ws), "ErrAlias")
    except Exception as e:      # noqa: BLE001
        w.stats["failed_ops"] += 1
        if writes is not None and k != "fromtab":
            w.findings.append(f"C08-rejects-valid: t[{spec}] raised {type(e).__name__}: {e}"[:200])
        cells_after = [tuple(c.__dict__["_underlying"]) for c in t.__dict__["_underlying"]]
        if writes is None and cells_after != cells_before:
            w.findings.append(f"C02-rejected-stored: the table write {spec} was refused ({type(e).__name__}) but part of it was stored: "
                              f"columns {cells_before} -> {cells_after} (input that does not fit is rejected, not stored)")
        if k == "fromtab":
            raise Skip()
        return (f"ORead {cnat(ht)}", "Ok")
    if writes is None:
        w.findings.append(f"C08-accepts-invalid: table write {spec} on {n} rows was accepted")
        writes = []
    w.stats["writes_ok"] += 1
    ws = []
    for ci, us in writes:
        c = cols[ci]
        changed_ok.add(w.handle_of(c))
        ws.append((ci, us, w.sid(c.__dict__["_underlying"])))
    return (_sett_term(w, ht, ws), "Ok")


def _sett_term(w, ht, ws):
    items = []
    for ci, us, sid in ws:
        ul = clist("(%s, %s)" % (cnat(i), _enc_val(w, v)) for i, v in us)
        items.append(f"({cnat(ci)}, {ul}, {cnat(sid)})")
    return f"OSetT {cnat(ht)} {clist(items)}"


def _do_setattr(w, t, ci, src, changed_ok, indexed=False):
    from serif import Table
    cols = t.__dict__["_underlying"]
    if not cols:
        raise Skip()
    ci = ci % len(cols)
    acc = [k for k, v in t._build_column_map().items() if v == ci]
    if not acc:
        raise Skip()
    ht = w.handle_of(t)
    if src[0] == "slot":
        o2 = w.slot(src[1], "v")
        spec = f"(CFrom {cnat(w.handle_of(o2))} None)"
        value = o2
        before = (tuple(o2.__dict__["_underlying"]), o2._name)
    elif src[0] == "tup":
        # a tuple the CALLER holds (over which it may also hold live vectors: newvec with `shared`): the table owns its
        # columns, so the new column is a vector over storage of its own like any other
        tup = w.tuples[src[1] % len(w.tuples)]
        spec = f"(CLit {_vals(w, list(tup))} None)"
        value = tup
        o2 = None
    else:
        spec = f"(CLit {_vals(w, src[1])} None)"
        value = list(src[1])
        o2 = None
    hnew = w.reserve(1)[0]
    name = acc[0]
    if indexed and "__" not in name and not name.endswith("_") and cols[ci]._name == name:
        name = f"{name}__{ci}"                               # the indexed accessor form t.<name>__<position> = value
    try:
        setattr(t, name, value)
    except Exception as e:      # noqa: BLE001  wrong length is refused
        w.stats["failed_ops"] += 1
        return (f"OSetAttr {cnat(ht)} {cnat(ci)} {spec} {cnat(hnew)} 0 0", "ErrOther")
    changed_ok.add(ht)
    newcols = t.__dict__["_underlying"]
    c = newcols[ci]
    if o2 is not None and c is o2:
        w.findings.append("C01-shared-object: t.col = v stored the caller's vector object itself")
    h2 = w.handle_of(c)
    return (f"OSetAttr {cnat(ht)} {cnat(ci)} {spec} {cnat(h2)} {cnat(w.sid(c.__dict__['_underlying']))} "
            f"{cnat(w.sid(newcols))}", "Ok")


# ----------------------------------------------------------------------------- module glue

def observe_program(case):
    try:
        return run_program(case["prog"], delay_gc=case.get("delay_gc", True))
    except Exception as e:      # noqa: BLE001
        import traceback
        return {"steps": [], "findings": [f"HARNESS-crash: {type(e).__name__}: {e} {traceback.format_exc()[-400:]}"],
                "stats": {}, "unsupported": None, "nsteps": 0}


def emit_trace(case, obs):
    if obs.get("unsupported"):
        # values outside the model's alphabet: keep the prefix that was recorded
        return clist(obs["steps"][:-1])
    return clist(obs["steps"])


def oracle_for(prefixes):
    def oracle(case, obs):
        for f in obs["findings"]:
            if f.startswith(prefixes) or f.startswith("HARNESS"):
                return f
        return None
    return oracle


def shrink_program(case):
    prog = case["prog"]
    for i in range(len(prog) - 1, -1, -1):
        yield dict(case, prog=prog[:i] + prog[i + 1:])
    for i in range(len(prog)):
        if prog[i][0] in ("newvec",) and len(prog[i][1]) > 1:
            yield dict(case, prog=prog[:i] + [[prog[i][0], prog[i][1][:-1]] + prog[i][2:]] + prog[i + 1:])
