"""C01 — value semantics: writes stay local, read-only operations are pure."""
from harness.props import _heap as H

PID = "C01"
TRANSLATE = ["EqAlias.v"]    # translator tie: alias_tracker.py regenerated, refinement of Model/Heap's registry re-proved
PRELUDE = H.PRELUDE
FAILING = H.FAILING
SHARD = 60
IMPL_BATCH = 125      # histories per implementation subprocess (each step scans gc.get_objects(): keep batches small)
RULE = ("random programs (histories) of 8-40 operations over the heap alphabet (construction, copy, slice, mask, "
        "column views, column selection, stacking, joins, sorts, arithmetic, vector/table/attribute writes, renames, "
        "fingerprints, drops); distinct = canonical JSON of the program; non-trivial = at least one successful write "
        "executed while >= 2 other live objects existed")
ASSUMED = ["element values are None, ints and integral floats; other value types move through the same code paths",
           "CPython: an object dies when its last reference goes (reference cycles are made on purpose to delay it)"]
MIX = {"sel2d": 3, "window": 2, "fillna_w": 2, "fillna": 1, "dropna": 1, "vcat": 2, "newvec": 3, "newtab_dict": 2, "newtab_vecs": 2, "copy": 2, "slice": 2, "mask": 1, "rowidx": 1, "colview": 4, "selcols": 3,
       "stack": 2, "append": 1, "join": 1, "sort": 1, "math": 1, "transpose": 1, "setv": 8, "sett": 4, "setattr": 3,
       "rename": 1, "fp": 1, "read": 1, "drop": 1}
ORACLE_KEYS = ("C01",)


def planted():
    """deterministic histories for the clauses random histories rarely reach: a write that is REFUSED (two vectors over one
    caller tuple) changes nothing - not the contents, not the dtype, not the name - whatever value it carried (a None, a wider
    kind, a wrong length) and whatever key form it used; a column replaced through the indexed accessor (t.col__N = v) is a
    snapshot like any other; rows, 2-D selections and window results are objects of their own"""
    ps = []
    keys = [["int", 0], ["slice", 0, 2, None], ["mask", [True, False, True]], ["idx", [1, 0]], ["idx", [-1]]]
    for t in (0, 1):
        n = 3 if t == 0 else 2
        for key in keys:
            if key[0] == "mask":
                key = ["mask", key[1][:n]]
            for val in (["s", None], ["s", 2.5], ["s", 7], ["l", [None, 2.5]], ["l", [1.5]], ["l", [None]]):
                ps.append([["newvec", [], "a", t], ["newvec", [], "b", t], ["setv", 0, key, val], ["read", 0], ["setv", 1, key, val],
                           ["drop", 1], ["setv", 0, key, val]])
                # three vectors over one tuple: a refused write leaves its target as it was however many partners there are
                ps.append([["newvec", [], "a", t], ["newvec", [], "b", t], ["newvec", [], "c", t], ["setv", 0, key, val], ["read", 0],
                           ["setv", 2, key, val], ["read", 2], ["drop", 1], ["setv", 0, key, val], ["drop", 1], ["setv", 0, key, val]])
    tab = ["newtab_dict", [["a", [1, 2, 3]], ["b", [4, 5, 6]]]]
    for ci in (0, 1):
        ps.append([["newvec", [7, 8, 9], "v", None], tab, ["setattr", 1, ci, ["slot", 0], True], ["setv", 0, ["int", 0], ["s", 99]],
                   ["colview", 1, ci], ["setv", 2, ["int", 1], ["s", -5]], ["rename", 0, "z"], ["read", 1]])
        ps.append([tab, ["sel2d", 0, [None, None, None], ci, False], ["setv", 1, ["int", 0], ["s", 99]], ["read", 0],
                   ["sett", 0, ["cell", 1, ci, 77]], ["read", 1]])
        ps.append([tab, ["window", 0, ci], ["colview", 1, 0], ["setv", 2, ["int", 0], ["s", 99]], ["read", 0], ["rename", 2, "q"],
                   ["read", 0]])
    # columns asked for by their advertised accessor (col<N>_ for an unnamed column, name__N for a repeated name) are copies too
    for ks in ([0, 1], [1, 0], [1]):
        for src in ([0, 1], [1, 1]):          # an unnamed and a named column; one name twice
            ps.append([["newvec", [1, 2, 3], None, None], ["newvec", [4, 5, 6], "a", None], ["newtab_vecs", src],
                       ["selcols", 0, ks, [True] * len(ks)], ["sett", 1, ["cell", 0, 0, 77]], ["read", 0],
                       ["sett", 0, ["cell", 1, ks[0], 55]], ["read", 1], ["sett", 0, ["colslice", ks[0], 9]], ["read", 1]])
    # joins under every expectation (unique right keys take other code paths): the result owns all its columns
    for how in ("join", "inner_join", "full_join"):
        for want in (None, "one_to_one", "many_to_one", "one_to_many"):
            ps.append([["newtab_dict", [["a", [1, 2, 3]], ["b", [5, 6, 7]]]], ["newtab_dict", [["a", [1, 2, 3]], ["c", [7, 8, 9]]]],
                       ["join", 0, 1, how, want], ["sett", 2, ["cell", 0, 1, 500]], ["read", 0], ["sett", 0, ["cell", 1, 1, -4]],
                       ["read", 2], ["sett", 1, ["cell", 2, 1, 44]], ["read", 2]])
    # a block of one table pasted into another (t[0:k, :] = other): the source keeps its kinds and values whatever the target's are
    for src_vals, dst_vals in (([1, 2], [1.5, 2.5, 3.5]), ([1, 2], [5, 6, 7]), ([2.0, 4.0], [5, 6, 7]), ([None, 1], [2.0, 4.0, 2.0])):
        ps.append([["newtab_dict", [["a", dst_vals], ["b", [7, 8, 9]]]], ["newtab_dict", [["p", src_vals], ["q", [0, 1]]]],
                   ["sett", 0, ["fromtab", 1]], ["read", 1], ["read", 0], ["sett", 1, ["cell", 0, 0, 3]], ["read", 0]])
    return [{"prog": p} for p in ps]


def streams(rng, tier):
    n = 500 if tier == "quick" else 3000
    return [("planted", planted()),
            ("histories", [{"prog": H.gen_program(rng, rng.randint(8, 40), MIX)} for _ in range(n)])]


def observe(case):
    return H.observe_program(case)


emit = H.emit_trace
oracle = H.oracle_for(ORACLE_KEYS)
shrink = H.shrink_program


def nontrivial(case, obs):
    st = obs.get("stats") or {}
    return st.get("writes_ok", 0) >= 1 and obs.get("nsteps", 0) >= 4


def describe(case, obs, stream):
    st = obs.get("stats") or {}
    out = [f"steps:{min(obs.get('nsteps', 0) // 10 * 10, 40)}+"]
    for k in ("writes_ok", "writes_alias", "failed_ops", "collected"):
        if st.get(k):
            out.append(f"has:{k}")
    return out
