"""C01 — value semantics: writes stay local, read-only operations are pure."""
from harness.props import _heap as H

PID = "C01"
PRELUDE = H.PRELUDE
FAILING = H.FAILING
SHARD = 60
IMPL_BATCH = 125      # histories per implementation subprocess (each step scans gc.get_objects(): keep batches small)
RULE = ("random programs (histories) of 8-40 operations over the heap alphabet (construction, copy, slice, mask, "
        "column views, column selection, stacking, joins, sorts, arithmetic, vector/table/attribute writes, renames, "
        "fingerprints, drops); distinct = canonical JSON of the program; non-trivial = at least one successful write "
        "executed while >= 2 other live objects existed")
ASSUMED = ["element values are None, ints and integral floats; other value types move through the same code paths",
           "CPython: an object dies when its last reference goes (reference cycles are made on purpose to delay it)"]
MIX = {"sel2d": 3, "window": 2, "fillna_w": 2, "fillna": 1, "dropna": 1, "vcat": 2, "newvec": 3, "newtab_dict": 2, "newtab_vecs": 2, "copy": 2, "slice": 2, "mask": 1, "colview": 4, "selcols": 1,
       "stack": 2, "append": 1, "join": 1, "sort": 1, "math": 1, "transpose": 1, "setv": 8, "sett": 4, "setattr": 3,
       "rename": 1, "fp": 1, "read": 1, "drop": 1}
ORACLE_KEYS = ("C01",)


def streams(rng, tier):
    n = 500 if tier == "quick" else 3000
    return [("histories", [{"prog": H.gen_program(rng, rng.randint(8, 40), MIX)} for _ in range(n)])]


def observe(case):
    return H.observe_program(case)


emit = H.emit_trace
oracle = H.oracle_for(ORACLE_KEYS)
shrink = H.shrink_program


def nontrivial(case, obs):
    st = obs.get("stats") or {}
    return st.get("writes_ok", 0) >= 1 and obs.get("nsteps", 0) >= 4


def describe(case, obs, stream):
    st = obs.get("stats") or {}
    out = [f"steps:{min(obs.get('nsteps', 0) // 10 * 10, 40)}+"]
    for k in ("writes_ok", "writes_alias", "failed_ops", "collected"):
        if st.get(k):
            out.append(f"has:{k}")
    return out
